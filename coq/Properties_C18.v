(** C18 — property theorems only; each closed by [exact] of a lemma proved elsewhere. *)
From Coq Require Import ZArith List Bool.
From VB Require Import Arith.CompactDefs Arith.CompactProofs Arith.CompactSpec.
From VB Require Import Arith.U256Defs Arith.U256Proofs.
From VB Require Import Gen.TextTables Text.TextCommon Text.Base59Defs Text.Base59Proofs Text.Base59Proofs2.
From VB Require Import Text.HexDefs Text.HexProofs Text.Base58Defs Text.Base58Proofs Text.Base58Proofs3
  Text.Base58Proofs4 Text.Base58Proofs5 Text.AddressDefs Text.AddressProofs Text.AddressProofs2.
Import ListNotations.
Local Open Scope Z_scope.

(** * 256-bit arithmetic: the byte-array code equals the mathematical operation mod 2^256 *)

Theorem C18_u256_add : forall a b, wf a -> wf b ->
  uval (uadd a b) = (uval a + uval b) mod 2 ^ 256 /\ wf (uadd a b).
Proof. exact add_exact. Qed.
Print Assumptions C18_u256_add.

Theorem C18_u256_sub : forall a b, wf a -> wf b ->
  uval (usub a b) = (uval a - uval b) mod 2 ^ 256 /\ wf (usub a b).
Proof. exact sub_exact. Qed.
Print Assumptions C18_u256_sub.

Theorem C18_u256_neg : forall a, wf a -> uval (neg a) = (- uval a) mod 2 ^ 256 /\ wf (neg a).
Proof. exact neg_exact. Qed.
Print Assumptions C18_u256_neg.

Theorem C18_u256_not : forall a, wf a -> uval (bnot a) = 2 ^ 256 - 1 - uval a /\ wf (bnot a).
Proof. exact not_exact. Qed.
Print Assumptions C18_u256_not.

Theorem C18_u256_inc : forall a, wf a -> uval (inc a) = (uval a + 1) mod 2 ^ 256 /\ wf (inc a).
Proof. exact inc_exact. Qed.
Print Assumptions C18_u256_inc.

Theorem C18_u256_dec : forall a, wf a -> uval (dec a) = (uval a - 1) mod 2 ^ 256 /\ wf (dec a).
Proof. exact dec_exact. Qed.
Print Assumptions C18_u256_dec.

Theorem C18_u256_mul32 : forall a w, wf a -> 0 <= w < 2 ^ 32 ->
  uval (mul32 a w) = (uval a * w) mod 2 ^ 256 /\ wf (mul32 a w).
Proof. exact mul32_exact. Qed.
Print Assumptions C18_u256_mul32.

Theorem C18_u256_mul : forall a b, wf a -> wf b ->
  uval (umul a b) = (uval a * uval b) mod 2 ^ 256 /\ wf (umul a b).
Proof. exact mul_exact. Qed.
Print Assumptions C18_u256_mul.

Theorem C18_u256_div : forall a b, wf a -> wf b ->
  match udiv a b with
  | Throw => uval b = 0
  | Done q => 0 < uval b /\ uval q = uval a / uval b /\ wf q
  end.
Proof. exact div_exact. Qed.
Print Assumptions C18_u256_div.

Theorem C18_u256_div_by_zero_throws : forall a b, wf a -> wf b -> (udiv a b = Throw <-> uval b = 0).
Proof. exact div_throws_iff. Qed.
Print Assumptions C18_u256_div_by_zero_throws.

Theorem C18_u256_shl : forall a sh, wf a -> 0 <= sh ->
  uval (shl a sh) = (uval a * 2 ^ sh) mod 2 ^ 256 /\ wf (shl a sh).
Proof. exact shl_exact. Qed.
Print Assumptions C18_u256_shl.

Theorem C18_u256_shr : forall a sh, wf a -> 0 <= sh ->
  uval (shr a sh) = uval a / 2 ^ sh /\ wf (shr a sh).
Proof. exact shr_exact. Qed.
Print Assumptions C18_u256_shr.

Theorem C18_u256_compare : forall a b, wf a -> wf b ->
  cmp a b = match uval a ?= uval b with Lt => -1 | Eq => 0 | Gt => 1 end.
Proof. exact cmp_exact. Qed.
Print Assumptions C18_u256_compare.

Theorem C18_u256_bits : forall a, wf a -> ubits a = (if uval a =? 0 then 0 else Z.log2 (uval a) + 1).
Proof. exact bits_exact. Qed.
Print Assumptions C18_u256_bits.

Theorem C18_u256_getLow64 : forall a, wf a -> getLow64 a = uval a mod 2 ^ 64.
Proof. exact getLow64_exact. Qed.
Print Assumptions C18_u256_getLow64.

Theorem C18_u256_of_u64 : forall b, 0 <= b < 2 ^ 64 -> uval (of_u64 b) = b /\ wf (of_u64 b).
Proof. exact of_u64_exact. Qed.
Print Assumptions C18_u256_of_u64.

(** [shl], [shr], [ubits] above are the literal C++ loops (scatter with |= / scan
    from the top byte); they coincide with the gather formulations *)
Theorem C18_u256_coded_loops_eq_gather : forall a sh, wf a -> 0 <= sh ->
  shl a sh = shl_g a sh /\ shr a sh = shr_g a sh /\ ubits a = ubits_g a.
Proof. exact shifts_coded_eq_gather. Qed.
Print Assumptions C18_u256_coded_loops_eq_gather.

(** * compact targets *)

(** the byte-level codec (built from the operations above) is the value-level codec *)
Theorem C18_compact_fromBits_bytes : forall c, 0 <= c < 2 ^ 32 ->
  let '(t, neg, ovf) := fromBits_b c in
  let '(t', neg', ovf') := fromBits c in
  uval t = t' /\ neg = neg' /\ ovf = ovf' /\ wf t.
Proof. exact fromBits_bytes. Qed.
Print Assumptions C18_compact_fromBits_bytes.

Theorem C18_compact_toBits_bytes : forall a neg, wf a -> toBits_b a neg = toBits (uval a) neg.
Proof. exact toBits_bytes. Qed.
Print Assumptions C18_compact_toBits_bytes.

(** every uint32 is size byte * sign bit * 23-bit mantissa ... *)
Theorem C18_compact_every_uint32 : forall c, 0 <= c < 2 ^ 32 ->
  exists s sg m, 0 <= s < 256 /\ 0 <= sg <= 1 /\ 0 <= m < 2 ^ 23 /\ c = s * 2 ^ 24 + sg * 2 ^ 23 + m.
Proof. exact fromBits_total. Qed.
Print Assumptions C18_compact_every_uint32.

(** ... and decodes as Bitcoin's SetCompact defines: value, negative flag, and
    the overflow flag is set exactly when the mathematical value does not fit *)
Theorem C18_compact_fromBits_spec : forall s sg m,
  0 <= s < 256 -> 0 <= sg <= 1 -> 0 <= m < 2 ^ 23 ->
  let w := word s m in
  fromBits (s * 2 ^ 24 + sg * 2 ^ 23 + m) =
    ((if s <=? 3 then w else (m * 2 ^ (8 * (s - 3))) mod 2 ^ 256),
     negb (w =? 0) && (sg =? 1),
     negb (w =? 0) && (if s <=? 3 then false else 2 ^ 256 <=? m * 2 ^ (8 * (s - 3)))).
Proof. exact fromBits_spec. Qed.
Print Assumptions C18_compact_fromBits_spec.

Theorem C18_compact_toBits_sign : forall v neg, 0 <= v < 2 ^ 256 ->
  let c := toBits v neg in
  0 <= c < 2 ^ 32 /\
  (Z.land c 8388608 <> 0 <-> neg = true /\ Z.land c 8388607 <> 0) /\
  (Z.testbit c 23 = true <-> neg = true /\ Z.land c 8388607 <> 0) /\
  Z.land (toBits v false) 8388608 = 0 /\
  Z.testbit (toBits v false) 23 = false /\
  Z.land (toBits v true) 8388607 = Z.land (toBits v false) 8388607 /\
  toBits v true = toBits v false + (if Z.land (toBits v false) 8388607 =? 0 then 0 else 2 ^ 23).
Proof. exact toBits_sign. Qed.
Print Assumptions C18_compact_toBits_sign.

(** decoding an encoding gives the value truncated to its leading mantissa bytes *)
Theorem C18_compact_fromBits_toBits : forall v neg, 0 <= v < 2 ^ 256 ->
  fromBits (toBits v neg) = (trunc v, neg && negb (trunc v =? 0), false).
Proof. exact fromBits_toBits_gen. Qed.
Print Assumptions C18_compact_fromBits_toBits.

Theorem C18_compact_trunc_bounds : forall v, 0 <= v ->
  if csize v <=? 3 then trunc v = v else trunc v <= v < trunc v + 2 ^ (8 * (csize v - 3)).
Proof. exact trunc_bounds. Qed.
Print Assumptions C18_compact_trunc_bounds.

Theorem C18_compact_roundtrip :
  forall c, canonical_pos c ->
    let '(t, neg, ovf) := fromBits c in
    neg = false /\ ovf = false /\ 0 < t < 2 ^ 256 /\ toBits t false = c.
Proof. exact toBits_fromBits. Qed.
Print Assumptions C18_compact_roundtrip.

(** * base59 *)

Theorem C18_base59_roundtrip : forall bs, bytes bs -> Z.of_nat (length bs) <= size_max ->
  b59_decode (b59_encode bs) = Ok bs.
Proof. exact b59_roundtrip. Qed.
Print Assumptions C18_base59_roundtrip.

Theorem C18_base59_rejects_foreign_characters : forall s, bytes s ->
  (exists c, In c s /\ ~ In c b59_alphabet) -> b59_decode s = Invalid.
Proof. exact b59_decode_rejects. Qed.
Print Assumptions C18_base59_rejects_foreign_characters.

Theorem C18_base59_canonical_text_reencodes : forall s v, bytes s -> Z.of_nat (length s) <= size_max ->
  b59_decode s = Ok v -> b59_encode v = s.
Proof. exact b59_encode_decode. Qed.
Print Assumptions C18_base59_canonical_text_reencodes.

Theorem C18_base59_never_aborts : forall s, bytes s -> b59_decode s <> Abort.
Proof. exact b59_decode_no_abort. Qed.
Print Assumptions C18_base59_never_aborts.

Theorem C18_base59_table_inverse_1 : forall d, 0 <= d < 59 -> lookup b59_indexes (char_of_digit d) = d.
Proof. exact b59_index_of_char. Qed.
Print Assumptions C18_base59_table_inverse_1.

Theorem C18_base59_table_inverse_2 : forall c, 0 <= c < 128 ->
  lookup b59_indexes c = -1 \/ (0 <= lookup b59_indexes c < 59 /\ char_of_digit (lookup b59_indexes c) = c).
Proof. exact b59_char_of_index. Qed.
Print Assumptions C18_base59_table_inverse_2.

(** * base58 *)

Theorem C18_base58_roundtrip : forall bs, bytes bs ->
  exists s, b58_encode bs = Ok s /\ b58_decode s = Ok bs.
Proof. exact b58_roundtrip. Qed.
Print Assumptions C18_base58_roundtrip.

Theorem C18_base58_rejects_foreign_characters : forall s, bytes s ->
  (exists c, In c s /\ ~ In c b58_alphabet /\ is_space c = false) ->
  forall v, b58_decode s <> Ok v.
Proof. exact b58_decode_rejects. Qed.
Print Assumptions C18_base58_rejects_foreign_characters.

Theorem C18_base58_rejects_inner_space : forall a sp b, is_space sp = true ->
  (exists x, In x a /\ is_space x = false) -> (exists y, In y b /\ is_space y = false) ->
  forall v, b58_decode (a ++ sp :: b) <> Ok v.
Proof. exact b58_decode_rejects_inner_space. Qed.
Print Assumptions C18_base58_rejects_inner_space.

Theorem C18_base58_canonical_text_reencodes : forall s v, bytes s -> b58_decode s = Ok v ->
  exists sp1 body sp2,
    s = sp1 ++ body ++ sp2 /\ all_space sp1 /\ all_space sp2 /\ b58_encode v = Ok body.
Proof. exact b58_decode_encode. Qed.
Print Assumptions C18_base58_canonical_text_reencodes.

Theorem C18_base58_decode_never_aborts : forall s, bytes s -> b58_decode s <> Abort.
Proof. exact b58_decode_never_aborts. Qed.
Print Assumptions C18_base58_decode_never_aborts.

Theorem C18_base58_table_inverse_1 : forall d, 0 <= d < b58_enc_base -> lookup b58_map (b58_char d) = d.
Proof. exact b58_map_char. Qed.
Print Assumptions C18_base58_table_inverse_1.

Theorem C18_base58_table_inverse_2 : forall c, is_byte c -> (lookup b58_map c = -1 <-> ~ In c b58_alphabet).
Proof. exact b58_map_minus1. Qed.
Print Assumptions C18_base58_table_inverse_2.

(** * hex *)

Theorem C18_hex_roundtrip : forall bs, bytes bs -> parse_hex (hex_str bs) = bs.
Proof. exact hex_roundtrip. Qed.
Print Assumptions C18_hex_roundtrip.

Theorem C18_hex_is_hex : forall bs, bytes bs -> bs <> [] -> is_hex (hex_str bs) = true.
Proof. exact is_hex_hex_str. Qed.
Print Assumptions C18_hex_is_hex.

Theorem C18_hex_parse_stops_at_foreign_character : forall bs c rest,
  bytes bs -> hex_digit_of c = -1 -> is_space c = false ->
  parse_hex (hex_str bs ++ c :: rest) = bs.
Proof. exact parse_hex_stops. Qed.
Print Assumptions C18_hex_parse_stops_at_foreign_character.

Theorem C18_hex_parse_never_overruns : forall s, exists v, parse_hex_mem (c_string s) = Ok v.
Proof. exact parse_hex_no_overrun. Qed.
Print Assumptions C18_hex_parse_never_overruns.

Theorem C18_hex_table_inverse : forall d, 0 <= d < 16 -> hex_digit_of (hex_char d) = d.
Proof. exact hex_digit_of_hex_char. Qed.
Print Assumptions C18_hex_table_inverse.

(** * address (sha256 abstract; premise: it returns 32 bytes) *)

Theorem C18_address_is_derived : forall sha256 : list Z -> list Z,
  (forall x, length (sha256 x) = 32%nat /\ bytes (sha256 x)) ->
  forall k a, addr_from_public_key sha256 k = Ok a ->
    addr_is_derived_from_public_key sha256 a k = Ok true.
Proof. exact addr_is_derived. Qed.
Print Assumptions C18_address_is_derived.

Theorem C18_address_fromString_toString : forall (sha256 : list Z -> list Z) s a,
  addr_from_string sha256 s = Ok a ->
    addr_to_string a = s /\ addr_from_string sha256 (addr_to_string a) = Ok a.
Proof. exact addr_from_to_string. Qed.
Print Assumptions C18_address_fromString_toString.

Theorem C18_address_derived_parses_back : forall sha256 : list Z -> list Z,
  (forall x, length (sha256 x) = 32%nat /\ bytes (sha256 x)) ->
  forall k a, addr_from_public_key sha256 k = Ok a ->
    addr_from_string sha256 (addr_to_string a) = Ok a.
Proof. exact addr_from_public_key_valid. Qed.
Print Assumptions C18_address_derived_parses_back.

Theorem C18_address_fromString_never_aborts : forall sha256 : list Z -> list Z,
  (forall x, length (sha256 x) = 32%nat /\ bytes (sha256 x)) ->
  forall s, bytes s -> addr_from_string sha256 s <> Abort.
Proof. exact addr_from_string_never_aborts. Qed.
Print Assumptions C18_address_fromString_never_aborts.
