(** C18 — property theorems only; each closed by [exact] of a lemma proved elsewhere. *)
From Coq Require Import ZArith.
From VB Require Import Arith.CompactDefs Arith.CompactProofs.
Local Open Scope Z_scope.

Theorem C18_compact_roundtrip :
  forall c, canonical_pos c ->
    let '(t, neg, ovf) := fromBits c in
    neg = false /\ ovf = false /\ 0 < t < 2 ^ 256 /\ toBits t false = c.
Proof. exact toBits_fromBits. Qed.
Print Assumptions C18_compact_roundtrip.
