(** C10 — property theorems only; each closed by [exact] of a lemma proved in Store/*Theorems.v / *Proofs.v.
    Model: Store/SaveLoadDefs.v (BlockIndex/addon mutators with exactly the setDirty() calls of the code,
    saveTree, loadTree). [run prims_fixed h init storage0] executes ANY history [h] of tree operations in which
    [OSave] may occur at ANY positions. *)
From Coq Require Import NArith List.
From VB Require Import Store.SaveLoadDefs Store.SaveLoadProofs Store.SaveLoadTheorems Store.LoadProofs Store.LoadSort Store.LoadWindow.
From VB Require Import Store.ChainWorkDefs Store.ChainWorkProofs.
From VB Require Import Store.FinalizeDefs Store.FinalizeOutdated Store.FinalizeWindow Store.FinalizeTips
  Store.FinalizeVariantDefs Store.FinalizeDirtyProofs.
Import ListNotations.
Local Open Scope N_scope.

(* every block that is not dirty is on disk with exactly its current persisted projection
   (= every block whose projection changed since it was last written is dirty) *)
Theorem C10_dirty_complete :
  forall h s st, run prims_fixed h init storage0 = Done s st ->
  forall id b, lookup (blocks s) id = Some b -> b_dirty b = false -> lookup (st_blocks st) id = Some (b_pers b).
Proof. exact dirty_complete. Qed.
Print Assumptions C10_dirty_complete.

(* after the last save the storage accumulated by all incremental saves IS the full dump of the current
   state; loading it equals loading a complete snapshot *)
Theorem C10_save_load_roundtrip :
  forall h s st, run prims_fixed (h ++ [OSave]) init storage0 = Done s st ->
  st = full_dump s /\ load prims_fixed st = load prims_fixed (full_dump s).
Proof. exact save_load_roundtrip. Qed.
Print Assumptions C10_save_load_roundtrip.

(* a crash anywhere after a completed save and before the next one loads exactly the state of that save *)
Theorem C10_crash_loses_only_tail :
  forall h1 h2 s1 st1 s2 st2,
  run prims_fixed (h1 ++ [OSave]) init storage0 = Done s1 st1 ->
  no_save h2 = true ->
  run prims_fixed ((h1 ++ [OSave]) ++ h2) init storage0 = Done s2 st2 ->
  st2 = st1 /\ st2 = full_dump s1 /\ load prims_fixed st2 = load prims_fixed (full_dump s1).
Proof. exact crash_loses_only_tail. Qed.
Print Assumptions C10_crash_loses_only_tail.

(* documentation of repaired defect F9 (/repo 0c5b5503): with raiseValidity/lowerValidity that do not call
   setDirty() the first theorem is false: header P, header C, body C, save, body P, save leaves the clean
   block C stored with status 257 while its live status is 258 *)
Theorem C10_dirty_complete_v0_refuted :
  exists s st b,
    run prims_v0 f9_history init storage0 = Done s st /\
    lookup (blocks s) 2 = Some b /\ b_dirty b = false /\
    s_level (bstatus b) = 2 /\
    (exists p, lookup (st_blocks st) 2 = Some p /\ status_word (p_status p) = 257 /\ status_word (bstatus b) = 258 /\ p <> b_pers b).
Proof. exact dirty_complete_v0_refuted. Qed.
Print Assumptions C10_dirty_complete_v0_refuted.

(* loadBlockForward + recoverEndorsements over any parent-before-child order restore exactly the stored fields *)
Theorem C10_load_blocks_topological :
  forall l m acc,
  (forall k, pv m k = lookup acc k) -> topo_ok acc l ->
  exists m', load_blocks prims_fixed l m = Some m' /\ forall k, pv m' k = lookup (acc ++ l) k.
Proof. exact load_blocks_topological. Qed.
Print Assumptions C10_load_blocks_topological.

(* full statement shape of the property, PARTIAL: for any history and any placement of saves, loading the
   accumulated storage succeeds and gives the tip and every live block's persisted projection as of the last
   save.  Premises about the saved state (NOT proved for all reachable states, because the model's operations take
   their block lists as free arguments): it is structurally consistent ([consistent_list]: unique ids, every index
   VALID_TREE or FAILED_POP, parents present one below, endorsed blocks present and lower) - from which the
   parent-before-child order of the height sort is PROVED - the tip is a live block, and the stored active chain is
   ACTIVE and fully valid.  The rebuilt endorsedBy lists and the dirty bits are not described. *)
Theorem C10_reload_equiv_partial :
  forall h s st,
  run prims_fixed (h ++ [OSave]) init storage0 = Done s st ->
  let live := filter (fun x => negb (s_deleted (p_status (snd x)))) (st_blocks (full_dump s)) in
  consistent_list live ->
  lookup (sort_by_height live) (tip s) <> None ->
  (forall fuel, chain_ok fuel (lookup (sort_by_height live)) (tip s) = true) ->
  exists s', load prims_fixed st = Loaded s' /\ tip s' = tip s /\
             forall k, pv (blocks s') k = lookup (sort_by_height live) k.
Proof. exact reload_equiv_consistent_partial. Qed.
Print Assumptions C10_reload_equiv_partial.

(* the endorsement-recovery window of loadBlockInner (window start = max(0, height - si), a parameter of the
   model) accepts a stored block exactly when all its endorsements satisfy the LIVE rule (distance <= si) *)
Theorem C10_recovery_window_iff_live_rule :
  forall si m x, recover_check (window_start si) m x = true <-> live_rule si m x.
Proof. exact recover_check_iff_live_rule. Qed.
Print Assumptions C10_recovery_window_iff_live_rule.

(* a window shortened by one rejects an endorsement exactly at the boundary, which the live rule accepts:
   storage written by a valid instance would fail to load *)
Theorem C10_recovery_window_short_refuted :
  live_rule 6 boundary_store boundary_block /\
  recover_check (window_start 6) boundary_store boundary_block = true /\
  recover_check (window_start_short 6) boundary_store boundary_block = false.
Proof. exact recovery_window_short_refuted. Qed.
Print Assumptions C10_recovery_window_short_refuted.

(* chain work (memory only, compared by PoW fork resolution) is rebuilt by load to exactly the value the running
   instance holds, for EVERY block of every structurally consistent stored tree - whatever the bootstrap flags
   (bootstrapWithChain marks a whole chain) and whatever order the running instance inserted the blocks in.
   [proof] = getBlockProof(header), any function of the block *)
Theorem C10_chainwork_restored :
  forall (proof : N -> N) stored,
  consistent_list stored -> pbc [] stored ->
  forall id, work_of (load_work proof stored) id = work_of (live_work proof stored) id.
Proof. exact chainwork_restored. Qed.
Print Assumptions C10_chainwork_restored.

(* the variant of loadBlockForward that does not add the parent's work for BLOCK_BOOTSTRAP blocks: with the 2-block
   bootstrap chain g - b1 and a regular block b2 the reloaded work of b1 and b2 is too small *)
Theorem C10_chainwork_restart_at_bootstrap_refuted :
  work_of (live_work (fun _ => 1) boot2_chain) 1 = 2 /\ work_of (load_work_restart (fun _ => 1) boot2_chain) 1 = 1 /\
  work_of (live_work (fun _ => 1) boot2_chain) 2 = 3 /\ work_of (load_work_restart (fun _ => 1) boot2_chain) 2 = 2.
Proof. exact chainwork_restart_at_bootstrap_refuted. Qed.
Print Assumptions C10_chainwork_restart_at_bootstrap_refuted.

(* finalization never deallocates an unsaved block of the active chain: for ANY set of dirty blocks (also an old
   saved block that became dirty again below clean blocks) every dirty active-chain block is still in the tree, still
   dirty, with its payload ids, after finalizeBlockImpl - so the next saveTree can write it.  Premises: well-formed
   tree, the active chain is a parent-closed path starting at the root, no unsaved block on an outdated fork
   (known finding tips-dirty-fork-erased is about those) *)
Theorem C10_finalize_keeps_dirty_chain_blocks :
  forall fuel t idx preserve,
  wf_tree t -> chain_is_path t -> chain_closed t ->
  (forall id b, flookup (t_blocks t) id = Some b -> (N.to_nat (f_height b) <= fuel)%nat) ->
  In idx (t_chain t) -> flookup (t_blocks t) idx <> None ->
  no_dirty_outdated_forks fuel t (lowest_dirty fuel t idx idx) (t_tips t) ->
  forall c b, In c (t_chain t) -> flookup (t_blocks t) c = Some b -> f_dirty b = true ->
  exists b', flookup (t_blocks (finalizeBlockImpl fuel t idx preserve)) c = Some b' /\
             f_dirty b' = true /\ f_pl b' = f_pl b /\ f_height b' = f_height b.
Proof. exact finalize_keeps_dirty_chain_blocks. Qed.
Print Assumptions C10_finalize_keeps_dirty_chain_blocks.

(* the walk that stops at the first clean block ("unsaved blocks are the top of the chain"): chain 0..12, only the
   old block 2 is dirty; finalizing block 8 with preserve 2 moves the root to 6 and deallocates block 2 with its
   unsaved change, the full walk keeps it *)
Theorem C10_finalize_stop_at_first_clean_refuted :
  is_dirty late_dirty_tree 2 = true /\ on_chain late_dirty_tree 2 = true /\
  lowest_dirty_stop 30 late_dirty_tree 8 8 = 8 /\
  flookup (t_blocks (finalizeBlockImpl_stop 30 late_dirty_tree 8 2)) 2 = None /\
  t_chain (finalizeBlockImpl_stop 30 late_dirty_tree 8 2) = [6;7;8;9;10;11;12] /\
  flookup (t_blocks (finalizeBlockImpl 30 late_dirty_tree 8 2)) 2 <> None.
Proof. exact finalize_stop_at_first_clean_refuted. Qed.
Print Assumptions C10_finalize_stop_at_first_clean_refuted.

(* ================================================================================================================
   Reload equivalence over ALL guarded histories (Store/ReloadEquiv.v: definitions; ReloadWfA.v, ReloadWfB.v: the
   invariant is inductive; ReloadLoad.v: load of a full dump of a well-formed state; ReloadCont.v: one operation on
   equivalent states; ReloadGuardB.v: executable guard; ReloadTheorems.v: composition and examples).
   [guarded h s st]: every operation of [h] satisfies the caller guarantees [pre] in the state it is executed in (the
   operations of the model take block lists, endorsements and the tip as FREE arguments; for unconstrained arguments
   the statement is false, see C10_reload_unguarded_refuted). [equiv s s']: same tip; the reloaded blocks are blocks
   of the live state with equal persisted projection, finalized mark and endorsedBy multiset; every non-deleted live
   block is reloaded. Ignored: dirty bit, map order, BLOCK_DELETED indices (not loaded by design). *)
From VB Require Import Store.ReloadEquiv Store.ReloadWfA Store.ReloadWfB Store.ReloadLoad Store.ReloadCont
  Store.ReloadGuardB Store.ReloadChainWork Store.ReloadTheorems.

(* the well-formedness invariant that makes load succeed holds initially and is preserved by every guarded operation *)
Theorem C10_reload_wf_inductive :
  wf init /\
  (forall o s st s' st', wf s -> pre s o -> step prims_fixed o s st = Done s' st' -> wf s') /\
  (forall h s st s' st', wf s -> guarded h s st -> run prims_fixed h s st = Done s' st' -> wf s').
Proof. exact (conj wf_init (conj step_wf (fun h => run_wf h))). Qed.
Print Assumptions C10_reload_wf_inductive.

(* load of a full dump of ANY well-formed state succeeds (no failure branch of load is reachable), gives an equivalent
   state, all loaded blocks clean *)
Theorem C10_load_of_wf :
  forall s, wf s ->
  exists s', load prims_fixed (full_dump s) = Loaded s' /\ equiv s s' /\
             (forall id b, lookup (blocks s') id = Some b -> b_dirty b = false /\ deleted b = false).
Proof. exact load_of_wf. Qed.
Print Assumptions C10_load_of_wf.

(* for every guarded history with saves at any positions: the accumulated storage is the full dump, load SUCCEEDS and
   the loaded state is equivalent to the live one *)
Theorem C10_reload_equiv :
  forall h s st,
  guarded h init storage0 ->
  run prims_fixed (h ++ [OSave]) init storage0 = Done s st ->
  wf s /\ st = full_dump s /\
  exists s', load prims_fixed st = Loaded s' /\ equiv s s' /\
             (forall id b, lookup (blocks s') id = Some b -> b_dirty b = false /\ deleted b = false).
Proof. exact reload_equiv. Qed.
Print Assumptions C10_reload_equiv.

(* ... and the chain work load recomputes from that storage is, for every tree block, the sum of the block proofs along
   its parent path in the live tree *)
Theorem C10_reload_chainwork :
  forall (proof : N -> N) h s st,
  guarded h init storage0 ->
  run prims_fixed (h ++ [OSave]) init storage0 = Done s st ->
  forall id b, vis (blocks s) id = Some b ->
  exists w, has_work proof (pvis s) id w /\
            work_of (load_work proof (filter (fun x => negb (s_deleted (p_status (snd x)))) (st_blocks st))) id = w.
Proof. exact reload_equiv_chainwork. Qed.
Print Assumptions C10_reload_chainwork.

(* what equivalent states show: same tip, same block (persisted projection + finalized mark) under every id, same
   endorsedBy multisets *)
Theorem C10_equiv_observe :
  forall s s', equiv s s' ->
  tip s = tip s' /\ (forall id, observe s id = observe s' id) /\
  (forall id b b', vis (blocks s) id = Some b -> vis (blocks s') id = Some b' -> Permutation.Permutation (b_by b) (b_by b')).
Proof. exact equiv_observe. Qed.
Print Assumptions C10_equiv_observe.

(* one operation on equivalent states: same outcome (Done / the same Abort code), equivalent results *)
Theorem C10_reload_step_equiv :
  forall o s st s' st', wf s -> pre s o -> equiv s s' ->
  match step prims_fixed o s st with
  | Done s1 _ => exists s1' st1', step prims_fixed o s' st' = Done s1' st1' /\ equiv s1 s1'
  | Abort w => step prims_fixed o s' st' = Abort w
  end.
Proof. exact step_equiv. Qed.
Print Assumptions C10_reload_step_equiv.

(* the reloaded instance follows the live one op for op over every guarded follow-up history *)
Theorem C10_reload_continues :
  forall h h2 s st s',
  guarded ((h ++ [OSave]) ++ h2) init storage0 ->
  run prims_fixed (h ++ [OSave]) init storage0 = Done s st ->
  load prims_fixed st = Loaded s' ->
  equiv s s' /\
  forall st',
  match run prims_fixed h2 s st with
  | Done s1 _ => exists s1' st1', run prims_fixed h2 s' st' = Done s1' st1' /\ equiv s1 s1'
  | Abort w => run prims_fixed h2 s' st' = Abort w
  end.
Proof. exact reload_continues. Qed.
Print Assumptions C10_reload_continues.

(* without the guarantees the statement is false in the model: an endorsement of a block that does not exist is saved
   and load fails; a save between unapply and setTip loads, but loadTip re-activates the stored tip *)
Theorem C10_reload_unguarded_refuted :
  (exists s st, run prims_fixed ([OApply 0 4 [(1, 99)]] ++ [OSave]) init storage0 = Done s st /\
                load prims_fixed st = LoadFail 1) /\
  (exists s st s' b b', run prims_fixed ([OInsertHeader 1 0; OApply 1 4 []; OSetTip 1; OUnapply 1] ++ [OSave]) init storage0 = Done s st /\
     load prims_fixed st = Loaded s' /\ lookup (blocks s) 1 = Some b /\ lookup (blocks s') 1 = Some b' /\
     s_active (bstatus b) = false /\ s_active (bstatus b') = true).
Proof. exact (conj unguarded_reload_refuted save_between_unapply_and_settip_refuted). Qed.
Print Assumptions C10_reload_unguarded_refuted.

(* the premises are met by a history with forks, invalidation/re-validation, removal and re-adding, payload changes,
   endorsements, reorgs and saves; the reloaded state is the live one up to dirty bits, map order and removed indices;
   the follow-up history ends in the same canonical state and the same storage on both instances *)
Theorem C10_reload_example :
  guarded ((hist1 ++ [OSave]) ++ hist2) init storage0 /\
  (exists s0 st0 s st s',
    run prims_fixed hist1 init storage0 = Done s0 st0 /\ dirty_ids s0 = [0; 1; 2; 3; 4; 6; 5; 7] /\
    run prims_fixed (hist1 ++ [OSave]) init storage0 = Done s st /\
    load prims_fixed st = Loaded s' /\
    canon s0 = canon s' /\ canon s = canon s' /\
    map fst (blocks s) = [0; 1; 2; 3; 4; 6; 5; 7] /\ map fst (blocks s') = [0; 1; 3; 2; 5; 4; 6]) /\
  (exists s st s' s1 st1 s1' st1',
    run prims_fixed (hist1 ++ [OSave]) init storage0 = Done s st /\ load prims_fixed st = Loaded s' /\
    run prims_fixed hist2 s st = Done s1 st1 /\ run prims_fixed hist2 s' st = Done s1' st1' /\
    canon s1 = canon s1' /\ st1 = st1').
Proof. exact (conj hist_guarded (conj reload_example reload_continues_example)). Qed.
Print Assumptions C10_reload_example.

(* ================================================================================================================
   The observation compared with the library (Store/ReloadObsDefs.v, executed by ocaml/StoreObs_driver.ml against a
   fresh instance loaded from the real storage): [load_obs P st ids] = load the storage image and show, for the given
   ids and every further loaded tree block, parent, height, C++ status word, payload ids, containing endorsements,
   refcount, finalized mark and the endorsedBy list; [obs_state] the same of a live state. [obs_agree]: same tip,
   same ids, equal observations, endorsedBy equal up to order. *)
From VB Require Import Store.ReloadObsDefs Store.ReloadObsProofs.

(* for every guarded history with saves at any positions the observed load of the accumulated storage succeeds and
   shows exactly the live state at the last save; blocks it shows beyond the requested ids are blocks of the live state *)
Theorem C10_reload_obs :
  forall h s st ids,
  guarded h init storage0 ->
  run prims_fixed (h ++ [OSave]) init storage0 = Done s st ->
  exists o, load_obs prims_fixed st ids = inl o /\
            exists ids', obs_agree o (obs_state s (ids ++ ids')) /\ forall id, In id ids' -> lookup (blocks s) id <> None.
Proof. exact reload_obs. Qed.
Print Assumptions C10_reload_obs.

(* a crash after any completed save (whatever ran after it): the storage image of that save shows the state of that save *)
Theorem C10_crash_obs :
  forall h1 h2 s1 st1 ids,
  guarded (h1 ++ [OSave] ++ h2) init storage0 ->
  run prims_fixed (h1 ++ [OSave]) init storage0 = Done s1 st1 ->
  exists o, load_obs prims_fixed st1 ids = inl o /\
            exists ids', obs_agree o (obs_state s1 (ids ++ ids')) /\ forall id, In id ids' -> lookup (blocks s1) id <> None.
Proof. exact crash_obs. Qed.
Print Assumptions C10_crash_obs.

(* satisfiable and not trivial: the fork/invalidate/remove/endorse history is guarded, its observed load shows the
   live tip, at least 3 blocks, a block with containing endorsements and a block with endorsedBy entries *)
Theorem C10_reload_obs_satisfiable :
  guarded ((hist1 ++ [OSave]) ++ hist2) init storage0 /\
  match run prims_fixed (hist1 ++ [OSave]) init storage0 with
  | Done s st => match load_obs prims_fixed st [] with
                 | inl o => fst o = tip s /\ (3 <=? N.of_nat (length (snd o))) = true /\
                            existsb (fun x => match snd (fst x) with Some b => negb (match o_ce b with [] => true | _ => false end) | None => false end) (snd o) = true /\
                            existsb (fun x => negb (match snd x with [] => true | _ => false end)) (snd o) = true
                 | inr _ => False
                 end
  | Abort _ => False
  end.
Proof. exact reload_obs_example. Qed.
Print Assumptions C10_reload_obs_satisfiable.
