(** C12 — property theorems only; each closed by [exact] of a lemma proved elsewhere. *)
From Coq Require Import List NArith.
From VB Require Import Mempool.CountDefs Mempool.CountProofs.
Import ListNotations.
Local Open Scope N_scope.

(** the running figure of CountingContext equals estimateSize of the PopData kept so far, for every candidate
    sequence and every verdict of the payload mutator *)
Theorem C12_counting_exact :
  forall L cands,
    let '(c, r) := filter_fit L cands c0 (mkk [] [] []) in popsize c = est_kept r.
Proof. exact counting_exact_lemma. Qed.
Print Assumptions C12_counting_exact.

(** canFit as coded now (the growth of the kind's length prefix is priced): whatever filterInvalidPayloads keeps
    satisfies assertPopDataFits (three counts and the byte size), for every candidate sequence - no bound on counts *)
Theorem C12_generated_fits :
  forall L cands,
    10 <= max_size L ->
    fits L (snd (filter_fit L cands c0 (mkk [] [] []))) = true.
Proof. exact generated_fits_lemma. Qed.
Print Assumptions C12_generated_fits.

(** documentation: canFit before the repair priced the length prefix of the CURRENT count: the 256th payload of a
    kind that fits exactly made the kept PopData one byte larger than the maximum (assertPopDataFits aborted) *)
Theorem C12_counting_prefix_refuted :
  fits witness_limits (snd (filter_fit_v0 witness_limits witness_cands c0 (mkk [] [] []))) = false /\
  len (k_atv (snd (filter_fit_v0 witness_limits witness_cands c0 (mkk [] [] [])))) = 256.
Proof. exact counting_prefix_refuted_lemma. Qed.
Print Assumptions C12_counting_prefix_refuted.

(** add the temporary block, execute what can be executed, un-execute in reverse order, remove the block:
    the state is the one it started from (given the inverse laws of commands and of the temporary block) *)
Theorem C12_generate_pure :
  forall (S P : Type) (add_temp remove_temp : S -> S) (exec : P -> S -> option S) (unexec : P -> S -> S),
    (forall s, remove_temp (add_temp s) = s) ->
    (forall p s s', exec p s = Some s' -> unexec p s' = s) ->
    forall s ps, generate_machine S P add_temp remove_temp exec unexec s ps = s.
Proof. exact generate_pure_lemma. Qed.
Print Assumptions C12_generate_pure.

(** every payload kept by filterInvalidPayloads (pre-tests canFit / stateless duplicate, then execution on the
    temporary block) was executed in the final order: a block carrying exactly the generated list, applied on the same
    tip state, executes completely and reaches the state the temporary block had (exec is deterministic) *)
Theorem C12_generated_applies :
  forall (S P : Type) (add_temp : S -> S) (exec : P -> S -> option S) (pre : P -> list P -> bool) s ps,
    exec_all S P exec (generated S P add_temp exec pre s ps) (add_temp s) =
    Some (fst (filter_apply S P exec pre ps (add_temp s) [])).
Proof. exact generated_applies_lemma. Qed.
Print Assumptions C12_generated_applies.

(** the application order made explicit: filterInvalidPayloads filters context, then VTBs, then ATVs - the order in
    which a block body is executed - so the body (kept context ++ kept VTBs ++ kept ATVs) executes completely on the
    same tip state and reaches the state of the temporary block *)
Theorem C12_generated_applies_ordered :
  forall (S P : Type) (exec : P -> S -> option S) (pre : P -> list P -> bool) ctx vtbs atvs s,
    let '(s3, kc, kv, ka) := filter_as_coded S P exec pre ctx vtbs atvs s in
    exec_body S P exec kc kv ka s = Some s3.
Proof. exact generated_applies_ordered_lemma. Qed.
Print Assumptions C12_generated_applies_ordered.

(** for a filter that applies ATVs before VTBs the statement is false (the kept VTB's containing block was known only
    through an ATV's block of proof) *)
Theorem C12_generated_applies_other_order_refuted :
  let '(s3, kc, kv, ka) := filter_atvs_first (list N) N om_exec (fun _ _ => true) [] [3] [1] [] in
  kv = [3] /\ ka = [1] /\ exec_body (list N) N om_exec kc kv ka [] = None.
Proof. exact generated_applies_other_order_refuted_lemma. Qed.
Print Assumptions C12_generated_applies_other_order_refuted.

