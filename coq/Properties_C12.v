(** C12 — property theorems only; each closed by [exact] of a lemma proved elsewhere. *)
From Coq Require Import List NArith.
From VB Require Import Mempool.CountDefs Mempool.CountProofs.
Import ListNotations.
Local Open Scope N_scope.

(** the running figure of CountingContext equals estimateSize of the PopData kept so far, for every candidate
    sequence and every verdict of the payload mutator *)
Theorem C12_counting_exact :
  forall L cands,
    let '(c, r) := filter_fit L cands c0 (mkk [] [] []) in popsize c = est_kept r.
Proof. exact counting_exact_lemma. Qed.
Print Assumptions C12_counting_exact.

(** partial: the result satisfies assertPopDataFits (three counts and the byte size) as long as fewer than 256
    payloads of each kind are kept. Full statement (no bound on the counts) is FALSE, see the next theorem. *)
Theorem C12_generated_fits_partial :
  forall L cands,
    10 <= max_size L ->
    small (snd (filter_fit L cands c0 (mkk [] [] []))) ->
    fits L (snd (filter_fit L cands c0 (mkk [] [] []))) = true.
Proof. exact generated_fits_lemma. Qed.
Print Assumptions C12_generated_fits_partial.

(** canFit prices the length prefix of the CURRENT count: the 256th payload of a kind that fits exactly makes the
    kept PopData one byte larger than the maximum (assertPopDataFits would abort) *)
Theorem C12_counting_prefix_refuted :
  fits witness_limits (snd (filter_fit witness_limits witness_cands c0 (mkk [] [] []))) = false /\
  len (k_atv (snd (filter_fit witness_limits witness_cands c0 (mkk [] [] [])))) = 256.
Proof. exact counting_prefix_refuted_lemma. Qed.
Print Assumptions C12_counting_prefix_refuted.

(** add the temporary block, execute what can be executed, un-execute in reverse order, remove the block:
    the state is the one it started from (given the inverse laws of commands and of the temporary block) *)
Theorem C12_generate_pure :
  forall (S P : Type) (add_temp remove_temp : S -> S) (exec : P -> S -> option S) (unexec : P -> S -> S),
    (forall s, remove_temp (add_temp s) = s) ->
    (forall p s s', exec p s = Some s' -> unexec p s' = s) ->
    forall s ps, generate_machine S P add_temp remove_temp exec unexec s ps = s.
Proof. exact generate_pure_lemma. Qed.
Print Assumptions C12_generate_pure.
