(** C12 — property theorems only; each closed by [exact] of a lemma proved elsewhere. *)
From Coq Require Import List NArith.
From VB Require Import Mempool.CountDefs Mempool.CountProofs.
Import ListNotations.
Local Open Scope N_scope.

(** the running figure of CountingContext equals estimateSize of the PopData kept so far, for every candidate
    sequence and every verdict of the payload mutator *)
Theorem C12_counting_exact :
  forall L cands,
    let '(c, r) := filter_fit L cands c0 (mkk [] [] []) in popsize c = est_kept r.
Proof. exact counting_exact_lemma. Qed.
Print Assumptions C12_counting_exact.

(** canFit as coded now (the growth of the kind's length prefix is priced): whatever filterInvalidPayloads keeps
    satisfies assertPopDataFits (three counts and the byte size), for every candidate sequence - no bound on counts *)
Theorem C12_generated_fits :
  forall L cands,
    10 <= max_size L ->
    fits L (snd (filter_fit L cands c0 (mkk [] [] []))) = true.
Proof. exact generated_fits_lemma. Qed.
Print Assumptions C12_generated_fits.

(** documentation: canFit before the repair priced the length prefix of the CURRENT count: the 256th payload of a
    kind that fits exactly made the kept PopData one byte larger than the maximum (assertPopDataFits aborted) *)
Theorem C12_counting_prefix_refuted :
  fits witness_limits (snd (filter_fit_v0 witness_limits witness_cands c0 (mkk [] [] []))) = false /\
  len (k_atv (snd (filter_fit_v0 witness_limits witness_cands c0 (mkk [] [] [])))) = 256.
Proof. exact counting_prefix_refuted_lemma. Qed.
Print Assumptions C12_counting_prefix_refuted.

(** add the temporary block, execute what can be executed, un-execute in reverse order, remove the block:
    the state is the one it started from (given the inverse laws of commands and of the temporary block) *)
Theorem C12_generate_pure :
  forall (S P : Type) (add_temp remove_temp : S -> S) (exec : P -> S -> option S) (unexec : P -> S -> S),
    (forall s, remove_temp (add_temp s) = s) ->
    (forall p s s', exec p s = Some s' -> unexec p s' = s) ->
    forall s ps, generate_machine S P add_temp remove_temp exec unexec s ps = s.
Proof. exact generate_pure_lemma. Qed.
Print Assumptions C12_generate_pure.

(** every payload kept by filterInvalidPayloads (pre-tests canFit / stateless duplicate, then execution on the
    temporary block) was executed in the final order: a block carrying exactly the generated list, applied on the same
    tip state, executes completely and reaches the state the temporary block had (exec is deterministic) *)
Theorem C12_generated_applies :
  forall (S P : Type) (add_temp : S -> S) (exec : P -> S -> option S) (pre : P -> list P -> bool) s ps,
    exec_all S P exec (generated S P add_temp exec pre s ps) (add_temp s) =
    Some (fst (filter_apply S P exec pre ps (add_temp s) [])).
Proof. exact generated_applies_lemma. Qed.
Print Assumptions C12_generated_applies.

(** the application order made explicit: filterInvalidPayloads filters context, then VTBs, then ATVs - the order in
    which a block body is executed - so the body (kept context ++ kept VTBs ++ kept ATVs) executes completely on the
    same tip state and reaches the state of the temporary block *)
Theorem C12_generated_applies_ordered :
  forall (S P : Type) (exec : P -> S -> option S) (pre : P -> list P -> bool) ctx vtbs atvs s,
    let '(s3, kc, kv, ka) := filter_as_coded S P exec pre ctx vtbs atvs s in
    exec_body S P exec kc kv ka s = Some s3.
Proof. exact generated_applies_ordered_lemma. Qed.
Print Assumptions C12_generated_applies_ordered.

(** for a filter that applies ATVs before VTBs the statement is false (the kept VTB's containing block was known only
    through an ATV's block of proof) *)
Theorem C12_generated_applies_other_order_refuted :
  let '(s3, kc, kv, ka) := filter_atvs_first (list N) N om_exec (fun _ _ => true) [] [3] [1] [] in
  kv = [3] /\ ka = [1] /\ exec_body (list N) N om_exec kc kv ka [] = None.
Proof. exact generated_applies_other_order_refuted_lemma. Qed.
Print Assumptions C12_generated_applies_other_order_refuted.


(** ** the selection of generatePopData as coded, on the relations structure, with payload ids (GenDefs):
    relations in a height-sorted order (EVERY such order: relations_ is an unordered_map and std::sort is not stable),
    header / ATVs / VTBs of each relation appended, then filterInvalidPayloads (canFit, stateless duplicate,
    mutator.add) over context, VTBs, ATVs. The verdicts of the tree are oracles the theorems quantify over. *)
From Coq Require Import Permutation.
From VB Require Import Mempool.RelDefs Mempool.RelProofs Mempool.RelMore Mempool.GenDefs Mempool.GenProofs Mempool.GenMore.

(** whatever was submitted before (any operation sequence, no caller contract): everything handed out is a CONNECTED
    payload of the pool *)
Theorem C12_selection_from_pool :
  forall (par bop cont szB szV szA : N -> N) L treeB dupB dupV dupA okB okV okA ops s order,
    rrun bop cont mp0 ops = ROk s -> Permutation order (rels s) ->
    let out := generatePop par bop cont szB szV szA L treeB dupB dupV dupA okB okV okA order in
    incl (o_ctx out) (vbks s) /\ incl (o_vtbs out) (svtbs s) /\ incl (o_atvs out) (satvs s).
Proof. exact selection_from_pool_run_lemma. Qed.
Print Assumptions C12_selection_from_pool.

(** for every candidate order sorted by height and every oracle: no id twice; context blocks by ascending height, each
    one known to the tree already or preceded by its previous block (in the tree or EARLIER in the context); every
    VTB / ATV has its containing block / block of proof in the tree or in the returned context (which a block body
    applies first); nothing the tree marks as already on the active chain *)
Theorem C12_selection_valid :
  forall (hgt par bop cont szB szV szA : N -> N) L treeB dupB dupV dupA okB okV okA order,
    asc hgt (map hdr order) ->
    let out := generatePop par bop cont szB szV szA L treeB dupB dupV dupA okB okV okA order in
    NoDup (o_ctx out) /\ NoDup (o_vtbs out) /\ NoDup (o_atvs out) /\
    asc hgt (o_ctx out) /\
    (forall pre b post, o_ctx out = pre ++ b :: post ->
       dupB b = false /\ (treeB b = true \/ treeB (par b) = true \/ In (par b) pre)) /\
    (forall t, In t (o_vtbs out) -> dupV t = false /\ (treeB (cont t) = true \/ In (cont t) (o_ctx out))) /\
    (forall a, In a (o_atvs out) -> dupA a = false /\ (treeB (bop a) = true \/ In (bop a) (o_ctx out))).
Proof. exact selection_valid_lemma. Qed.
Print Assumptions C12_selection_valid.

(** assertPopDataFits on the ids handed out: the three counts and estimateSize respect the limits (same accounting as
    C12_generated_fits, now tied to the selection) *)
Theorem C12_selection_fits :
  forall (par bop cont szB szV szA : N -> N) L treeB dupB dupV dupA okB okV okA order,
    10 <= max_size L ->
    out_fits szB szV szA L
      (generatePop par bop cont szB szV szA L treeB dupB dupV dupA okB okV okA order) = true.
Proof. exact selection_fits_lemma. Qed.
Print Assumptions C12_selection_fits.

(** a height-sorted permutation of the relations exists (the hypotheses above are satisfiable for every pool) *)
Theorem C12_sorted_order_exists :
  forall (hgt : N -> N) rs, is_order hgt rs (sort_rels hgt rs).
Proof. exact sort_is_order_lemma. Qed.
Print Assumptions C12_sorted_order_exists.

(** the pool side of generatePopData (tryConnectPayloads before, cleanUp after; the selection itself only reads): no
    assertion, the bookkeeping invariant is kept, and no payload appears - every ATV / VTB known afterwards was known
    before. (It is not the identity: see C13_cleanUp_exact for what leaves.) *)
Theorem C12_generate_pool_effect :
  forall (bop cont : N -> N) c o s,
    RInv bop cont s -> DInv s ->
    exists s', generate bop cont c o s = ROk s' /\ RInv bop cont s' /\
      (forall a, KA s' a -> KA s a) /\ (forall t, KV s' t -> KV s t).
Proof. exact generate_pool_effect_lemma. Qed.
Print Assumptions C12_generate_pool_effect.

(** non-vacuity: a pool where block 8 connects only through block 7 of an ATV, with an ATV already on chain *)
Theorem C12_selection_example :
  exists s, rrun xbop xcont mp0 [SubB Fine false 8; SubV Fine 3; SubA Fine 1; SubA Fine 2] = ROk s /\
    is_order xhgt (rels s) (sort_rels xhgt (rels s)) /\
    xgen wide (fun a => a =? 2) (sort_rels xhgt (rels s)) = mkout [7; 8] [3] [1] /\
    xgen wide (fun a => a =? 2) [mkr 8 [3] []; mkr 7 [] [2; 1]] = mkout [7] [] [1].
Proof. exact gen_example. Qed.
Print Assumptions C12_selection_example.

(** "the result depends only on the pool content and the tree" is FALSE as coded: (1) rel.vtbs keeps the submission
    order and the VTB limit cuts it - two pools with the same content, same tree, different PopData; *)
Theorem C12_selection_submission_order_refuted :
  exists s12 s21,
    rrun xbop xcont mp0 [SubB Fine false 7; SubV Fine 1; SubV Fine 2] = ROk s12 /\
    rrun xbop xcont mp0 [SubB Fine false 7; SubV Fine 2; SubV Fine 1] = ROk s21 /\
    (forall x, In x (vbks s12) <-> In x (vbks s21)) /\ (forall x, In x (svtbs s12) <-> In x (svtbs s21)) /\
    satvs s12 = satvs s21 /\ fb s12 = fb s21 /\ fv s12 = fv s21 /\ fa s12 = fa s21 /\
    xgen one_vtb nodup (sort_rels xhgt (rels s12)) = mkout [7; 8] [1] [] /\
    xgen one_vtb nodup (sort_rels xhgt (rels s21)) = mkout [7; 8] [2] [].
Proof. exact order_dependent_example. Qed.
Print Assumptions C12_selection_submission_order_refuted.

(** (2) equal heights: both orders of two fork blocks of one height are height-sorted permutations of the SAME pool;
    under a block limit of 1 the results differ (which one the library returns depends on the hash-map iteration
    order and on std::sort) *)
Theorem C12_selection_equal_height_refuted :
  let rs := [mkr 5 [] []; mkr 6 [] []] in
  let rs' := [mkr 6 [] []; mkr 5 [] []] in
  is_order fork_hgt rs rs /\ is_order fork_hgt rs rs' /\
  fork_gen rs = mkout [5] [] [] /\ fork_gen rs' = mkout [6] [] [].
Proof. exact equal_height_example. Qed.
Print Assumptions C12_selection_equal_height_refuted.

(** valid as-is, on the oracles: every payload handed out was admitted by the tree (not a stateful duplicate, its
    block present, and the arbitrary rest of the verdict okB/okV/okA) in the state made by exactly the payloads handed
    out before it in body order - the state in which a block carrying exactly this PopData applies that payload *)
Theorem C12_selection_replays :
  forall (par bop cont szB szV szA : N -> N) L treeB dupB dupV dupA okB okV okA order,
    let out := generatePop par bop cont szB szV szA L treeB dupB dupV dupA okB okV okA order in
    (forall pre b post, o_ctx out = pre ++ b :: post -> admB par treeB dupB okB pre b = true) /\
    (forall pre t post, o_vtbs out = pre ++ t :: post -> admV cont treeB dupV okV (o_ctx out) pre t = true) /\
    (forall pre a post, o_atvs out = pre ++ a :: post ->
                        admA bop treeB dupA okA (o_ctx out) (o_vtbs out) pre a = true).
Proof. exact selection_replays_lemma. Qed.
Print Assumptions C12_selection_replays.
