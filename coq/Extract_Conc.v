Require Extraction.
Require Import ExtrOcamlBasic.
From Coq Require Import ZArith NArith.
From VB Require Import Conc.ValidatorDefs.
Extraction "Conc_model.ml" Nat.pred N.succ Z.succ step run run_count init seq_verdict holders holds_token quiescent_main.
