Require Extraction.
Require Import ExtrOcamlBasic.
From Coq Require Import ZArith NArith.
From VB Require Import Conc.ValidatorDefs Conc.CacheDefs Conc.RingDefs.
Extraction "Conc_model.ml" Nat.pred N.succ Z.succ step run run_count init seq_verdict holders holds_token quiescent_main
  lfru_get_or_default evict_index lru_insert lru_try_get blk_step sys_step sys_init ring_step ring_init fifo_step mk_tasks.
