(** C16 — property theorems only; each closed by [exact] of a lemma proved in Conc/Validator*.v.
    [run false] is the code as it is now, [run true] the code before /repo 9e8bd1f5 (v0).
    All statements quantify over every schedule (list of step labels, including further calls,
    stop() and start()), every worker count and every queue capacity. *)
From Coq Require Import List Bool.
From VB Require Import Conc.ValidatorDefs Conc.ValidatorProofs Conc.ValidatorProgress Conc.ValidatorTermination Conc.RingDefs Conc.RingProofs Gen.ValidatorParams Conc.ValidatorLimits Conc.CheckedDefs Conc.CheckedProofs.
Import ListNotations.

(** whenever checkPopData has returned, its verdict is the sequential one: the index of the first
    invalid payload in submission order, else the duplicates check, else valid *)
Theorem C16_verdict_schedule_independent : forall w c sched v,
  let s := run false sched (init w c) in
  main s = MReturned v -> v = seq_verdict (cur s) (curdup s).
Proof. exact verdict_schedule_independent_lemma. Qed.
Print Assumptions C16_verdict_schedule_independent.

(** [cur]/[curdup] are exactly the arguments of the last accepted call *)
Theorem C16_call_sets_cur : forall vs dup s s',
  step false (LCall vs dup) s = Some s' ->
  map tvalid (cur s') = vs /\ curdup s' = dup /\ token s' = S (token s).
Proof. exact call_sets_cur_lemma. Qed.
Print Assumptions C16_call_sets_cur.

(** in every state in which main is outside checkPopData (returned, threw, or never called), no
    queued, running or unfulfilled task exists at all - in particular none holding the caller's PopData *)
Theorem C16_released_on_return : forall w c sched,
  let s := run false sched (init w c) in
  quiescent_main (main s) = true -> holders s = [] /\ holds_token s = false.
Proof. exact released_on_return_lemma. Qed.
Print Assumptions C16_released_on_return.

(** documentation of the repaired defect F2: before 9e8bd1f5 main could return while a queued task
    still referenced the PopData *)
Theorem C16_released_on_return_v0_refuted :
  exists w c sched, let s := run true sched (init w c) in
    main s = MReturned (VInvalid 0) /\ holders s <> [] /\ holds_token s = true.
Proof. exact released_on_return_v0_refuted_lemma. Qed.
Print Assumptions C16_released_on_return_v0_refuted.

(** progress: while the pool runs and main is inside checkPopData some main/worker step is enabled
    (for every reachable state, including states reached through stop()/start()) *)
Theorem C16_no_deadlock_partial : forall w c sched,
  let s := run false sched (init w c) in
  aborted s = false -> pst s = PRun -> quiescent_main (main s) = false ->
  exists l s', inner l = true /\ step false l s = Some s'.
Proof. exact no_deadlock_lemma. Qed.
Print Assumptions C16_no_deadlock_partial.

(** termination: as long as nobody stops the pool and calls fit the queue, from every reachable state main
    can be driven out of checkPopData by at most [measure s] main/worker steps, and every accepted main/worker
    step strictly decreases [measure] - no infinite sequence of enabled steps exists, so every schedule that
    keeps taking enabled steps reaches the return *)
Theorem C16_no_deadlock : forall w c sched,
  forallb (sizes_ok c) sched = true ->
  let s := run false sched (init w c) in
  (exists cont, forallb inner cont = true /\ length cont <= measure s /\
                quiescent_main (main (run false cont s)) = true) /\
  (forall l s', inner l = true -> step false l s = Some s' -> measure s' < measure s).
Proof. exact no_deadlock_full_lemma. Qed.
Print Assumptions C16_no_deadlock.

(** stop()/start() outside a call: every join succeeds immediately, breaks no promise, leaves nothing
    behind; start() then yields a fresh pool (to which all theorems above apply again) *)
Theorem C16_stop_restart_safe : forall w c sched,
  let s := run false sched (init w c) in
  aborted s = false -> quiescent_main (main s) = true ->
  (forall k, pst s = PStopping k ->
     exists s', step false LJoin s = Some s' /\ futures s' = futures s /\ holders s' = [] /\ main s' = main s) /\
  (pst s = PStopped ->
     holders s = [] /\
     forall w', exists s', step false (LStart w') s = Some s' /\ pst s' = PRun /\
                workers s' = repeat idle_worker (Nat.max 1 w') /\ main s' = main s /\ aborted s' = false).
Proof. exact stop_restart_safe_lemma. Qed.
Print Assumptions C16_stop_restart_safe.

(** no VBK_ASSERT (queue full / validator stopped / started twice) fires when nobody stops or starts
    the validator and every call posts at most qcap tasks *)
Theorem C16_no_assert_fires : forall w c sched,
  forallb (sizes_ok c) sched = true -> aborted (run false sched (init w c)) = false.
Proof. exact no_assert_fires_lemma. Qed.
Print Assumptions C16_no_assert_fires.

(** the worker queue: the validator model above abstracts tp::MPMCBoundedQueue as a bounded FIFO list.  This
    theorem justifies the abstraction for the ring buffer as coded (cells with sequence numbers,
    enqueue/dequeue positions, index = pos mod size): for EVERY sequence of push/pop on a fresh ring of size >= 2 it
    answers exactly like a FIFO bounded by size - across any number of wrap-arounds never "full" with fewer than
    size elements, never "empty" when non-empty, never spinning.
    _partial: each push/pop runs to completion (one thread at a time); interleavings of the CAS loops of
    concurrent producers/consumers and the 2^64 wrap of the position counters are not modelled *)
Theorem C16_ring_refines_fifo_partial : forall (A : Type) (size : nat) (ops : list (rop A)),
  2 <= size -> ring_run A ops (ring_init A size) = fifo_run A size ops [].
Proof. exact ring_refines_fifo_init. Qed.
Print Assumptions C16_ring_refines_fifo_partial.

(** the premise "each call posts at most qcap tasks" of C16_no_assert_fires is met by the code's own capacity:
    upper_power_of_two(maxWorkerQueueSize()) - the sum as written in alt_chain_params.hpp, regenerated into
    Gen/ValidatorParams.v on every run - is at least the payload count of any PopData that passes the count limits
    of checkPopData, whatever the configured limits and however few workers share the load *)
Theorem C16_qcap_fits_limits : forall max_atvs max_vtbs max_vbk n_atvs n_vtbs n_vbk,
  popdata_within_limits max_atvs max_vtbs max_vbk n_atvs n_vtbs n_vbk ->
  n_vbk + n_vtbs + n_atvs <= code_qcap max_atvs max_vtbs max_vbk.
Proof. exact qcap_fits_limits_lemma. Qed.
Print Assumptions C16_qcap_fits_limits.

Theorem C16_call_within_limits_sizes_ok : forall max_atvs max_vtbs max_vbk vs dup n_atvs n_vtbs n_vbk,
  popdata_within_limits max_atvs max_vtbs max_vbk n_atvs n_vtbs n_vbk ->
  length vs = n_vbk + n_vtbs + n_atvs ->
  sizes_ok (code_qcap max_atvs max_vtbs max_vbk) (LCall vs dup) = true.
Proof. exact call_within_limits_sizes_ok. Qed.
Print Assumptions C16_call_within_limits_sizes_ok.

(** the `checked` flags written by the workers into the caller's payloads (set only after a complete success):
    checking the same PopData object any number of times, a copy of it taken after a check, or a fresh
    deserialisation (all flags cleared) always reports the sequential verdict of the payloads themselves *)
Theorem C16_checked_flags_transparent : forall pd n m k,
  flags_sound pd ->
  Forall (fun v => v = spec_verdict pd) (check_n n pd) /\
  Forall (fun v => v = spec_verdict pd) (check_n k (fresh_copy pd)) /\
  (forall pd', pd' = snd (check_call pd) -> Forall (fun v => v = spec_verdict pd) (check_n m pd')).
Proof. exact checked_flags_transparent_lemma. Qed.
Print Assumptions C16_checked_flags_transparent.

(** a PopData on which no flag has been set yet satisfies the premise *)
Theorem C16_no_flags_sound : forall l dup,
  flags_sound (mkPopData (map (fun v => mkPayload v false) l) dup false).
Proof. exact no_flags_sound. Qed.
Print Assumptions C16_no_flags_sound.

(** ------------------------------------------------------------------------------------------------------------
    the worker queue under CONCURRENT access (Conc/RingSteps.v): every push/pop of tp::MPMCBoundedQueue is broken
    into its atomic steps (load position, load cell sequence, compare, CAS on the counter - strong or spuriously
    failing -, data write / data move, sequence store, with the "full"/"empty" exits and both retry loops), any
    number of threads run any programs of pushes and pops, and a schedule is an arbitrary list of
    (thread id, spurious-CAS-failure flag).  Shared memory is the very [ring] record of the sequential theorem above.
    Assumed, not proved: sequentially consistent atomics (the relaxed/acquire/release orders of the code are outside
    the model) and unbounded counters (size_t wrap needs the power-of-two capacity the constructor enforces).
    [rs_lin] is a ghost log appended at each successful CAS, [rs_q] the ghost abstract queue. *)
From VB Require Import Conc.RingSteps Conc.RingConc Conc.RingExamples.

(** for EVERY schedule the successful operations are linearizable, linearization point = the successful CAS:
    the log is a legal history of the bounded FIFO [fifo_step] of the sequential theorem (each logged push accepted
    below capacity, each logged pop returning the oldest element: global FIFO order), it ends in the abstract
    queue, and restricted to any thread it is exactly the successful answers that thread returned, in program
    order, plus the call it has linearized and not yet returned from *)
Theorem C16_ring_linearizable : forall (A : Type) (size : nat) (progs : nat -> list (rop A)) (sched : list (nat * bool)),
  2 <= size ->
  let s := rs_run sched (rs_init size progs) in
  fifo_run A size (map lev_op (rs_lin s)) [] = map lev_res (rs_lin s) /\
  Forall (fun e => is_ok (lev_res e) = true) (rs_lin s) /\
  fifo_state size (map lev_op (rs_lin s)) [] = rs_q s /\
  (forall t, proj t (rs_lin s) = succ_of (thist (rs_thr s t)) ++ pending (tpc (rs_thr s t))).
Proof. exact ring_linearizable_lemma. Qed.
Print Assumptions C16_ring_linearizable.

(** the log respects real time: between any two moments s1, s2 of an execution the log and every thread's list of
    returned answers only grow, and thread t's part of the growth consists of the calls of t that returned or were
    linearized after s1 - a call that has returned by s1 precedes everything linearized later *)
Theorem C16_ring_real_time_order : forall (A : Type) (size : nat) (progs : nat -> list (rop A)) sched1 sched2,
  2 <= size ->
  let s1 := rs_run sched1 (rs_init size progs) in
  let s2 := rs_run sched2 s1 in
  exists ext, rs_lin s2 = rs_lin s1 ++ ext /\
    forall t, exists hext, thist (rs_thr s2 t) = thist (rs_thr s1 t) ++ hext /\
      pending (tpc (rs_thr s1 t)) ++ proj t ext = succ_of hext ++ pending (tpc (rs_thr s2 t)).
Proof. exact ring_real_time_lemma. Qed.
Print Assumptions C16_ring_real_time_order.

(** no task lost, none duplicated, capacity respected, at every point of every schedule: the pushed values in
    linearization order are the popped values followed by the queue contents (equal as lists, hence as multisets:
    every popped value was pushed, each pushed value is popped at most once, popped ++ contents = pushed) *)
Theorem C16_ring_no_loss_no_dup : forall (A : Type) (size : nat) (progs : nat -> list (rop A)) (sched : list (nat * bool)),
  2 <= size ->
  let s := rs_run sched (rs_init size progs) in
  map Some (pushed_vals (rs_lin s)) = popped_vals (rs_lin s) ++ map Some (rs_q s) /\
  length (rs_q s) <= size /\
  length (rs_q s) = enq A (rs_mem s) - deq A (rs_mem s) /\
  deq A (rs_mem s) <= enq A (rs_mem s) <= deq A (rs_mem s) + size.
Proof. exact ring_conservation_lemma. Qed.
Print Assumptions C16_ring_no_loss_no_dup.

(** a push that answers "full" (its history gains PushFull at its next own step after the sequence load, whatever
    the other threads do in between): when it loaded the sequence number the enqueue counter was still the position
    it had read, and the abstract queue held [size] elements or the cell was still owned by a pop between its CAS
    and its sequence store.  The second case is real (C16_ring_full_with_inflight_pop_example). *)
Theorem C16_ring_full_answer_justified : forall (A : Type) (size : nat) (progs : nat -> list (rop A)) sched t x pos b mid b',
  2 <= size ->
  let s := rs_run sched (rs_init size progs) in
  tpc (rs_thr s t) = PushLoadSeq x pos ->
  Forall (fun e => fst e <> t) mid ->
  let s' := rs_step t b' (rs_run mid (rs_step t b s)) in
  thist (rs_thr s' t) = thist (rs_thr s t) ++ [(RPush A x, PushFull A)] ->
  enq A (rs_mem s) = pos /\
  (length (rs_q s) = size \/ (size <= pos /\ exists t', ipop (tpc (rs_thr s t')) = Some (pos - size))).
Proof. exact ring_full_justified_lemma. Qed.
Print Assumptions C16_ring_full_answer_justified.

(** a pop that answers "empty": when it loaded the sequence number the dequeue counter was still the position it
    had read, and the abstract queue was empty or its oldest element belonged to a push between its CAS and its
    sequence store.  The second case is real and makes "empty" non-linearizable in the strict sense
    (C16_ring_empty_with_inflight_push_example); callers must treat it as "retry later", which Worker::threadFunc does. *)
Theorem C16_ring_empty_answer_justified : forall (A : Type) (size : nat) (progs : nat -> list (rop A)) sched t pos b mid b',
  2 <= size ->
  let s := rs_run sched (rs_init size progs) in
  tpc (rs_thr s t) = PopLoadSeq pos ->
  Forall (fun e => fst e <> t) mid ->
  let s' := rs_step t b' (rs_run mid (rs_step t b s)) in
  thist (rs_thr s' t) = thist (rs_thr s t) ++ [(RPop A, PopEmpty A)] ->
  deq A (rs_mem s) = pos /\
  (rs_q s = [] \/ exists t', ipush (tpc (rs_thr s t')) = Some pos).
Proof. exact ring_empty_justified_lemma. Qed.
Print Assumptions C16_ring_empty_answer_justified.

(** the model has the interleavings in question: two producers read the same position and sequence number, both
    reach the CAS, one wins, the other's CAS fails, reloads the sequence of the next cell and retries *)
Theorem C16_ring_cas_collision_example :
  view (rs_run ex_collide (rs_init 2 ex_progs)) =
  ([(0, None); (1, None)], 1, 0,
   [(PushWrite 10 0, []); (PushLoadSeq 20 1, []); (PcIdle, []); (PcIdle, [])],
   [(0, RPush nat 10, PushOk nat)], [10]).
Proof. exact ring_cas_collision_example. Qed.
Print Assumptions C16_ring_cas_collision_example.

Theorem C16_ring_empty_with_inflight_push_example :
  view (rs_run (ex_collide ++ plain [1; 1; 1; 1; 1]) (rs_init 2 ex_progs)) =
    ([(0, None); (2, Some 20)], 2, 0,
     [(PushWrite 10 0, []); (PcIdle, [(RPush nat 20, PushOk nat)]); (PcIdle, []); (PcIdle, [])],
     [(0, RPush nat 10, PushOk nat); (1, RPush nat 20, PushOk nat)], [10; 20]) /\
  view (rs_run (ex_collide ++ plain [1; 1; 1; 1; 1] ++ plain [2; 2; 2; 2]) (rs_init 2 ex_progs)) =
    ([(0, None); (2, Some 20)], 2, 0,
     [(PushWrite 10 0, []); (PcIdle, [(RPush nat 20, PushOk nat)]); (PcIdle, [(RPop nat, PopEmpty nat)]); (PcIdle, [])],
     [(0, RPush nat 10, PushOk nat); (1, RPush nat 20, PushOk nat)], [10; 20]).
Proof. exact ring_empty_with_inflight_push_example. Qed.
Print Assumptions C16_ring_empty_with_inflight_push_example.

Theorem C16_ring_full_with_inflight_pop_example :
  view (rs_run (plain [0; 0; 0; 0; 0; 0; 0; 0; 0; 0; 0; 0; 0; 0] ++ plain [2; 2; 2; 2; 2] ++ plain [3; 3; 3; 3])
               (rs_init 2 ex_progs2)) =
  ([(1, Some 10); (2, Some 20)], 2, 1,
   [(PcIdle, [(RPush nat 10, PushOk nat); (RPush nat 20, PushOk nat)]); (PcIdle, []); (PopMove 0 (Some 10), []);
    (PcIdle, [(RPush nat 30, PushFull nat)])],
   [(0, RPush nat 10, PushOk nat); (0, RPush nat 20, PushOk nat); (2, RPop nat, PopOk nat (Some 10))], [20]).
Proof. exact ring_full_with_inflight_pop_example. Qed.
Print Assumptions C16_ring_full_with_inflight_pop_example.

(** the ring never makes a thread spin on its own (obstruction freedom): from EVERY reachable state - whatever the
    other threads have left half-done - a thread that is inside a push or pop and then runs alone, without
    spurious CAS failures, returns from that call within 8 of its own steps (in particular the reload-and-retry
    branch dif > 0 cannot repeat without another thread moving a counter).  System-wide progress under contention
    (lock freedom) is not stated. *)
From VB Require Import Conc.RingSolo.
Theorem C16_ring_obstruction_free : forall (A : Type) (size : nat) (progs : nat -> list (rop A)) sched t,
  2 <= size ->
  let s := rs_run sched (rs_init size progs) in
  tpc (rs_thr s t) <> PcIdle ->
  exists n, n <= 8 /\ tpc (rs_thr (solo A n t s) t) = PcIdle /\
            exists e, thist (rs_thr (solo A n t s) t) = thist (rs_thr s t) ++ [e].
Proof. exact ring_obstruction_free_lemma. Qed.
Print Assumptions C16_ring_obstruction_free.

(** several callers sharing one validator (Conc/MultiDefs.v: tasks tagged by client, the pool abstracted to the bag of
    posted tasks, any interleaving of posting / execution / returns, any number of clients and payload lists):
    every client that has returned got the sequential verdict of ITS OWN payloads, and no client ever throws.
    The single-client theorems above remain the detailed model of the queues; here the point is independence. *)
From VB Require Import Conc.MultiDefs Conc.MultiProofs.
Theorem C16_multi_client_verdict : forall progs sched c r,
  nth_error (mresults (mrun false progs sched (minit progs))) c = Some r ->
  match r with MRunning => True | MRet v => client_spec progs c v | MThrown => False end.
Proof. exact multi_client_verdict_lemma. Qed.
Print Assumptions C16_multi_client_verdict.

(** documentation: if PopValidator::clear() (called on an invalid payload) restarted the pool instead of being a
    no-op, another client's queued checks die with the queues - its call throws although its PopData is valid *)
Theorem C16_clear_restarts_pool_refuted :
  let s := mrun true restart_witness_progs restart_witness_sched (minit restart_witness_progs) in
  mresults s = [MThrown; MRet (VInvalid 0)] /\
  seq_verdict (mk_tasks 0 0 [true; true]) false = VValid.
Proof. exact clear_restarts_pool_refuted_lemma. Qed.
Print Assumptions C16_clear_restarts_pool_refuted.
