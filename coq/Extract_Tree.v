Require Extraction.
Require Import ExtrOcamlBasic.
From Coq Require Import ZArith NArith List.
From VB Require Import Tree.TreeDefs.
Extraction "Tree_model.ml" Nat.pred N.succ Z.succ
  alt_init pow_init step_out step encode blocks tips tip applied bid bheight bst bwork tkind memN.
