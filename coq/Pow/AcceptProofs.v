(** acceptBlockHeader's verdict is COk exactly when every rule holds. *)
From Coq Require Import ZArith Lia Bool List.
From VB Require Import Arith.CompactDefs Pow.PowBase Pow.BtcDefs Pow.VbkDefs Pow.BestChainDefs Pow.AcceptDefs.
Import ListNotations.
Local Open Scope Z_scope.

Lemma insert_header_flag proof st id parent time bits pb :
  find_blk (t_blocks st) parent = Some pb ->
  snd (insert_header proof st id parent time bits) = k_valid pb.
Proof.
  intros H. unfold insert_header. rewrite H.
  destruct (find_blk (t_blocks st) id); destruct (k_valid pb); reflexivity.
Qed.

Lemma finish_accept_ok proof st hd c :
  snd (finish_accept proof st hd c) = COk <->
  c = COk /\ snd (insert_header proof st (h_id hd) (h_parent hd) (h_time hd) (h_bits hd)) = true.
Proof.
  unfold finish_accept.
  destruct c; cbn [snd]; try (split; [discriminate | intros [H _]; discriminate H]).
  destruct (insert_header proof st (h_id hd) (h_parent hd) (h_time hd) (h_bits hd)) as [st' ok].
  cbn [snd]. destruct ok; split; try tauto; try discriminate.
  intros [_ H]. discriminate H.
Qed.

Ltac bad := split; [discriminate | let Hx := fresh in intros Hx; cbv zeta in Hx;
  repeat match goal with H : _ /\ _ |- _ => destruct H | H : exists _, _ |- _ => destruct H end; congruence].

(** the declarative rules *)
Definition btc_rules (p : BtcParams) (st : tree) (hd : hdr) : Prop :=
  h_pow hd = true /\ btc_target_ok p (h_bits hd) = true /\
  exists pb, find_blk (t_blocks st) (h_parent hd) = Some pb /\ k_valid pb = true /\
    let chain := map to_bidx (chain_of (t_blocks st) (h_parent hd)) in
    btc_next_work p (k_height pb) chain (h_time hd) = Ok (h_bits hd) /\
    btc_check_time p chain (h_time hd) (h_now hd) = TimeOk.

Definition vbk_rules (coef : Z -> Z -> option Z) (p : VbkParams) (st : tree) (hd : hdr) : Prop :=
  h_pow hd = true /\ vbk_target_ok p (h_bits hd) = true /\
  exists pb, find_blk (t_blocks st) (h_parent hd) = Some pb /\ k_valid pb = true /\
    let chain := map to_bidx (chain_of (t_blocks st) (h_parent hd)) in
    vbk_check_time p chain (h_time hd) (h_now hd) = Ok TimeOk /\
    vbk_next_work coef p (k_height pb) chain = Ok (h_bits hd) /\
    vbk_validate_keystones p (k_height pb) chain (h_ks1 hd) (h_ks2 hd) = Ok true.

Lemma btc_precheck_ok p st hd :
  btc_precheck p st hd = COk <->
  h_pow hd = true /\ btc_target_ok p (h_bits hd) = true /\
  exists pb, find_blk (t_blocks st) (h_parent hd) = Some pb /\
    let chain := map to_bidx (chain_of (t_blocks st) (h_parent hd)) in
    btc_next_work p (k_height pb) chain (h_time hd) = Ok (h_bits hd) /\
    btc_check_time p chain (h_time hd) (h_now hd) = TimeOk.
Proof.
  unfold btc_precheck.
  destruct (btc_target_ok p (h_bits hd)); destruct (h_pow hd); cbn [andb negb];
    try bad.
  destruct (find_blk (t_blocks st) (h_parent hd)) as [pb|];
    [| bad].
  cbv zeta.
  destruct (btc_next_work p (k_height pb) _ (h_time hd)) as [w| | |] eqn:Ew; cbn [code_of_res];
    try bad.
  destruct (Z.eqb_spec (h_bits hd) w) as [E|E]; cbn [negb].
  - subst w.
    destruct (btc_check_time p _ (h_time hd) (h_now hd)) eqn:Et;
      try bad.
    split; [|reflexivity]. intros _. repeat split. exists pb. repeat split; assumption.
  - bad.
Qed.

Theorem btc_accept_iff_rules : forall p st hd,
  snd (btc_accept p st hd) = COk <-> btc_rules p st hd.
Proof.
  intros p st hd. unfold btc_accept, btc_rules. rewrite finish_accept_ok, btc_precheck_ok.
  split.
  - intros ((Hp & Ht & pb & Hf & Hr) & Hi). rewrite (insert_header_flag _ _ _ _ _ _ _ Hf) in Hi.
    repeat split; try assumption. exists pb. repeat split; try assumption; apply Hr.
  - intros (Hp & Ht & pb & Hf & Hv & Hr). split.
    + repeat split; try assumption. exists pb. split; assumption.
    + rewrite (insert_header_flag _ _ _ _ _ _ _ Hf). exact Hv.
Qed.

Lemma vbk_precheck_ok coef p st hd :
  vbk_precheck coef p st hd = COk <->
  h_pow hd = true /\ vbk_target_ok p (h_bits hd) = true /\
  exists pb, find_blk (t_blocks st) (h_parent hd) = Some pb /\
    let chain := map to_bidx (chain_of (t_blocks st) (h_parent hd)) in
    vbk_check_time p chain (h_time hd) (h_now hd) = Ok TimeOk /\
    vbk_next_work coef p (k_height pb) chain = Ok (h_bits hd) /\
    vbk_validate_keystones p (k_height pb) chain (h_ks1 hd) (h_ks2 hd) = Ok true.
Proof.
  unfold vbk_precheck.
  destruct (vbk_target_ok p (h_bits hd)); destruct (h_pow hd); cbn [andb negb];
    try bad.
  destruct (find_blk (t_blocks st) (h_parent hd)) as [pb|];
    [| bad].
  cbv zeta.
  destruct (vbk_check_time p _ (h_time hd) (h_now hd)) as [[| |]| | |] eqn:Et; cbn [code_of_res];
    try bad.
  destruct (vbk_next_work coef p (k_height pb) _) as [w| | |] eqn:Ew; cbn [code_of_res];
    try bad.
  destruct (Z.eqb_spec (h_bits hd) w) as [E|E]; cbn [negb].
  - subst w.
    destruct (vbk_validate_keystones p (k_height pb) _ (h_ks1 hd) (h_ks2 hd)) as [[|]| | |] eqn:Ek; cbn [code_of_res];
      try bad.
    split; [|reflexivity]. intros _. repeat split. exists pb. repeat split; assumption.
  - bad.
Qed.

Theorem vbk_accept_iff_rules : forall coef p st hd,
  snd (vbk_accept coef p st hd) = COk <-> vbk_rules coef p st hd.
Proof.
  intros coef p st hd. unfold vbk_accept, vbk_rules. rewrite finish_accept_ok, vbk_precheck_ok.
  split.
  - intros ((Hp & Ht & pb & Hf & Hr) & Hi). rewrite (insert_header_flag _ _ _ _ _ _ _ Hf) in Hi.
    repeat split; try assumption. exists pb. repeat split; try assumption; apply Hr.
  - intros (Hp & Ht & pb & Hf & Hv & Hr). split.
    + repeat split; try assumption. exists pb. split; assumption.
    + rewrite (insert_header_flag _ _ _ _ _ _ _ Hf). exact Hv.
Qed.

(** a rejected header changes nothing unless its parent is invalid (then it is stored as a failed child) *)
Lemma btc_reject_keeps_state : forall p st hd,
  snd (btc_accept p st hd) <> COk -> snd (btc_accept p st hd) <> CBadChain -> fst (btc_accept p st hd) = st.
Proof.
  intros p st hd. unfold btc_accept, finish_accept.
  destruct (btc_precheck p st hd); cbn [fst snd]; try reflexivity.
  destruct (insert_header btc_block_proof st (h_id hd) (h_parent hd) (h_time hd) (h_bits hd)) as [st' ok].
  destruct ok; cbn [fst snd]; congruence.
Qed.

Example btc_rules_satisfiable :
  let p := mkBtcParams (2 ^ 248 - 1) 16 2 false false 7200 in
  let st := genesis_tree btc_block_proof 1 1000 536936447 in
  btc_rules p st (mkHdr 2 1 1001 536936447 true 5000 0 0).
Proof.
  cbv zeta. unfold btc_rules. cbn [h_pow h_bits h_parent h_time h_now].
  split; [reflexivity|]. split; [vm_compute; reflexivity|].
  eexists. split; [vm_compute; reflexivity|]. split; [reflexivity|].
  split; vm_compute; reflexivity.
Qed.
