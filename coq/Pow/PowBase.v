(** Shared definitions of the PoW-chain models (C15): machine widths, outcome
    type, insertion sort, block-index records. Executable; no proofs here. *)
From Coq Require Import ZArith Bool List.
From VB Require Import Arith.CompactDefs.
Import ListNotations.
Local Open Scope Z_scope.

(** two's complement reinterpretation of the low 32 / 64 bits *)
Definition s32 (z : Z) : Z := let w := z mod 2 ^ 32 in if w <? 2 ^ 31 then w else w - 2 ^ 32.
Definition s64 (z : Z) : Z := let w := z mod 2 ^ 64 in if w <? 2 ^ 63 then w else w - 2 ^ 64.

(** outcome of a modelled C++ call: asserts, throws and undefined behaviour are
    explicit, never totalised away *)
Inductive res (A : Type) : Type :=
| Ok (a : A)
| Abort      (* VBK_ASSERT fails *)
| Throw      (* uint_error (division by zero in ArithUint256) *)
| Undef.     (* C++ undefined behaviour: integer division by zero, float->uint32 out of range *)
Arguments Ok {A} a.
Arguments Abort {A}.
Arguments Throw {A}.
Arguments Undef {A}.

(** target of a compact value as the retarget code reads it: flags ignored *)
Definition target_of (bits : Z) : Z := fst (fst (fromBits bits)).

(** insertion sort, ascending (std::sort on int64 values: any sort gives the same list) *)
Fixpoint insert (x : Z) (l : list Z) : list Z :=
  match l with
  | [] => [x]
  | y :: r => if x <=? y then x :: l else y :: insert x r
  end.
Fixpoint isort (l : list Z) : list Z :=
  match l with [] => [] | x :: r => insert x (isort r) end.

(** a block index as the contextual rules see it. The ancestor chain of a block
    is a list, the block itself first, its parent next, ... the root last. *)
Record bidx : Type := mkBidx {
  x_id : Z;       (* identity (stands for the hash; 0 is reserved for "all zero bytes") *)
  x_time : Z;     (* uint32 timestamp *)
  x_bits : Z      (* uint32 compact difficulty *)
}.

Definition zlen {A} (l : list A) : Z := Z.of_nat (length l).
Definition znth_error {A} (l : list A) (i : Z) : option A :=
  if i <? 0 then None else nth_error l (Z.to_nat i).
