(** BlockTree<BtcBlock,..>::acceptBlockHeader and BlockTree<VbkBlock,..>::
    acceptBlockHeader: checkBlock, known parent, contextuallyCheckBlock (order of
    the checks as coded: BTC difficulty then time; VBK time, difficulty,
    keystones), insertion. Executable; no proofs here. *)
From Coq Require Import ZArith Bool List.
From VB Require Import Arith.CompactDefs Pow.PowBase Pow.BtcDefs Pow.VbkDefs Pow.BestChainDefs.
Import ListNotations.
Local Open Scope Z_scope.

Inductive code : Type :=
| COk | CBadPow | CBadPrev | CBadBits | CTimeOld | CTimeNew | CBadKs | CBadChain
| CAbort | CThrow | CUndef.

Record hdr : Type := mkHdr {
  h_id : Z; h_parent : Z; h_time : Z; h_bits : Z;
  h_pow : bool;        (* external: hash <= target (BTC) / hash <= MAX / difficulty (VBK) *)
  h_now : Z;           (* currentTimestamp4() at the time of the call *)
  h_ks1 : Z; h_ks2 : Z (* VBK keystone fields as ids, 0 = zero bytes *)
}.

Definition code_of_res {A} (r : res A) : code :=
  match r with Ok _ => COk | Abort => CAbort | Throw => CThrow | Undef => CUndef end.

(** ---- BTC ---- *)
Definition btc_precheck (p : BtcParams) (st : tree) (hd : hdr) : code :=
  if negb (btc_target_ok p (h_bits hd) && h_pow hd) then CBadPow else
  match find_blk (t_blocks st) (h_parent hd) with
  | None => CBadPrev
  | Some pb =>
    let chain := map to_bidx (chain_of (t_blocks st) (h_parent hd)) in
    match btc_next_work p (k_height pb) chain (h_time hd) with
    | Ok w =>
      if negb (h_bits hd =? w) then CBadBits else
      match btc_check_time p chain (h_time hd) (h_now hd) with
      | TimeTooOld => CTimeOld | TimeTooNew => CTimeNew | TimeOk => COk
      end
    | r => code_of_res r
    end
  end.

Definition finish_accept (proof : Z -> Z) (st : tree) (hd : hdr) (c : code) : tree * code :=
  match c with
  | COk => let '(st', ok) := insert_header proof st (h_id hd) (h_parent hd) (h_time hd) (h_bits hd) in
           (st', if ok then COk else CBadChain)
  | _ => (st, c)
  end.

Definition btc_accept (p : BtcParams) (st : tree) (hd : hdr) : tree * code :=
  finish_accept btc_block_proof st hd (btc_precheck p st hd).

(** ---- VBK ---- *)
Section Vbk.
  Variable coef : Z -> Z -> option Z.

  Definition vbk_precheck (p : VbkParams) (st : tree) (hd : hdr) : code :=
    if negb (vbk_target_ok p (h_bits hd) && h_pow hd) then CBadPow else
    match find_blk (t_blocks st) (h_parent hd) with
    | None => CBadPrev
    | Some pb =>
      let chain := map to_bidx (chain_of (t_blocks st) (h_parent hd)) in
      match vbk_check_time p chain (h_time hd) (h_now hd) with
      | Ok TimeTooOld => CTimeOld
      | Ok TimeTooNew => CTimeNew
      | Ok TimeOk =>
        match vbk_next_work coef p (k_height pb) chain with
        | Ok w =>
          if negb (h_bits hd =? w) then CBadBits else
          match vbk_validate_keystones p (k_height pb) chain (h_ks1 hd) (h_ks2 hd) with
          | Ok true => COk
          | Ok false => CBadKs
          | r => code_of_res r
          end
        | r => code_of_res r
        end
      | r => code_of_res r
      end
    end.

  Definition vbk_accept (p : VbkParams) (st : tree) (hd : hdr) : tree * code :=
    finish_accept vbk_block_proof st hd (vbk_precheck p st hd).
End Vbk.

(** operation sequences *)
Inductive op : Type :=
| OpAccept (hd : hdr)
| OpInvalidate (b : Z) (order : list Z).

Definition run_op (accept : tree -> hdr -> tree * code) (st : tree) (o : op) : tree :=
  match o with
  | OpAccept hd => fst (accept st hd)
  | OpInvalidate b order => fst (invalidate_fork st b order)
  end.

Definition run (accept : tree -> hdr -> tree * code) (st : tree) (ops : list op) : tree :=
  fold_left (run_op accept) ops st.
