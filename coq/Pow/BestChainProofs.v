(** Proofs about the abstract PoW block tree (BestChainDefs / AcceptDefs):

    1. [pow_best_chain_*]: after ANY sequence of acceptBlockHeader /
       invalidateSubtree(off-chain block) operations the best tip is a valid
       block of maximal chain work, and every valid block inserted earlier than
       the tip has strictly less chain work (earliest-seen wins ties).
    2. [chainwork_sum_*]: for every stored block, chainWork equals (mod 2^256)
       the sum of getBlockProof over its ancestor chain. *)
From Coq Require Import ZArith Lia Bool List.
From VB Require Import Arith.CompactDefs Pow.PowBase Pow.BtcDefs Pow.VbkDefs
  Pow.BestChainDefs Pow.AcceptDefs.
Import ListNotations.
Local Open Scope Z_scope.

(** * 1. Best chain *)

(** blocks are newest-first, so [older] = inserted earlier than the tip *)
Definition best_tip_ok (st : tree) : Prop :=
  exists newer older,
    t_blocks st = newer ++ t_tip st :: older /\
    k_valid (t_tip st) = true /\
    (forall b, In b newer -> k_valid b = true -> k_work b <= k_work (t_tip st)) /\
    (forall b, In b older -> k_valid b = true -> k_work b < k_work (t_tip st)).

Lemma find_blk_In bs id b : find_blk bs id = Some b -> In b bs.
Proof.
  induction bs as [|x r IH]; cbn [find_blk]; intros H.
  - discriminate.
  - destruct (k_id x =? id).
    + injection H as ->. left; reflexivity.
    + right; auto.
Qed.

Lemma find_blk_None_id bs id b : find_blk bs id = None -> In b bs -> k_id b <> id.
Proof.
  induction bs as [|x r IH]; cbn [find_blk]; intros H Hin.
  - destruct Hin.
  - destruct (Z.eqb_spec (k_id x) id) as [E|E]; [discriminate|].
    destruct Hin as [->|Hin]; auto.
Qed.

Lemma best_tip_In st : best_tip_ok st -> In (t_tip st) (t_blocks st).
Proof.
  intros (nw & od & E & _). rewrite E. apply in_or_app. right. left. reflexivity.
Qed.

(** every valid stored block has at most the tip's work *)
Lemma best_tip_max st b :
  best_tip_ok st -> In b (t_blocks st) -> k_valid b = true -> k_work b <= k_work (t_tip st).
Proof.
  intros (nw & od & E & _ & Hn & Ho) Hin Hv. rewrite E in Hin.
  apply in_app_or in Hin. destruct Hin as [Hin|[<-|Hin]].
  - auto.
  - lia.
  - specialize (Ho b Hin Hv). lia.
Qed.

(** determineBestChain never switches to a candidate already in the tree *)
Lemma determine_existing st cand :
  best_tip_ok st -> In cand (t_blocks st) -> determine st cand = st.
Proof.
  intros Hok Hin. unfold determine.
  destruct (k_id (t_tip st) =? k_id cand); [reflexivity|].
  destruct (k_valid cand) eqn:Hv; cbn [negb]; [|reflexivity].
  destruct (Z.ltb_spec (k_work (t_tip st)) (k_work cand)) as [L|L]; [|reflexivity].
  pose proof (best_tip_max st cand Hok Hin Hv). lia.
Qed.

Lemma determine_blocks st cand : t_blocks (determine st cand) = t_blocks st.
Proof.
  unfold determine.
  destruct (k_id (t_tip st) =? k_id cand); [reflexivity|].
  destruct (negb (k_valid cand)); [reflexivity|].
  destruct (k_work (t_tip st) <? k_work cand); reflexivity.
Qed.

Lemma insert_header_ok proof st id parent time bits :
  best_tip_ok st -> best_tip_ok (fst (insert_header proof st id parent time bits)).
Proof.
  intros Hok. unfold insert_header.
  destruct (find_blk (t_blocks st) parent) as [pb|] eqn:Hp; [|exact Hok].
  destruct (find_blk (t_blocks st) id) as [ex|] eqn:Hid.
  - destruct (k_valid pb); cbn [fst]; [|exact Hok].
    rewrite determine_existing; auto. eapply find_blk_In; eauto.
  - set (nb := mkBlk id parent (k_height pb + 1) time bits
                     (u256 (proof bits + k_work pb)) (k_valid pb)).
    pose proof Hok as (nw & od & E & Hv & Hn & Ho).
    destruct (k_valid pb) eqn:Hpv; cbn [fst].
    + unfold determine. cbn [t_tip t_blocks].
      pose proof (find_blk_None_id _ _ _ Hid (best_tip_In st Hok)) as Hne.
      destruct (Z.eqb_spec (k_id (t_tip st)) (k_id nb)) as [Eid|_].
      { exfalso. apply Hne. exact Eid. }
      change (k_valid nb) with true. cbn [negb].
      destruct (Z.ltb_spec (k_work (t_tip st)) (k_work nb)) as [L|L].
      * exists [], (t_blocks st). cbn [t_blocks t_tip app]. repeat split.
        -- intros b [].
        -- intros b Hin Hbv. pose proof (best_tip_max st b Hok Hin Hbv). lia.
      * exists (nb :: nw), od. cbn [t_blocks t_tip]. repeat split.
        -- rewrite E. reflexivity.
        -- exact Hv.
        -- intros b [<-|Hin] Hbv; [lia|auto].
        -- exact Ho.
    + exists (nb :: nw), od. cbn [t_blocks t_tip]. repeat split.
      * rewrite E. reflexivity.
      * exact Hv.
      * intros b [<-|Hin] Hbv; [|auto]. unfold nb in Hbv. cbn [k_valid] in Hbv. discriminate.
      * exact Ho.
Qed.

Lemma fold_determine_existing order st :
  best_tip_ok st ->
  fold_left (fun s id => match find_blk (t_blocks s) id with
                         | Some c => determine s c | None => s end) order st = st.
Proof.
  intros Hok. induction order as [|i r IH]; cbn [fold_left]; [reflexivity|].
  destruct (find_blk (t_blocks st) i) as [c|] eqn:Hc; [|exact IH].
  rewrite determine_existing; auto. eapply find_blk_In; eauto.
Qed.

Lemma invalidate_fork_ok st b order :
  best_tip_ok st -> best_tip_ok (fst (invalidate_fork st b order)).
Proof.
  intros Hok. unfold invalidate_fork.
  destruct (find_blk (t_blocks st) b) as [fb|]; [|exact Hok].
  destruct (in_subtree (t_blocks st) b (t_tip st)) eqn:Htip; [exact Hok|].
  cbn [fst].
  set (f := fun x => if in_subtree (t_blocks st) b x then set_invalid x else x).
  assert (Hf : forall x, k_valid (f x) = true -> k_valid x = true /\ k_work (f x) = k_work x).
  { intros x. unfold f. destruct (in_subtree (t_blocks st) b x); cbn [set_invalid k_valid].
    - discriminate.
    - auto. }
  assert (Hok' : best_tip_ok (mkTree (map f (t_blocks st)) (t_tip st))).
  { destruct Hok as (nw & od & E & Hv & Hn & Ho).
    exists (map f nw), (map f od). cbn [t_blocks t_tip]. repeat split.
    - rewrite E at 1. rewrite map_app. cbn [map]. unfold f at 2. rewrite Htip. reflexivity.
    - exact Hv.
    - intros y Hin Hyv. apply in_map_iff in Hin. destruct Hin as (x & <- & Hin).
      destruct (Hf x Hyv) as [Hxv ->]. auto.
    - intros y Hin Hyv. apply in_map_iff in Hin. destruct Hin as (x & <- & Hin).
      destruct (Hf x Hyv) as [Hxv ->]. auto. }
  rewrite fold_determine_existing; exact Hok'.
Qed.

Lemma genesis_ok proof id time bits : best_tip_ok (genesis_tree proof id time bits).
Proof.
  unfold genesis_tree. exists [], []. cbn [t_blocks t_tip app k_valid]. repeat split.
  - intros b [].
  - intros b [].
Qed.

Definition accept_inserts (proof : Z -> Z) (accept : tree -> hdr -> tree * code) : Prop :=
  forall st hd,
    fst (accept st hd) = st \/
    fst (accept st hd) =
      fst (insert_header proof st (h_id hd) (h_parent hd) (h_time hd) (h_bits hd)).

Theorem pow_best_chain_gen :
  forall (accept : tree -> hdr -> tree * code) (proof : Z -> Z),
    (forall st hd,
        fst (accept st hd) = st \/
        fst (accept st hd) =
          fst (insert_header proof st (h_id hd) (h_parent hd) (h_time hd) (h_bits hd))) ->
    forall ops st, best_tip_ok st -> best_tip_ok (run accept st ops).
Proof.
  intros accept proof Hacc ops. unfold run.
  induction ops as [|o r IH]; intros st Hok; cbn [fold_left]; [exact Hok|].
  apply IH. destruct o as [hd|b order]; cbn [run_op].
  - destruct (Hacc st hd) as [->| ->]; [exact Hok|]. apply insert_header_ok; exact Hok.
  - apply invalidate_fork_ok; exact Hok.
Qed.

Lemma finish_accept_inserts proof st hd c :
  fst (finish_accept proof st hd c) = st \/
  fst (finish_accept proof st hd c) =
    fst (insert_header proof st (h_id hd) (h_parent hd) (h_time hd) (h_bits hd)).
Proof.
  unfold finish_accept. destruct c; try (left; reflexivity).
  right. destruct (insert_header proof st (h_id hd) (h_parent hd) (h_time hd) (h_bits hd)).
  reflexivity.
Qed.

Lemma btc_accept_inserts p : accept_inserts btc_block_proof (btc_accept p).
Proof. intros st hd. unfold btc_accept. apply finish_accept_inserts. Qed.

Lemma vbk_accept_inserts coef p : accept_inserts vbk_block_proof (vbk_accept coef p).
Proof. intros st hd. unfold vbk_accept. apply finish_accept_inserts. Qed.

Theorem pow_best_chain_btc : forall p ops gid gtime gbits,
  best_tip_ok (run (btc_accept p) (genesis_tree btc_block_proof gid gtime gbits) ops).
Proof.
  intros. apply (pow_best_chain_gen _ btc_block_proof (btc_accept_inserts p)).
  apply genesis_ok.
Qed.

Theorem pow_best_chain_vbk : forall coef p ops gid gtime gbits,
  best_tip_ok (run (vbk_accept coef p) (genesis_tree vbk_block_proof gid gtime gbits) ops).
Proof.
  intros. apply (pow_best_chain_gen _ vbk_block_proof (vbk_accept_inserts coef p)).
  apply genesis_ok.
Qed.

(** * 2. Chain-work accumulation *)

(** sum of the block proofs over a list of blocks *)
Definition wsum (proof : Z -> Z) (l : list blk) : Z :=
  fold_right (fun x acc => proof (k_bits x) + acc) 0 l.

(** every stored block's chainWork is the (mod 2^256) sum of the block proofs
    over its ancestor chain, the chain being looked up among the blocks inserted
    before it (the suffix of the newest-first list) *)
Definition work_sum_ok (proof : Z -> Z) (st : tree) : Prop :=
  forall pre b post, t_blocks st = pre ++ b :: post ->
    k_work b = u256 (wsum proof (b :: chain_of post (k_parent b))).

Lemma u256_add_idemp_r a b : u256 (a + u256 b) = u256 (a + b).
Proof. unfold u256. apply Zplus_mod_idemp_r. Qed.

Lemma two256_pos : 0 < two256.
Proof. reflexivity. Qed.

Lemma u256_small z : 0 <= z < two256 -> u256 z = z.
Proof. intros H. unfold u256. apply Z.mod_small; exact H. Qed.

(** [find_blk] returns the first occurrence, which is where [chain_of] starts *)
Lemma find_blk_chain bs id pb :
  find_blk bs id = Some pb ->
  exists pre post, bs = pre ++ pb :: post /\
                   chain_of bs id = pb :: chain_of post (k_parent pb).
Proof.
  induction bs as [|x r IH]; cbn [find_blk chain_of]; intros H; [discriminate|].
  destruct (k_id x =? id).
  - injection H as ->. exists [], r. split; reflexivity.
  - destruct (IH H) as (pre & post & -> & E).
    exists (x :: pre), post. split; [reflexivity|exact E].
Qed.

Lemma chain_of_map (f : blk -> blk) bs :
  (forall x, k_id (f x) = k_id x) -> (forall x, k_parent (f x) = k_parent x) ->
  forall id, chain_of (map f bs) id = map f (chain_of bs id).
Proof.
  intros Hi Hp. induction bs as [|x r IH]; intros id; cbn [map chain_of]; [reflexivity|].
  rewrite Hi, Hp. destruct (k_id x =? id); cbn [map]; rewrite IH; reflexivity.
Qed.

Lemma wsum_map proof (f : blk -> blk) l :
  (forall x, k_bits (f x) = k_bits x) -> wsum proof (map f l) = wsum proof l.
Proof.
  intros Hb. induction l as [|x r IH]; cbn [map wsum fold_right]; [reflexivity|].
  fold (wsum proof (map f r)). fold (wsum proof r). rewrite Hb, IH. reflexivity.
Qed.

Lemma work_sum_blocks proof st st' :
  t_blocks st' = t_blocks st -> work_sum_ok proof st -> work_sum_ok proof st'.
Proof. intros E H pre b post Hs. apply (H pre b post). rewrite <- E. exact Hs. Qed.

Lemma insert_header_sum proof st id parent time bits :
  work_sum_ok proof st ->
  work_sum_ok proof (fst (insert_header proof st id parent time bits)).
Proof.
  intros Hok. unfold insert_header.
  destruct (find_blk (t_blocks st) parent) as [pb|] eqn:Hp; [|exact Hok].
  destruct (find_blk (t_blocks st) id) as [ex|] eqn:Hid.
  - destruct (k_valid pb); cbn [fst]; [|exact Hok].
    eapply work_sum_blocks; [apply determine_blocks|exact Hok].
  - set (nb := mkBlk id parent (k_height pb + 1) time bits
                     (u256 (proof bits + k_work pb)) (k_valid pb)).
    assert (Hst' : work_sum_ok proof (mkTree (nb :: t_blocks st) (t_tip st))).
    { intros pre b post Hs. cbn [t_blocks] in Hs.
      destruct pre as [|x pre']; cbn [app] in Hs.
      - injection Hs as <- <-. cbn [k_work k_parent nb].
        destruct (find_blk_chain _ _ _ Hp) as (pre1 & post1 & E1 & Ec).
        rewrite Ec. rewrite (Hok pre1 pb post1 E1).
        rewrite u256_add_idemp_r. reflexivity.
      - injection Hs as _ Hs. apply (Hok pre' b post Hs). }
    destruct (k_valid pb); cbn [fst]; [|exact Hst'].
    eapply work_sum_blocks; [apply determine_blocks|exact Hst'].
Qed.

Lemma fold_determine_blocks order st :
  t_blocks (fold_left (fun s id => match find_blk (t_blocks s) id with
                                   | Some c => determine s c | None => s end) order st)
  = t_blocks st.
Proof.
  revert st. induction order as [|i r IH]; intros st; cbn [fold_left]; [reflexivity|].
  rewrite IH. destruct (find_blk (t_blocks st) i); [apply determine_blocks|reflexivity].
Qed.

Lemma invalidate_fork_sum proof st b order :
  work_sum_ok proof st -> work_sum_ok proof (fst (invalidate_fork st b order)).
Proof.
  intros Hok. unfold invalidate_fork.
  destruct (find_blk (t_blocks st) b) as [fb|]; [|exact Hok].
  destruct (in_subtree (t_blocks st) b (t_tip st)); [exact Hok|].
  cbn [fst].
  set (f := fun x => if in_subtree (t_blocks st) b x then set_invalid x else x).
  assert (Hf : forall x, k_id (f x) = k_id x /\ k_parent (f x) = k_parent x /\
                         k_bits (f x) = k_bits x /\ k_work (f x) = k_work x).
  { intros x. unfold f. destruct (in_subtree (t_blocks st) b x); cbn; auto. }
  eapply work_sum_blocks; [apply fold_determine_blocks|].
  intros pre y post Hs. cbn [t_blocks] in Hs.
  apply map_eq_app in Hs. destruct Hs as (pre0 & l2 & E & _ & Hs).
  apply map_eq_cons in Hs. destruct Hs as (y0 & post0 & -> & <- & <-).
  destruct (Hf y0) as (_ & Hpar & Hbits & Hwork).
  rewrite Hwork, Hpar.
  rewrite chain_of_map by (intros x; apply (Hf x)).
  change (f y0 :: map f (chain_of post0 (k_parent y0)))
    with (map f (y0 :: chain_of post0 (k_parent y0))).
  rewrite wsum_map by (intros x; apply (Hf x)).
  apply (Hok pre0 y0 post0 E).
Qed.

Lemma genesis_sum proof id time bits :
  (forall z, 0 <= proof z < two256) ->
  work_sum_ok proof (genesis_tree proof id time bits).
Proof.
  intros Hr pre b post Hs. unfold genesis_tree in Hs. cbn [t_blocks] in Hs.
  destruct pre as [|x pre']; cbn [app] in Hs.
  - injection Hs as <- <-. cbn [k_work k_parent k_bits chain_of wsum fold_right].
    rewrite Z.add_0_r. symmetry. apply u256_small. apply Hr.
  - injection Hs as _ Hs. destruct pre'; discriminate.
Qed.

Theorem chainwork_sum_gen :
  forall (accept : tree -> hdr -> tree * code) (proof : Z -> Z),
    (forall st hd,
        fst (accept st hd) = st \/
        fst (accept st hd) =
          fst (insert_header proof st (h_id hd) (h_parent hd) (h_time hd) (h_bits hd))) ->
    forall ops st, work_sum_ok proof st -> work_sum_ok proof (run accept st ops).
Proof.
  intros accept proof Hacc ops. unfold run.
  induction ops as [|o r IH]; intros st Hok; cbn [fold_left]; [exact Hok|].
  apply IH. destruct o as [hd|b order]; cbn [run_op].
  - destruct (Hacc st hd) as [->| ->]; [exact Hok|]. apply insert_header_sum; exact Hok.
  - apply invalidate_fork_sum; exact Hok.
Qed.

(** range of the two getBlockProof functions *)
Lemma fromBits_target_range c : 0 <= fst (fst (fromBits c)) < two256.
Proof.
  unfold fromBits. cbn [fst].
  change 8388607 with (Z.ones 23). rewrite Z.land_ones by lia.
  pose proof (Z.mod_pos_bound c (2 ^ 23) ltac:(reflexivity)) as Hm.
  destruct (Z.leb_spec (Z.shiftr c 24) 3) as [L|L].
  - rewrite Z.shiftr_div_pow2 by lia.
    assert (0 < 2 ^ (8 * (3 - Z.shiftr c 24))) as Hp by (apply Z.pow_pos_nonneg; lia).
    split.
    + apply Z.div_pos; lia.
    + apply Z.le_lt_trans with (c mod 2 ^ 23).
      * apply Z.div_le_upper_bound; [lia|]. nia.
      * apply Z.lt_trans with (2 ^ 23); [lia|reflexivity].
  - unfold u256. apply Z.mod_pos_bound. exact two256_pos.
Qed.

Lemma btc_block_proof_range z : 0 <= btc_block_proof z < two256.
Proof.
  unfold btc_block_proof. destruct (fromBits z) as [[t n] o].
  destruct (n || o || (t =? 0)).
  - split; [lia|exact two256_pos].
  - unfold u256. apply Z.mod_pos_bound. exact two256_pos.
Qed.

Lemma vbk_block_proof_range z : 0 <= vbk_block_proof z < two256.
Proof.
  unfold vbk_block_proof. pose proof (fromBits_target_range z) as H.
  destruct (fromBits z) as [[t n] o]. cbn [fst] in H.
  destruct (n || o || (t =? 0)).
  - split; [lia|exact two256_pos].
  - exact H.
Qed.

Theorem chainwork_sum_btc : forall p ops gid gtime gbits,
  work_sum_ok btc_block_proof
    (run (btc_accept p) (genesis_tree btc_block_proof gid gtime gbits) ops).
Proof.
  intros. apply (chainwork_sum_gen _ btc_block_proof (btc_accept_inserts p)).
  apply genesis_sum. exact btc_block_proof_range.
Qed.

Theorem chainwork_sum_vbk : forall coef p ops gid gtime gbits,
  work_sum_ok vbk_block_proof
    (run (vbk_accept coef p) (genesis_tree vbk_block_proof gid gtime gbits) ops).
Proof.
  intros. apply (chainwork_sum_gen _ vbk_block_proof (vbk_accept_inserts coef p)).
  apply genesis_sum. exact vbk_block_proof_range.
Qed.

(** the best tip's chain work is the sum over (one of) its ancestor chains *)
Corollary tip_work_sum proof st :
  best_tip_ok st -> work_sum_ok proof st ->
  exists older, k_work (t_tip st) =
                u256 (wsum proof (t_tip st :: chain_of older (k_parent (t_tip st)))).
Proof.
  intros (nw & od & E & _) Hs. exists od. apply (Hs nw (t_tip st) od E).
Qed.

(** * Non-vacuity: a reachable state with a fork, a tie and an invalidation *)

Definition demo_proof (bits : Z) : Z := bits.
Definition demo_accept (st : tree) (hd : hdr) : tree * code :=
  finish_accept demo_proof st hd COk.
Definition demo_hdr (id parent bits : Z) : hdr := mkHdr id parent 0 bits true 0 0 0.

Lemma demo_accept_inserts : accept_inserts demo_proof demo_accept.
Proof. intros st hd. unfold demo_accept. apply finish_accept_inserts. Qed.

(** genesis 1 (work 5); 2 on 1 (work 8); 3 on 1 (work 8, a tie: tip stays 2);
    4 on 3 (work 9: tip switches); invalidating 2 (off-chain) keeps the tip *)
Example demo_run :
  let st := run demo_accept (genesis_tree demo_proof 1 0 5)
                [OpAccept (demo_hdr 2 1 3); OpAccept (demo_hdr 3 1 3);
                 OpAccept (demo_hdr 4 3 1); OpInvalidate 2 [2; 4]] in
  (k_id (t_tip st), k_work (t_tip st),
   map (fun b => (k_id b, k_work b, k_valid b)) (t_blocks st))
  = (4, 9, [(4, 9, true); (3, 8, true); (2, 8, false); (1, 5, true)]).
Proof. vm_compute. reflexivity. Qed.

Example demo_tie :
  k_id (t_tip (run demo_accept (genesis_tree demo_proof 1 0 5)
                   [OpAccept (demo_hdr 2 1 3); OpAccept (demo_hdr 3 1 3)])) = 2.
Proof. vm_compute. reflexivity. Qed.
