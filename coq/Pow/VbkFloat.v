(** The [double] step of VBK getNextWorkRequired with Coq primitive floats
    (IEEE-754 binary64, round to nearest even - what x86-64 SSE2 does):
      double coef2 = (double)K / t;  coef2 += 0.000000005;
      (uint32_t)(coef2 * 100000000)
    Evaluates under vm_compute; NOT extracted (run in Coq from generated cases). *)
From Coq Require Import ZArith Bool Floats Uint63.
From VB Require Import Arith.CompactDefs Pow.PowBase Pow.VbkDefs.
Local Open Scope Z_scope.

(** (double) of an int32/uint32 value: exact *)
Definition f_of_Z (z : Z) : float :=
  if z <? 0 then PrimFloat.opp (PrimFloat.of_uint63 (Uint63.of_Z (- z)))
  else PrimFloat.of_uint63 (Uint63.of_Z z).

(** truncation toward zero of a finite double; None for inf/NaN *)
Definition trunc_to_Z (x : float) : option Z :=
  match Prim2SF x with
  | S754_zero _ => Some 0
  | S754_finite s m e =>
    let v := if 0 <=? e then Zpos m * 2 ^ e else Zpos m / 2 ^ (- e) in
    Some (if s then - v else v)
  | _ => None
  end.

(** 0.000000005 and 100000000 as the nearest doubles (hex literals are exact) *)
Definition c_half_up : float := 0x1.5798ee2308c3ap-28%float.
Definition c_1e8 : float := 0x1.7d784p+26%float.

Definition vbk_coef (K t : Z) : option Z :=
  if t =? 0 then None else                       (* K / 0 = inf or NaN: the conversion is undefined *)
  let c := PrimFloat.add (PrimFloat.div (f_of_Z K) (f_of_Z t)) c_half_up in
  match trunc_to_Z (PrimFloat.mul c c_1e8) with
  | Some v => if (0 <=? v) && (v <? 2 ^ 32) then Some v else None
  | None => None
  end.

(** the complete model of getNextWorkRequired<VbkBlock> *)
Definition vbk_next_work_f := vbk_next_work vbk_coef.
Definition vbk_next_work_v0_f := vbk_next_work_v0 vbk_coef.
