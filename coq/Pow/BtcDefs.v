(** BTC contextual rules AS CODED in src/pop/blockchain/btc_blockchain_util.cpp
    (getNextWorkRequired, calculateNextWorkRequired, getMedianTimePast,
    checkBlockTime, getBlockProof) and checkProofOfWork's target test
    (src/pop/stateless_validation.cpp). Executable model; no proofs here. *)
From Coq Require Import ZArith Bool List.
From VB Require Import Arith.CompactDefs Pow.PowBase Gen.ChainParams.
Import ListNotations.
Local Open Scope Z_scope.

Record BtcParams : Type := mkBtcParams {
  bp_pow_limit : Z;      (* ArithUint256(getPowLimit()) *)
  bp_timespan : Z;       (* uint32 getPowTargetTimespan *)
  bp_spacing : Z;        (* uint32 getPowTargetSpacing *)
  bp_allow_min : bool;   (* getAllowMinDifficultyBlocks *)
  bp_no_retarget : bool; (* getPowNoRetargeting *)
  bp_max_future : Z      (* uint32 maxFutureBlockTime *)
}.

Definition btc_main := mkBtcParams btc_main_pow_limit btc_main_timespan btc_main_spacing btc_main_allow_min btc_main_no_retarget btc_main_max_future.
Definition btc_test := mkBtcParams btc_test_pow_limit btc_test_timespan btc_test_spacing btc_test_allow_min btc_test_no_retarget btc_test_max_future.
Definition btc_regtest := mkBtcParams btc_regtest_pow_limit btc_regtest_timespan btc_regtest_spacing btc_regtest_allow_min btc_regtest_no_retarget btc_regtest_max_future.

(** getDifficultyAdjustmentInterval: uint32 / uint32 *)
Definition bp_interval (p : BtcParams) : Z := bp_timespan p / bp_spacing p.

(** calculateNextWorkRequired as coded now: int64 timespan, clamps, U256
    multiply by (uint32_t)timespan, U256 divide, cap at the pow limit *)
Definition btc_calc (p : BtcParams) (tipTime tipBits firstTime : Z) : res Z :=
  if bp_no_retarget p then Ok tipBits else
  let T := bp_timespan p in
  let ts0 := s64 (tipTime - firstTime) in
  let lo := T / 4 in
  let ts1 := if ts0 <? s64 lo then lo else ts0 in
  let hi := s64 (T * 4) in
  let ts2 := if ts1 >? hi then hi else ts1 in
  let bn1 := u256 (target_of tipBits * u32 ts2) in
  if T =? 0 then Throw else
  let bn2 := bn1 / T in
  let bn3 := if bn2 >? bp_pow_limit p then bp_pow_limit p else bn2 in
  Ok (toBits bn3 false).

(** the version before commit 3c3e1521 (defect F7): uint32_t timespan *)
Definition btc_calc_v0 (p : BtcParams) (tipTime tipBits firstTime : Z) : res Z :=
  if bp_no_retarget p then Ok tipBits else
  let T := bp_timespan p in
  let ts0 := u32 (tipTime - firstTime) in
  let ts1 := if ts0 <? T / 4 then T / 4 else ts0 in
  let ts2 := if ts1 >? u32 (T * 4) then u32 (T * 4) else ts1 in
  let bn1 := u256 (target_of tipBits * ts2) in
  if T =? 0 then Throw else
  let bn2 := bn1 / T in
  let bn3 := if bn2 >? bp_pow_limit p then bp_pow_limit p else bn2 in
  Ok (toBits bn3 false).

(** the testnet walk-back loop: [chain] starts at pindex (height [h]) *)
Fixpoint btc_walk_back (I lim h : Z) (chain : list bidx) : Z :=
  match chain with
  | [] => 0
  | b :: rest =>
    match rest with
    | [] => x_bits b                                     (* pprev == nullptr *)
    | _ :: _ =>
      if negb (u32 h mod I =? 0) && (x_bits b =? lim)
      then btc_walk_back I lim (h - 1) rest
      else x_bits b
    end
  end.

(** getNextWorkRequired(prevBlock, block, params): [chain] is the ancestor
    chain of prevBlock (prevBlock first), [h] = prevBlock.getHeight(),
    [btime] = block.getTimestamp(). [calc] is the retarget formula. *)
Definition btc_next_work_with (calc : BtcParams -> Z -> Z -> Z -> res Z)
           (p : BtcParams) (h : Z) (chain : list bidx) (btime : Z) : res Z :=
  match chain with
  | [] => Abort
  | prev :: _ =>
    if bp_spacing p =? 0 then Undef else
    let I := bp_interval p in
    if I =? 0 then Undef else
    let lim := toBits (bp_pow_limit p) false in
    if negb (u32 (h + 1) mod I =? 0) then
      if bp_allow_min p then
        if btime >? u32 (x_time prev + u32 (bp_spacing p * 2)) then Ok lim
        else Ok (btc_walk_back I lim h chain)
      else Ok (x_bits prev)
    else
      (* nHeightFirst = h - (I - 1); getAncestor walks pprev *)
      match znth_error chain (I - 1) with
      | None => Abort                                     (* VBK_ASSERT_MSG(pindexFirst) *)
      | Some first => calc p (x_time prev) (x_bits prev) (x_time first)
      end
  end.
Definition btc_next_work := btc_next_work_with btc_calc.
Definition btc_next_work_v0 := btc_next_work_with btc_calc_v0.

(** getMedianTimePast: up to medianTimeSpan timestamps from prev backwards,
    sorted, element (count / 2) *)
Definition btc_mtp (chain : list bidx) : Z :=
  let ts := map x_time (firstn (Z.to_nat btc_median_time_span) chain) in
  nth (Nat.div (length ts) 2) (isort ts) 0.

Inductive time_verdict : Type := TimeOk | TimeTooOld | TimeTooNew.

(** checkBlockTime: int64 comparisons; [now] = currentTimestamp4() (uint32),
    now + maxFutureBlockTime is uint32 + uint32 = uint32 (wraps) *)
Definition btc_check_time (p : BtcParams) (chain : list bidx) (btime now : Z) : time_verdict :=
  if btime <? btc_mtp chain then TimeTooOld
  else if btime >? u32 (now + bp_max_future p) then TimeTooNew
  else TimeOk.

(** getBlockProof<BtcBlock>: (~t / (t + 1)) + 1 in 256 bits, 0 for a bad target *)
Definition btc_block_proof (bits : Z) : Z :=
  let '(t, neg, ovf) := fromBits bits in
  if neg || ovf || (t =? 0) then 0
  else u256 ((two256 - 1 - t) / u256 (t + 1) + 1).

(** the target part of checkProofOfWork(BtcBlock): the compact value decodes to
    a positive target not above the pow limit (the hash comparison is external) *)
Definition btc_target_ok (p : BtcParams) (bits : Z) : bool :=
  let '(t, neg, ovf) := fromBits bits in
  negb (neg || ovf || (t =? 0) || (t >? bp_pow_limit p)).
