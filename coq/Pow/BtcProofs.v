(** The coded BTC retarget rules (BtcDefs) equal Bitcoin's rules (BtcSpec)
    wherever no machine width wraps; the pre-fix uint32 timespan does not. *)
From Coq Require Import ZArith Lia Bool List.
From VB Require Import Arith.CompactDefs Gen.ChainParams Pow.PowBase Pow.BtcDefs Pow.BtcSpec.
Import ListNotations.
Local Open Scope Z_scope.
Ltac Zify.zify_post_hook ::= Z.div_mod_to_equations.

(** closed comparisons on Z / closed (in)equalities, by computation *)
Ltac zclosed :=
  vm_compute;
  first [ reflexivity
        | let H := fresh in intro H; discriminate H
        | split; [ first [reflexivity | let H := fresh in intro H; discriminate H]
                 | first [reflexivity | let H := fresh in intro H; discriminate H] ] ].

(** * machine widths are the identity on small values *)

Lemma s64_small z : - 2 ^ 63 <= z < 2 ^ 63 -> s64 z = z.
Proof.
  intros H. unfold s64. cbv zeta.
  destruct (Z.ltb_spec (z mod 2 ^ 64) (2 ^ 63)); lia.
Qed.

Lemma u32_small z : 0 <= z < 2 ^ 32 -> u32 z = z.
Proof. intros H. unfold u32, two32. apply Z.mod_small, H. Qed.

Lemma u256_small z : 0 <= z < 2 ^ 256 -> u256 z = z.
Proof. intros H. unfold u256, two256. apply Z.mod_small, H. Qed.

Lemma gt_cap a b : (if a >? b then b else a) = Z.min b a.
Proof. rewrite Z.gtb_ltb. destruct (Z.ltb_spec b a); lia. Qed.

(** * calculateNextWorkRequired *)

Theorem btc_calc_spec : forall p tipTime tipBits firstTime,
  btc_params_ok p -> bp_no_retarget p = false ->
  0 <= tipTime < 2 ^ 32 -> 0 <= firstTime < 2 ^ 32 ->
  0 <= target_of tipBits <= bp_pow_limit p ->
  btc_calc p tipTime tipBits firstTime =
  Ok (toBits (spec_calc (bp_pow_limit p) (bp_timespan p) tipTime firstTime (target_of tipBits)) false).
Proof.
  intros p tipTime tipBits firstTime (Hsp & HspT & HT4 & Hlim0 & Hovf) Hnr Htip Hfirst Htgt.
  unfold btc_calc, spec_calc. rewrite Hnr. cbv zeta.
  set (T := bp_timespan p) in *. set (L := bp_pow_limit p) in *.
  set (tg := target_of tipBits) in *. set (d := tipTime - firstTime).
  assert (HT : 0 < T) by lia.
  rewrite (s64_small d), (s64_small (T / 4)), (s64_small (T * 4)) by (unfold d; lia).
  set (span := Z.min (T * 4) (Z.max (T / 4) d)).
  assert (Hts : (if (if d <? T / 4 then T / 4 else d) >? T * 4 then T * 4
                 else if d <? T / 4 then T / 4 else d) = span).
  { rewrite gt_cap. unfold span. destruct (Z.ltb_spec d (T / 4)); lia. }
  rewrite Hts. clear Hts.
  assert (Hspan : 0 <= span <= T * 4) by (unfold span; lia).
  rewrite (u32_small span) by lia.
  assert (Hmul : 0 <= tg * span <= L * (T * 4)).
  { split; [apply Z.mul_nonneg_nonneg; lia|apply Z.mul_le_mono_nonneg; lia]. }
  rewrite (u256_small (tg * span)) by lia.
  destruct (Z.eqb_spec T 0) as [H0|_]; [lia|].
  rewrite gt_cap. reflexivity.
Qed.

(** * the testnet walk-back loop *)

Lemma zlen_cons {A} (x : A) l : zlen (x :: l) = 1 + zlen l.
Proof. unfold zlen. cbn [length]. lia. Qed.

Lemma zlen_nonneg {A} (l : list A) : 0 <= zlen l.
Proof. unfold zlen. lia. Qed.

Lemma btc_walk_back_spec : forall I lim chain h,
  0 <= h - zlen chain + 1 -> h < 2 ^ 32 ->
  btc_walk_back I lim h chain = spec_last_non_min I lim h chain.
Proof.
  intros I lim chain. induction chain as [|b rest IH]; intros h Hroot Hh; [reflexivity|].
  cbn [btc_walk_back spec_last_non_min].
  destruct rest as [|c rest']; [reflexivity|].
  rewrite zlen_cons in Hroot. pose proof (zlen_nonneg rest') as Hn.
  rewrite (zlen_cons c rest') in Hroot.
  rewrite (u32_small h) by lia.
  rewrite IH by (try rewrite zlen_cons; lia).
  destruct (h mod I =? 0), (x_bits b =? lim); reflexivity.
Qed.

(** * getNextWorkRequired *)

Theorem btc_next_work_spec : forall p h chain btime,
  btc_params_ok p -> chain <> [] -> chain_times_ok chain ->
  0 <= h - zlen chain + 1 -> h + 1 < 2 ^ 31 -> 0 <= btime < 2 ^ 32 ->
  (forall b, In b chain -> 0 <= target_of (x_bits b) <= bp_pow_limit p) ->
  (match chain with prev :: _ => x_time prev + 2 * bp_spacing p < 2 ^ 32 | [] => True end) ->
  btc_next_work p h chain btime =
  match spec_next_bits p h chain btime with Some b => Ok b | None => Abort end.
Proof.
  intros p h chain btime Hok Hne Htimes Hroot Hh Hbt Htg Hwrap.
  destruct chain as [|prev rest]; [congruence|]. clear Hne.
  pose proof Hok as (Hsp & HspT & HT4 & Hlim0 & Hovf).
  unfold btc_next_work, btc_next_work_with, spec_next_bits, bp_interval.
  set (T := bp_timespan p) in *. set (S := bp_spacing p) in *.
  set (chain := prev :: rest) in *.
  assert (HI : 0 < T / S) by (apply Z.div_str_pos; lia).
  set (I := T / S) in *.
  assert (Hlen : 1 <= zlen chain).
  { unfold chain. rewrite zlen_cons. pose proof (zlen_nonneg rest). lia. }
  assert (Hprev : 0 <= x_time prev < 2 ^ 32).
  { unfold chain_times_ok in Htimes. rewrite Forall_forall in Htimes. apply Htimes. left. reflexivity. }
  destruct (Z.eqb_spec S 0) as [H0|_]; [lia|].
  destruct (Z.eqb_spec I 0) as [H0|_]; [lia|].
  cbv zeta.
  rewrite (u32_small (h + 1)) by lia.
  destruct ((h + 1) mod I =? 0); cbn [negb].
  - (* retarget height *)
    unfold znth_error. destruct (Z.ltb_spec (I - 1) 0) as [H|_]; [lia|].
    destruct (nth_error chain (Z.to_nat (I - 1))) as [first|] eqn:Hnth; [|reflexivity].
    destruct (bp_no_retarget p) eqn:Hnr.
    + unfold btc_calc. rewrite Hnr. reflexivity.
    + apply btc_calc_spec; try assumption.
      * unfold chain_times_ok in Htimes. rewrite Forall_forall in Htimes.
        apply Htimes. eapply nth_error_In, Hnth.
      * apply Htg. left. reflexivity.
  - (* ordinary height *)
    destruct (bp_allow_min p); [|reflexivity].
    rewrite (u32_small (S * 2)) by lia.
    rewrite (u32_small (x_time prev + S * 2)) by lia.
    rewrite Z.gtb_ltb. replace (S * 2) with (2 * S) by lia.
    destruct (x_time prev + 2 * S <? btime); [reflexivity|].
    rewrite btc_walk_back_spec by lia. reflexivity.
Qed.

(** * the generated mainnet / testnet constants satisfy the no-wrap bounds *)

Lemma btc_main_params_ok : btc_params_ok btc_main.
Proof.
  unfold btc_params_ok, btc_main.
  cbn [bp_spacing bp_timespan bp_pow_limit].
  split; [|split; [|split; [|split]]]; zclosed.
Qed.

Lemma btc_test_params_ok : btc_params_ok btc_test.
Proof.
  unfold btc_params_ok, btc_test.
  cbn [bp_spacing bp_timespan bp_pow_limit].
  split; [|split; [|split; [|split]]]; zclosed.
Qed.

(** the theorem at the real (mainnet) constants *)
Corollary btc_main_calc_spec : forall tipTime tipBits firstTime,
  0 <= tipTime < 2 ^ 32 -> 0 <= firstTime < 2 ^ 32 ->
  0 <= target_of tipBits <= btc_main_pow_limit ->
  btc_calc btc_main tipTime tipBits firstTime =
  Ok (toBits (spec_calc btc_main_pow_limit btc_main_timespan tipTime firstTime (target_of tipBits)) false).
Proof.
  intros. apply (btc_calc_spec btc_main); try assumption.
  - apply btc_main_params_ok.
  - reflexivity.
Qed.

(** * defect F7: the uint32 timespan of the old code is not Bitcoin's rule *)

Theorem btc_timespan_v0_refuted : exists p tipTime tipBits firstTime,
  btc_params_ok p /\ bp_no_retarget p = false /\
  0 <= tipTime < 2 ^ 32 /\ 0 <= firstTime < 2 ^ 32 /\
  0 <= target_of tipBits <= bp_pow_limit p /\
  btc_calc_v0 p tipTime tipBits firstTime <>
  Ok (toBits (spec_calc (bp_pow_limit p) (bp_timespan p) tipTime firstTime (target_of tipBits)) false).
Proof.
  exists btc_main, 1000, 469827583, 2000.
  split; [apply btc_main_params_ok|].
  split; [reflexivity|].
  split; [zclosed|]. split; [zclosed|]. split; [zclosed|].
  vm_compute. intro H. discriminate H.
Qed.

(** the fixed code agrees with the rule on the same input *)
Example btc_timespan_fixed_on_witness :
  btc_calc btc_main 1000 469827583 2000 =
  Ok (toBits (spec_calc (bp_pow_limit btc_main) (bp_timespan btc_main) 1000 2000 (target_of 469827583)) false).
Proof. vm_compute. reflexivity. Qed.

(** * the premises of [btc_next_work_spec] are satisfiable: a retarget on a
    small chain (timespan 16, spacing 2, interval 8, 8 blocks, heights 0..7) *)

Definition ex_params : BtcParams := mkBtcParams (2 ^ 248 - 1) 16 2 true false 7200.
Definition ex_bits : Z := 520159231. (* 0x1f00ffff *)
Definition ex_chain : list bidx :=
  [ mkBidx 8 1040 ex_bits; mkBidx 7 1030 ex_bits; mkBidx 6 1025 ex_bits; mkBidx 5 1020 ex_bits;
    mkBidx 4 1015 ex_bits; mkBidx 3 1010 ex_bits; mkBidx 2 1005 ex_bits; mkBidx 1 1000 ex_bits ].

Example btc_next_work_example :
  btc_next_work ex_params 7 ex_chain 1045 =
  match spec_next_bits ex_params 7 ex_chain 1045 with Some b => Ok b | None => Abort end
  /\ spec_next_bits ex_params 7 ex_chain 1045 = Some 520257533 (* 0x1f027ffd: target * 40 / 16 *).
Proof.
  split.
  - apply btc_next_work_spec.
    + unfold btc_params_ok, ex_params. cbn [bp_spacing bp_timespan bp_pow_limit].
      split; [|split; [|split; [|split]]]; zclosed.
    + discriminate.
    + unfold chain_times_ok, ex_chain. repeat (constructor; [cbn [x_time]; zclosed|]). constructor.
    + zclosed.
    + zclosed.
    + zclosed.
    + intros b Hb. unfold ex_chain in Hb. cbn [In] in Hb.
      repeat (destruct Hb as [<-|Hb]; [zclosed|]). destruct Hb.
    + unfold ex_chain. cbn [x_time]. zclosed.
  - vm_compute. reflexivity.
Qed.
