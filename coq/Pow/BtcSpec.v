(** Bitcoin's contextual rules (pow.cpp GetNextWorkRequired /
    CalculateNextWorkRequired, GetMedianTimePast) written over unbounded Z,
    independently of the C++ widths. No proofs here. *)
From Coq Require Import ZArith Bool List.
From VB Require Import Arith.CompactDefs Pow.PowBase Pow.BtcDefs.
Import ListNotations.
Local Open Scope Z_scope.

(** new target = old * clamp(actual timespan, T/4, 4T) / T, capped at the limit *)
Definition spec_calc (limit T tipTime firstTime oldTarget : Z) : Z :=
  let span := Z.min (T * 4) (Z.max (T / 4) (tipTime - firstTime)) in
  Z.min limit (oldTarget * span / T).

(** testnet rule: bits of the nearest block (from prev backwards) that is the
    root, sits on a retarget height, or does not carry the minimum difficulty *)
Fixpoint spec_last_non_min (I lim h : Z) (chain : list bidx) : Z :=
  match chain with
  | [] => 0
  | [b] => x_bits b
  | b :: rest => if (h mod I =? 0) || negb (x_bits b =? lim) then x_bits b
                 else spec_last_non_min I lim (h - 1) rest
  end.

(** [None]: the first block of the interval is not in memory (the code asserts) *)
Definition spec_next_bits (p : BtcParams) (h : Z) (chain : list bidx) (btime : Z) : option Z :=
  match chain with
  | [] => None
  | prev :: _ =>
    let I := bp_timespan p / bp_spacing p in
    let lim := toBits (bp_pow_limit p) false in
    if (h + 1) mod I =? 0 then
      match nth_error chain (Z.to_nat (I - 1)) with
      | None => None
      | Some first =>
        if bp_no_retarget p then Some (x_bits prev)
        else Some (toBits (spec_calc (bp_pow_limit p) (bp_timespan p) (x_time prev) (x_time first)
                                     (target_of (x_bits prev))) false)
      end
    else if bp_allow_min p then
      if x_time prev + 2 * bp_spacing p <? btime then Some lim
      else Some (spec_last_non_min I lim h chain)
    else Some (x_bits prev)
  end.

(** parameter / input bounds under which the coded arithmetic cannot wrap *)
Definition btc_params_ok (p : BtcParams) : Prop :=
  0 < bp_spacing p /\ bp_spacing p <= bp_timespan p /\ bp_timespan p * 4 < 2 ^ 32 /\
  0 <= bp_pow_limit p /\ bp_pow_limit p * (bp_timespan p * 4) < 2 ^ 256.

Definition chain_times_ok (chain : list bidx) : Prop :=
  Forall (fun b => 0 <= x_time b < 2 ^ 32) chain.

(** median: the value with at most k elements below it and more than k
    elements not above it (k = n/2: upper median; k = (n-1)/2: lower median) *)
Definition count_lt (m : Z) (l : list Z) : Z := zlen (filter (fun x => x <? m) l).
Definition count_le (m : Z) (l : list Z) : Z := zlen (filter (fun x => x <=? m) l).
Definition kth_smallest (k : Z) (l : list Z) (m : Z) : Prop :=
  In m l /\ count_lt m l <= k < count_le m l.
