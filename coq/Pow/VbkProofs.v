(** Proofs about the VBK rules of VbkDefs.v / VbkFloat.v. *)
From Coq Require Import ZArith Lia Bool List.
From VB Require Import Arith.CompactDefs Pow.PowBase Pow.BtcDefs Pow.VbkDefs Pow.VbkFloat.
Import ListNotations.
Local Open Scope Z_scope.
Ltac Zify.zify_post_hook ::= Z.div_mod_to_equations.

(** ---- getNextWorkRequired: a function of (params, ancestors); bounds ---- *)

(** the current code: the result does not depend on any earlier call. Stated
    against the stateful shape of the old code: whatever the "static" of an
    imaginary earlier call was, the present definition ignores it. *)
Lemma vbk_next_work_history_independent :
  forall coef (earlier : option Z) p h chain,
    vbk_next_work coef p h chain = vbk_next_work_K coef (vbk_K p) p h chain /\
    fst (vbk_next_work_v0 coef None p h chain) = vbk_next_work coef p h chain /\
    (earlier = Some (vbk_K p) -> fst (vbk_next_work_v0 coef earlier p h chain) = vbk_next_work coef p h chain).
Proof.
  intros. unfold vbk_next_work, vbk_next_work_v0. cbn [fst].
  repeat split. intros ->. reflexivity.
Qed.

(** whenever a retarget happens the result encodes a value not below the minimum difficulty *)
Lemma vbk_next_work_bounds :
  forall coef p h chain r,
    0 <= vp_min_diff p -> vp_min_diff p + 500000 < two256 ->
    vp_no_retarget p = false -> vp_N p <= u32 h ->
    vbk_next_work coef p h chain = Ok r ->
    exists x, r = toBits x false /\ vp_min_diff p <= x.
Proof.
  intros coef p h chain r Hm0 Hm1 Hnr HN.
  unfold vbk_next_work, vbk_next_work_K.
  destruct chain as [|prev rest]; [discriminate|].
  rewrite Hnr. cbn [orb].
  destruct (Z.ltb_spec (u32 h) (vp_N p)) as [Hlt|_]; [lia|].
  destruct (vbk_loop (vp_N p) (vp_T p) (prev :: rest) 0 0 0) as [sum t].
  destruct (u32 (vp_N p - 1) =? 0); [discriminate|].
  match goal with |- context [coef ?a ?b] => destruct (coef a b) as [c|] end; [|discriminate].
  match goal with |- context [?a <? vp_min_diff p] => destruct (Z.ltb_spec a (vp_min_diff p)) as [Hs|Hs] end;
    intros E; inversion E; subst r.
  - exists (u256 (vp_min_diff p + 500000)). split; [reflexivity|].
    unfold u256. rewrite Z.mod_small by lia. lia.
  - eexists. split; [reflexivity|]. exact Hs.
Qed.

(** the pre-fix code (static K) is refuted: two calls with different parameter
    sets in one process; the second result is not the one the function of
    (params, ancestors) prescribes. Witness evaluated with primitive floats. *)
Definition f6_p1 := mkVbkParams 1 false 5 10 300 4.
Definition f6_p2 := mkVbkParams 1 false 3 30 300 5.
Definition f6_chain : list bidx :=
  [mkBidx 4 1090 19398656; mkBidx 3 1060 19398656; mkBidx 2 1030 19398656; mkBidx 1 1000 19398656].

Lemma vbk_static_K_v0_refuted :
  exists p1 h1 c1 p2 h2 c2,
    let s := snd (vbk_next_work_v0_f None p1 h1 c1) in
    fst (vbk_next_work_v0_f s p2 h2 c2) <> vbk_next_work_f p2 h2 c2.
Proof.
  exists f6_p1, 3, f6_chain, f6_p2, 3, f6_chain.
  vm_compute. intro H. discriminate H.
Qed.

Example vbk_static_K_first_call_ok :
  fst (vbk_next_work_v0_f None f6_p2 3 f6_chain) = vbk_next_work_f f6_p2 3 f6_chain.
Proof. vm_compute. reflexivity. Qed.

(** ---- validateKeystones = keystone arithmetic ---- *)

(** the previous keystone of a block whose parent has height h is the block at
    the largest multiple of KI strictly below h; the second one KI lower; a
    keystone that would lie below height 0 must be all zeroes *)
Definition spec_keystones (KI h : Z) (chain : list bidx) (ks1 ks2 : Z) : bool :=
  let k1 := (h - 1) / KI * KI in
  let k2 := k1 - KI in
  let check k ks :=
    if 0 <=? k then match znth_error chain (h - k) with Some a => x_id a =? ks | None => false end
    else ks =? 0 in
  check k1 ks1 && check k2 ks2.

Lemma s32_small z : 0 <= z < 2 ^ 31 -> s32 z = z.
Proof.
  intros H. unfold s32. rewrite Z.mod_small by lia.
  destruct (Z.ltb_spec z (2 ^ 31)); lia.
Qed.

Lemma u32_small z : 0 <= z < 2 ^ 32 -> u32 z = z.
Proof. intros H. unfold u32, two32. apply Z.mod_small. exact H. Qed.

Lemma keystones_spec :
  forall p h chain ks1 ks2,
    0 < vp_ks p < 2 ^ 29 -> 0 <= h < 2 ^ 31 ->
    vbk_validate_keystones p h chain ks1 ks2 = Ok (spec_keystones (vp_ks p) h chain ks1 ks2).
Proof.
  intros p h chain ks1 ks2 HK Hh.
  unfold vbk_validate_keystones, spec_keystones.
  set (KI := vp_ks p) in *.
  destruct (Z.eqb_spec KI 0) as [E|_]; [lia|].
  rewrite (u32_small h) by lia.
  assert (Hm : 0 <= h mod KI < KI) by (apply Z.mod_pos_bound; lia).
  set (d1 := if h mod KI =? 0 then u32 (h mod KI + KI) else h mod KI).
  assert (Hd1 : d1 = h - (h - 1) / KI * KI /\ 0 < d1 <= KI).
  { subst d1. destruct (Z.eqb_spec (h mod KI) 0) as [E|E].
    - rewrite E, u32_small by lia. split; [|lia].
      assert (h = KI * (h / KI)) by (pose proof (Z.div_mod h KI); lia).
      assert ((h - 1) / KI = h / KI - 1).
      { symmetry. apply Z.div_unique with (r := KI - 1); lia. }
      nia.
    - split; [|lia].
      assert ((h - 1) / KI = h / KI).
      { symmetry. apply Z.div_unique with (r := h mod KI - 1); [lia|]. pose proof (Z.div_mod h KI). lia. }
      pose proof (Z.div_mod h KI). nia. }
  destruct Hd1 as [Hd1 Hd1r].
  set (k1 := (h - 1) / KI * KI) in *.
  assert (Hd2 : u32 (d1 + KI) = d1 + KI) by (apply u32_small; lia).
  rewrite Hd2.
  unfold vbk_ks_one.
  rewrite (s32_small d1) by lia. rewrite (s32_small (d1 + KI)) by lia.
  replace (h - k1) with d1 by lia. replace (h - (k1 - KI)) with (d1 + KI) by lia.
  assert (B1 : (d1 <=? h) = (0 <=? k1)).
  { destruct (Z.leb_spec d1 h), (Z.leb_spec 0 k1); lia. }
  assert (B2 : (d1 + KI <=? h) = (0 <=? k1 - KI)).
  { destruct (Z.leb_spec (d1 + KI) h), (Z.leb_spec 0 (k1 - KI)); lia. }
  rewrite B1, B2.
  match goal with |- (if negb ?c then _ else _) = _ => destruct c end; reflexivity.
Qed.

Example keystones_spec_example :
  vbk_validate_keystones vbk_main 41
    (map (fun i => mkBidx (42 - Z.of_nat i) 0 0) (seq 0 42)) 41 21 = Ok true.
Proof. vm_compute. reflexivity. Qed.
