(** Abstract PoW block tree: BlockTree::acceptBlockHeaderImpl after the checks
    (insertBlockHeader, onBlockInserted = chain-work accumulation, the
    "previous block is invalid" branch, determineBestChain AS CODED: switch only
    when the candidate has STRICTLY more chain work) and invalidateSubtree of a
    block that is not on the active chain. Executable; no proofs here. *)
From Coq Require Import ZArith Bool List.
From VB Require Import Arith.CompactDefs Pow.PowBase.
Import ListNotations.
Local Open Scope Z_scope.

Record blk : Type := mkBlk {
  k_id : Z; k_parent : Z; k_height : Z; k_time : Z; k_bits : Z;
  k_work : Z;        (* BlockIndex::chainWork (ArithUint256) *)
  k_valid : bool     (* BlockIndex::isValid(): no BLOCK_FAILED_* flag *)
}.

(** blocks newest first (insertion order reversed); the best tip as a record *)
Record tree : Type := mkTree { t_blocks : list blk; t_tip : blk }.

Fixpoint find_blk (bs : list blk) (id : Z) : option blk :=
  match bs with
  | [] => None
  | b :: r => if k_id b =? id then Some b else find_blk r id
  end.

(** ancestor chain of [id]: the block itself first, the root last (a parent is
    always inserted before its children, so one pass over the list suffices) *)
Fixpoint chain_of (bs : list blk) (id : Z) : list blk :=
  match bs with
  | [] => []
  | b :: r => if k_id b =? id then b :: chain_of r (k_parent b) else chain_of r id
  end.

Definition to_bidx (b : blk) : bidx := mkBidx (k_id b) (k_time b) (k_bits b).

(** BlockTree::determineBestChain *)
Definition determine (st : tree) (cand : blk) : tree :=
  if k_id (t_tip st) =? k_id cand then st
  else if negb (k_valid cand) then st
  else if k_work (t_tip st) <? k_work cand then mkTree (t_blocks st) cand
  else st.

Definition genesis_tree (proof : Z -> Z) (id time bits : Z) : tree :=
  let g := mkBlk id 0 0 time bits (proof bits) true in mkTree [g] g.

Section Tree.
  Variable proof : Z -> Z.      (* getBlockProof of the compact difficulty *)

  (** validateAndAddBlock after checkBlock/contextuallyCheckBlock passed, then
      tryAddTip + determineBestChain. Result flag = acceptBlockHeader's result. *)
  Definition insert_header (st : tree) (id parent time bits : Z) : tree * bool :=
    match find_blk (t_blocks st) parent with
    | None => (st, false)
    | Some pb =>
      match find_blk (t_blocks st) id with
      | Some existing =>                          (* duplicate: insertBlockHeader returns the known index *)
        if k_valid pb then (determine st existing, true) else (st, false)
      | None =>
        let nb := mkBlk id parent (k_height pb + 1) time bits
                        (u256 (proof bits + k_work pb)) (k_valid pb) in
        let st' := mkTree (nb :: t_blocks st) (t_tip st) in
        if k_valid pb then (determine st' nb, true) else (st', false)
      end
    end.

  Definition in_subtree (bs : list blk) (b : Z) (x : blk) : bool :=
    existsb (fun y => k_id y =? b) (chain_of bs (k_id x)).

  Definition set_invalid (x : blk) : blk :=
    mkBlk (k_id x) (k_parent x) (k_height x) (k_time x) (k_bits x) (k_work x) false.

  (** invalidateSubtree(b) for a block that is NOT on the active chain (the
      on-chain case re-elects among tips in hash-set order and is excluded by the
      property text). [order]: the tips visited by doUpdateTips, any order. *)
  Definition invalidate_fork (st : tree) (b : Z) (order : list Z) : tree * bool :=
    match find_blk (t_blocks st) b with
    | None => (st, false)
    | Some _ =>
      if in_subtree (t_blocks st) b (t_tip st) then (st, false) else
      let bs' := map (fun x => if in_subtree (t_blocks st) b x then set_invalid x else x) (t_blocks st) in
      (fold_left (fun s id => match find_blk (t_blocks s) id with
                              | Some c => determine s c | None => s end)
                 order (mkTree bs' (t_tip st)), true)
    end.
End Tree.
