(** Block proof (work of one block): Bitcoin's 2^256 / (target + 1), computed in 256 bits. *)
From Coq Require Import ZArith Lia Bool List.
From VB Require Import Arith.CompactDefs Pow.PowBase Pow.BtcDefs Pow.VbkDefs Gen.ChainParams.
Local Open Scope Z_scope.
Ltac Zify.zify_post_hook ::= Z.div_mod_to_equations.

(** ~t / (t + 1) + 1 in 256 bits is floor(2^256 / (t + 1)) for every target 1 <= t < 2^256 - 1 *)
Lemma btc_work_formula t : 1 <= t < two256 - 1 ->
  u256 ((two256 - 1 - t) / u256 (t + 1) + 1) = two256 / (t + 1).
Proof.
  intros Ht. unfold u256.
  assert (P : 0 < two256) by reflexivity.
  rewrite (Z.mod_small (t + 1)) by lia.
  assert (E : (two256 - 1 - t) / (t + 1) + 1 = two256 / (t + 1)).
  { replace two256 with ((two256 - 1 - t) + 1 * (t + 1)) at 2 by lia.
    rewrite Z.div_add by lia. reflexivity. }
  rewrite E. apply Z.mod_small. split.
  - apply Z.div_pos; lia.
  - apply Z.div_lt_upper_bound; nia.
Qed.

Lemma btc_block_proof_spec bits t :
  fromBits bits = (t, false, false) -> 1 <= t < two256 - 1 ->
  btc_block_proof bits = two256 / (t + 1).
Proof.
  intros E Ht. unfold btc_block_proof. rewrite E. cbn [orb].
  destruct (Z.eqb_spec t 0); [lia|]. apply btc_work_formula. exact Ht.
Qed.

Lemma vbk_block_proof_spec bits t :
  fromBits bits = (t, false, false) -> t <> 0 -> vbk_block_proof bits = t.
Proof.
  intros E Ht. unfold vbk_block_proof. rewrite E. cbn [orb].
  destruct (Z.eqb_spec t 0); [contradiction|reflexivity].
Qed.

(** K of the real VBK parameter sets (constants regenerated from vbk_chain_params.hpp):
    K >= 10, so the clamped t = max(t, K/10) is positive and K / t is a finite double *)
Lemma vbk_real_K : vbk_K vbk_main = 148500 /\ vbk_K vbk_test = 148500 /\ 10 <= vbk_K vbk_regtest.
Proof. vm_compute. repeat split; discriminate. Qed.

Lemma vbk_t_positive K t : 10 <= K < 2 ^ 31 ->
  0 < (if t <? s32 (K / 10) then s32 (K / 10) else t).
Proof.
  intros HK. assert (E : s32 (K / 10) = K / 10).
  { unfold s32. rewrite Z.mod_small by lia. destruct (Z.ltb_spec (K / 10) (2 ^ 31)); lia. }
  rewrite E. destruct (Z.ltb_spec t (K / 10)); lia.
Qed.

Example btc_block_proof_example : btc_block_proof 486604799 = 4295032833.
Proof. vm_compute. reflexivity. Qed.
