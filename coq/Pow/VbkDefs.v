(** VBK contextual rules AS CODED in src/pop/blockchain/vbk_blockchain_util.cpp
    (getNextWorkRequired, validateKeystones, calculateMinimumTimestamp,
    checkBlockTime, getBlockProof) and checkProofOfWork's target test.
    The [double] step of getNextWorkRequired is a function argument [coef]
    here (so that this file extracts with ExtrOcamlBasic); its exact model
    with Coq primitive floats is [VbkFloat.vbk_coef]. Executable; no proofs. *)
From Coq Require Import ZArith Bool List.
From VB Require Import Arith.CompactDefs Pow.PowBase Pow.BtcDefs Gen.ChainParams.
Import ListNotations.
Local Open Scope Z_scope.

Record VbkParams : Type := mkVbkParams {
  vp_min_diff : Z;        (* ArithUint256(getMinimumDifficulty()) *)
  vp_no_retarget : bool;  (* getPowNoRetargeting *)
  vp_N : Z;               (* uint32 getRetargetPeriod *)
  vp_T : Z;               (* uint32 getTargetBlockTime *)
  vp_max_future : Z;      (* uint32 maxFutureBlockTime *)
  vp_ks : Z               (* uint32 getKeystoneInterval *)
}.

Definition vbk_main := mkVbkParams vbk_main_min_diff vbk_main_no_retarget vbk_main_retarget_period vbk_main_target_block_time vbk_main_max_future vbk_main_keystone_interval.
Definition vbk_test := mkVbkParams vbk_test_min_diff vbk_test_no_retarget vbk_test_retarget_period vbk_test_target_block_time vbk_test_max_future vbk_test_keystone_interval.
Definition vbk_regtest := mkVbkParams vbk_regtest_min_diff vbk_regtest_no_retarget vbk_regtest_retarget_period vbk_regtest_target_block_time vbk_regtest_max_future vbk_regtest_keystone_interval.

(** K = N * (N - 1) * T / 2 in uint32 arithmetic *)
Definition vbk_K (p : VbkParams) : Z :=
  u32 (u32 (vp_N p * u32 (vp_N p - 1)) * vp_T p) / 2.

(** the loop over the last N-1 solve times: returns (sum of targets, t) *)
Fixpoint vbk_loop (N T : Z) (chain : list bidx) (i sum t : Z) : Z * Z :=
  match chain with
  | w :: rest =>
    match rest with
    | wp :: _ =>
      if i <? u32 (N - 1) then
        let st0 := s32 (x_time w - x_time wp) in
        let hi := s32 (u32 (T * 6)) in
        let lo := s32 (-6 * s32 T) in
        let st := if st0 >? hi then hi else if st0 <? lo then lo else st0 in
        let t' := s32 (t + st * u32 (N - i - 1)) in
        let sum' := u256 (sum + target_of (x_bits wp)) in
        vbk_loop N T rest (i + 1) sum' t'
      else (sum, t)
    | [] => (sum, t)
    end
  | [] => (sum, t)
  end.

Section NextWork.
  (** [coef K t] = (uint32_t)(((double)K / t + 0.000000005) * 100000000), [None] when
      the conversion is undefined behaviour (t = 0, result not below 2^32) *)
  Variable coef : Z -> Z -> option Z.

  (** getNextWorkRequired(prevBlock, block, params) with K as computed by [kfun] *)
  Definition vbk_next_work_K (K : Z) (p : VbkParams) (h : Z) (chain : list bidx) : res Z :=
    match chain with
    | [] => Abort
    | prev :: _ =>
      let N := vp_N p in
      if vp_no_retarget p || (u32 h <? N) then Ok (x_bits prev) else
      let '(sum, t) := vbk_loop N (vp_T p) chain 0 0 0 in
      let sum1 := u256 (sum * 1000000000) in
      let d := u32 (N - 1) in
      if d =? 0 then Throw else
      let sum2 := sum1 / d in
      let sum4 := u256 (sum2 + 5) / 10 in
      let k10 := s32 (K / 10) in
      let t1 := if t <? k10 then k10 else t in
      match coef K t1 with
      | None => Undef
      | Some c =>
        let sum7 := u256 (sum4 * c) / 100000000 / 100000000 in
        if sum7 <? vp_min_diff p
        then Ok (toBits (u256 (vp_min_diff p + 500000)) false)
        else Ok (toBits sum7 false)
      end
    end.

  Definition vbk_next_work (p : VbkParams) (h : Z) (chain : list bidx) : res Z :=
    vbk_next_work_K (vbk_K p) p h chain.

  (** the version before commit f0ad4dc5 (defect F6): [static const uint32_t K]
      is initialised by the first call in the process. State = the static. *)
  Definition vbk_next_work_v0 (static_K : option Z) (p : VbkParams) (h : Z) (chain : list bidx)
    : res Z * option Z :=
    let K := match static_K with Some k => k | None => vbk_K p end in
    (vbk_next_work_K K p h chain, Some K).
End NextWork.

(** validateKeystones(prevBlock, block, params): [chain] = ancestor chain of
    prevBlock, [h] its height, ks1/ks2 the header's keystone fields as ids
    (0 = all zero bytes). *)
Definition vbk_ks_one (h : Z) (chain : list bidx) (diff ks : Z) : bool :=
  if s32 diff <=? h then
    (* getAncestor(h - diff): [diff] steps back from prevBlock; nullptr -> false *)
    match znth_error chain diff with
    | None => false
    | Some a => x_id a =? ks
    end
  else ks =? 0.

Definition vbk_validate_keystones (p : VbkParams) (h : Z) (chain : list bidx) (ks1 ks2 : Z) : res bool :=
  let KI := vp_ks p in
  if KI =? 0 then Undef else
  let d0 := u32 h mod KI in
  let d1 := if d0 =? 0 then u32 (d0 + KI) else d0 in
  if negb (vbk_ks_one h chain d1 ks1) then Ok false else
  let d2 := u32 (d1 + KI) in
  Ok (vbk_ks_one h chain d2 ks2).

(** calculateMinimumTimestamp: up to HISTORY_FOR_TIMESTAMP_AVERAGE timestamps,
    sorted, lower median *)
Definition vbk_min_timestamp (chain : list bidx) : res Z :=
  let ts := map x_time (firstn (Z.to_nat vbk_history_for_timestamp_average) chain) in
  let i := zlen ts in
  if i =? 0 then Abort else
  let idx := if i mod 2 =? 0 then i / 2 - 1 else i / 2 in
  match znth_error (isort ts) idx with
  | None => Throw                                          (* vector::at *)
  | Some v => Ok v
  end.

Definition vbk_check_time (p : VbkParams) (chain : list bidx) (btime now : Z) : res time_verdict :=
  match vbk_min_timestamp chain with
  | Ok m =>
    if btime <? m then Ok TimeTooOld
    else if btime >? u32 (now + vp_max_future p) then Ok TimeTooNew   (* uint32 + uint32, then widened *)
    else Ok TimeOk
  | Abort => Abort | Throw => Throw | Undef => Undef
  end.

(** getBlockProof<VbkBlock>: the decoded difficulty itself *)
Definition vbk_block_proof (bits : Z) : Z :=
  let '(t, neg, ovf) := fromBits bits in
  if neg || ovf || (t =? 0) then 0 else t.

(** target part of checkProofOfWork(VbkBlock) *)
Definition vbk_target_ok (p : VbkParams) (bits : Z) : bool :=
  let '(t, neg, ovf) := fromBits bits in
  negb (neg || ovf || (t =? 0) || (t <? vp_min_diff p)).
