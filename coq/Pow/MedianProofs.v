(** The sort-based medians of the PoW models (BtcDefs.btc_mtp,
    VbkDefs.vbk_min_timestamp) are the order statistics of BtcSpec.kth_smallest:
    the upper median (k = n/2) for BTC, the lower median (k = (n-1)/2) for VBK. *)
From Coq Require Import ZArith Lia Bool List Permutation Sorted.
From VB Require Import Arith.CompactDefs Gen.ChainParams Pow.PowBase Pow.BtcDefs Pow.VbkDefs Pow.BtcSpec.
Import ListNotations.
Local Open Scope Z_scope.
Ltac Zify.zify_post_hook ::= Z.div_mod_to_equations.

(** * (a) [isort] gives a sorted permutation *)

Lemma insert_perm x l : Permutation (insert x l) (x :: l).
Proof.
  induction l as [|y r IH]; cbn [insert]; [apply Permutation_refl|].
  destruct (x <=? y); [apply Permutation_refl|].
  eapply perm_trans; [apply perm_skip, IH|apply perm_swap].
Qed.

Lemma isort_perm l : Permutation (isort l) l.
Proof.
  induction l as [|x r IH]; cbn [isort]; [apply perm_nil|].
  eapply perm_trans; [apply insert_perm|apply perm_skip, IH].
Qed.

Lemma isort_length l : length (isort l) = length l.
Proof. apply Permutation_length, isort_perm. Qed.

Lemma insert_sorted x l : StronglySorted Z.le l -> StronglySorted Z.le (insert x l).
Proof.
  induction l as [|y r IH]; intros Hs; cbn [insert].
  - constructor; constructor.
  - inversion Hs as [|? ? Hr Hy]; subst.
    destruct (Z.leb_spec x y) as [Hxy|Hxy].
    + constructor; [exact Hs|]. constructor; [exact Hxy|].
      rewrite Forall_forall in Hy |- *. intros z Hz. specialize (Hy z Hz). lia.
    + constructor; [apply IH, Hr|].
      rewrite Forall_forall in Hy |- *. intros z Hz.
      apply (Permutation_in _ (insert_perm x r)) in Hz.
      destruct Hz as [<-|Hz]; [lia|apply Hy, Hz].
Qed.

Lemma isort_sorted l : StronglySorted Z.le (isort l).
Proof.
  induction l as [|x r IH]; cbn [isort]; [constructor|apply insert_sorted, IH].
Qed.

(** * (b) the k-th element of a sorted list is the k-th smallest *)

Lemma zlen_cons {A} (x : A) l : zlen (x :: l) = 1 + zlen l.
Proof. unfold zlen. cbn [length]. lia. Qed.

Lemma zlen_nonneg {A} (l : list A) : 0 <= zlen l.
Proof. unfold zlen. lia. Qed.

Lemma count_lt_cons m x l : count_lt m (x :: l) = (if x <? m then 1 else 0) + count_lt m l.
Proof. unfold count_lt. cbn [filter]. destruct (x <? m); [apply zlen_cons|lia]. Qed.

Lemma count_le_cons m x l : count_le m (x :: l) = (if x <=? m then 1 else 0) + count_le m l.
Proof. unfold count_le. cbn [filter]. destruct (x <=? m); [apply zlen_cons|lia]. Qed.

Lemma count_lt_nonneg m l : 0 <= count_lt m l.
Proof. apply zlen_nonneg. Qed.

Lemma count_le_nonneg m l : 0 <= count_le m l.
Proof. apply zlen_nonneg. Qed.

Lemma count_lt_all_ge a l : Forall (Z.le a) l -> count_lt a l = 0.
Proof.
  induction 1 as [|x r Hx _ IH]; [reflexivity|].
  rewrite count_lt_cons, IH. destruct (Z.ltb_spec x a); lia.
Qed.

Lemma sorted_nth_kth s : StronglySorted Z.le s -> forall k d, (k < length s)%nat ->
  count_lt (nth k s d) s <= Z.of_nat k < count_le (nth k s d) s.
Proof.
  induction 1 as [|a r Hs IH Ha]; intros k d Hk; cbn [length] in Hk; [lia|].
  destruct k as [|k]; cbn [nth].
  - rewrite count_lt_cons, count_le_cons, (count_lt_all_ge a r Ha).
    pose proof (count_le_nonneg a r).
    destruct (Z.ltb_spec a a); destruct (Z.leb_spec a a); lia.
  - assert (Hk' : (k < length r)%nat) by lia.
    specialize (IH k d Hk').
    assert (Hm : a <= nth k r d).
    { rewrite Forall_forall in Ha. apply Ha, nth_In, Hk'. }
    rewrite count_lt_cons, count_le_cons.
    destruct (Z.ltb_spec a (nth k r d)); destruct (Z.leb_spec a (nth k r d)); lia.
Qed.

(** counting only depends on the multiset *)
Lemma filter_length_perm (f : Z -> bool) l l' :
  Permutation l l' -> length (filter f l) = length (filter f l').
Proof.
  induction 1 as [|x l l' _ IH|x y l|l l' l'' _ IH1 _ IH2]; cbn [filter].
  - reflexivity.
  - destruct (f x); cbn [length]; congruence.
  - destruct (f x), (f y); reflexivity.
  - congruence.
Qed.

Lemma count_lt_perm m l l' : Permutation l l' -> count_lt m l = count_lt m l'.
Proof. intros H. unfold count_lt, zlen. f_equal. apply filter_length_perm, H. Qed.

Lemma count_le_perm m l l' : Permutation l l' -> count_le m l = count_le m l'.
Proof. intros H. unfold count_le, zlen. f_equal. apply filter_length_perm, H. Qed.

Lemma kth_smallest_perm k l l' m : Permutation l l' -> kth_smallest k l m -> kth_smallest k l' m.
Proof.
  intros HP [Hin Hc]. split; [apply (Permutation_in _ HP), Hin|].
  rewrite <- (count_lt_perm m l l' HP), <- (count_le_perm m l l' HP). exact Hc.
Qed.

Theorem isort_nth_kth l k d : (k < length l)%nat ->
  kth_smallest (Z.of_nat k) l (nth k (isort l) d).
Proof.
  intros Hk. apply (kth_smallest_perm _ (isort l)); [apply isort_perm|].
  rewrite <- isort_length in Hk. split; [apply nth_In, Hk|].
  apply sorted_nth_kth; [apply isort_sorted|exact Hk].
Qed.

(** * (c) the k-th smallest is unique *)

Lemma filter_length_mono (f g : Z -> bool) l :
  (forall x, f x = true -> g x = true) -> (length (filter f l) <= length (filter g l))%nat.
Proof.
  intros Hfg. induction l as [|x r IH]; cbn [filter]; [lia|].
  specialize (Hfg x). destruct (f x), (g x); cbn [length]; try lia.
Qed.

Lemma count_le_lt_mono m1 m2 l : m1 < m2 -> count_le m1 l <= count_lt m2 l.
Proof.
  intros H. unfold count_le, count_lt, zlen. apply Nat2Z.inj_le, filter_length_mono.
  intros x Hx. apply Z.leb_le in Hx. apply Z.ltb_lt. lia.
Qed.

Lemma kth_smallest_unique k l m1 m2 : kth_smallest k l m1 -> kth_smallest k l m2 -> m1 = m2.
Proof.
  intros [_ H1] [_ H2].
  destruct (Z.lt_trichotomy m1 m2) as [H|[H|H]]; [|exact H|].
  - pose proof (count_le_lt_mono m1 m2 l H). lia.
  - pose proof (count_le_lt_mono m2 m1 l H). lia.
Qed.

(** * (d) getMedianTimePast is the upper median of the window *)

Lemma median_span_pos : 0 < btc_median_time_span.
Proof. reflexivity. Qed.

Lemma vbk_history_pos : 0 < vbk_history_for_timestamp_average.
Proof. reflexivity. Qed.

Lemma window_nonempty (n : Z) (chain : list bidx) : 0 < n -> chain <> [] ->
  (0 < length (map x_time (firstn (Z.to_nat n) chain)))%nat.
Proof.
  intros Hn Hc. rewrite map_length, firstn_length.
  destruct chain as [|b r]; [congruence|]. cbn [length]. lia.
Qed.

Theorem mtp_spec : forall chain, chain <> [] ->
  let ts := map x_time (firstn (Z.to_nat btc_median_time_span) chain) in
  kth_smallest (zlen ts / 2) ts (btc_mtp chain).
Proof.
  intros chain Hc ts. unfold btc_mtp. fold ts.
  pose proof (window_nonempty _ chain median_span_pos Hc) as Hlen. fold ts in Hlen.
  unfold zlen. change 2 with (Z.of_nat 2). rewrite <- Nat2Z.inj_div.
  apply isort_nth_kth. apply Nat.div_lt; lia.
Qed.

(** * (e) the VBK minimum timestamp is the lower median of the window; the
    function never asserts or throws on a non-empty chain *)

Theorem vbk_min_timestamp_spec : forall chain, chain <> [] ->
  let ts := map x_time (firstn (Z.to_nat vbk_history_for_timestamp_average) chain) in
  exists m, vbk_min_timestamp chain = Ok m /\ kth_smallest ((zlen ts - 1) / 2) ts m.
Proof.
  intros chain Hc ts. unfold vbk_min_timestamp. fold ts.
  pose proof (window_nonempty _ chain vbk_history_pos Hc) as Hlen. fold ts in Hlen.
  assert (Hi : 0 < zlen ts) by (unfold zlen; lia).
  destruct (Z.eqb_spec (zlen ts) 0) as [H0|_]; [lia|].
  set (idx := if zlen ts mod 2 =? 0 then zlen ts / 2 - 1 else zlen ts / 2).
  assert (Hidx : idx = (zlen ts - 1) / 2).
  { unfold idx. destruct (Z.eqb_spec (zlen ts mod 2) 0); lia. }
  rewrite Hidx. clear idx Hidx.
  set (k := Z.to_nat ((zlen ts - 1) / 2)).
  assert (Hk : (zlen ts - 1) / 2 = Z.of_nat k) by (unfold k; lia).
  assert (Hkl : (k < length ts)%nat) by (unfold zlen in Hk, Hi; lia).
  exists (nth k (isort ts) 0). split.
  - unfold znth_error. destruct (Z.ltb_spec ((zlen ts - 1) / 2) 0) as [H|_]; [lia|].
    fold k. rewrite (nth_error_nth' _ 0) by (rewrite isort_length; exact Hkl). reflexivity.
  - rewrite Hk. apply isort_nth_kth, Hkl.
Qed.
