(** C05 — property theorems only; each closed by [exact] of a lemma proved elsewhere. *)
From Coq Require Import ZArith List.
From VB Require Import Stateless.EmbedDefs Stateless.EmbedProofs Stateless.EmbedBits Stateless.MerkleDefs Stateless.MerkleProofs
     Stateless.CheckDefs Stateless.CheckProofs Arith.CompactDefs Stateless.PowDefs Stateless.PowProofs.
Import ListNotations.
Local Open Scope Z_scope.

Theorem C05_contiguous_sound : forall data tx,
  contiguous_search data tx = true ->
  exists i, (i + length data <= length tx)%nat /\ firstn (length data) (skipn i tx) = data.
Proof. exact contiguous_sound. Qed.
Print Assumptions C05_contiguous_sound.

Theorem C05_contiguous_complete : forall data tx,
  (exists i, firstn (length data) (skipn i tx) = data) -> contiguous_search data tx = true.
Proof. exact contiguous_complete. Qed.
Print Assumptions C05_contiguous_complete.

Theorem C05_contiguous_v0_refuted :
  exists tx data, contiguous_search_v0 data tx = true /\
                  ~ exists i, firstn (length data) (skipn i tx) = data.
Proof. exact contiguous_v0_refuted. Qed.
Print Assumptions C05_contiguous_v0_refuted.

Theorem C05_split_sound : forall data tx,
  zlen tx < 2 ^ 64 -> containsSplit data tx = VTrue -> split_embedding data tx.
Proof. exact split_sound. Qed.
Print Assumptions C05_split_sound.

Theorem C05_embedding_sound : forall data tx,
  zlen tx < 2 ^ 64 -> check_embedding data tx = VTrue ->
  (exists i, (i + length data <= length tx)%nat /\ firstn (length data) (skipn i tx) = data) \/
  split_embedding data tx.
Proof. exact embedding_sound. Qed.
Print Assumptions C05_embedding_sound.

Theorem C05_split_no_oob : forall data tx,
  zlen tx < 2 ^ 64 -> containsSplit data tx <> VOobBuf /\ containsSplit data tx <> VOobBits.
Proof. exact split_no_oob. Qed.
Print Assumptions C05_split_no_oob.

Theorem C05_embedding_no_oob : forall data tx,
  zlen tx < 2 ^ 64 -> check_embedding data tx <> VOobBuf /\ check_embedding data tx <> VOobBits.
Proof. exact embedding_no_oob. Qed.
Print Assumptions C05_embedding_no_oob.

Theorem C05_split_oob_v0_refuted :
  exists data tx, length data = 80%nat /\ zlen tx < 2 ^ 64 /\ containsSplit_v0 data tx = VOobBuf.
Proof. exact split_oob_v0_refuted. Qed.
Print Assumptions C05_split_oob_v0_refuted.

Theorem C05_split_complete : forall data tx p,
  0 <= p -> p + 5 < zlen tx -> magic_at tx p ->
  try_descriptor data tx (p + 3) = Found ->
  (forall q, 0 <= q < p -> byte_at tx q <> 146) ->
  containsSplit data tx = VTrue.
Proof. exact split_complete. Qed.
Print Assumptions C05_split_complete.

Theorem C05_split_complete_refuted :
  exists data tx p,
    length data = 80%nat /\ 0 <= p /\ p + 5 < zlen tx /\ magic_at tx p /\
    try_descriptor data tx (p + 3) = Found /\ containsSplit data tx = VFalse 1.
Proof. exact split_complete_refuted. Qed.
Print Assumptions C05_split_complete_refuted.

Theorem C05_split_resync_refuted :
  exists data tx p,
    length data = 80%nat /\ 0 <= p /\ p + 5 < zlen tx /\ magic_at tx p /\
    try_descriptor data tx (p + 3) = Found /\ containsSplit data tx = VFalse 0.
Proof. exact split_resync_refuted. Qed.
Print Assumptions C05_split_resync_refuted.

Theorem C05_merkle_sound_btc : forall (sha256d : list Z -> list Z) subject index layers txhash root,
  check_merkle_btc sha256d subject index layers txhash root = true ->
  subject = txhash /\ btc_spec sha256d subject index 0 layers = root.
Proof. exact merkle_sound_btc. Qed.
Print Assumptions C05_merkle_sound_btc.

Theorem C05_merkle_sound_vbk : forall (sha256 : list Z -> list Z) subject treeIndex index layers txhash root,
  check_merkle_vbk sha256 subject treeIndex index layers txhash root = true ->
  subject = txhash /\
  firstn 16 (vbk_spec sha256 treeIndex index (length layers) subject 0 layers) = root.
Proof. exact merkle_sound_vbk. Qed.
Print Assumptions C05_merkle_sound_vbk.

Theorem C05_btc_context_sound :
  forall (BtcBlock : Type) (btc_hash btc_prev : BtcBlock -> list Z) (btc_pow : BtcBlock -> bool)
  (sha256d : list Z -> list Z) (verify : list Z -> list Z -> list Z -> bool)
  (addr_from_pubkey addr_checksum : list Z -> list Z) (vbk_magic : option Z)
  (t : VbkPopTx BtcBlock),
  zlen (p_btctx BtcBlock t) < 2 ^ 64 ->
  check_vbk_pop_tx BtcBlock btc_hash btc_prev btc_pow sha256d verify addr_from_pubkey addr_checksum
  vbk_magic t = Ok ->
  length (p_pubbytes BtcBlock t) = 80%nat /\
  ((exists i : nat,
  (i + 80 <= length (p_btctx BtcBlock t))%nat /\
  firstn 80 (skipn i (p_btctx BtcBlock t)) = p_pubbytes BtcBlock t) \/
  split_embedding (p_pubbytes BtcBlock t) (p_btctx BtcBlock t)) /\
  mp_subject (p_path BtcBlock t) = p_btctx_hash BtcBlock t /\
  btc_spec sha256d (mp_subject (p_path BtcBlock t)) (mp_index (p_path BtcBlock t)) 0
  (mp_layers (p_path BtcBlock t)) = p_bop_root BtcBlock t /\
  Forall (fun b : BtcBlock => btc_pow b = true) (p_context BtcBlock t) /\
  btc_linked BtcBlock btc_hash btc_prev (p_context BtcBlock t).
Proof. exact @btc_context_sound. Qed.
Print Assumptions C05_btc_context_sound.

Theorem C05_signature_sound_poptx :
  forall (BtcBlock : Type) (btc_hash btc_prev : BtcBlock -> list Z) (btc_pow : BtcBlock -> bool)
  (sha256d : list Z -> list Z) (verify : list Z -> list Z -> list Z -> bool)
  (addr_from_pubkey addr_checksum : list Z -> list Z) (vbk_magic : option Z)
  (t : VbkPopTx BtcBlock),
  check_vbk_pop_tx BtcBlock btc_hash btc_prev btc_pow sha256d verify addr_from_pubkey addr_checksum
  vbk_magic t = Ok ->
  p_network BtcBlock t = vbk_magic /\
  p_address BtcBlock t = addr_from_pubkey (p_pubkey BtcBlock t) /\
  verify (p_hash BtcBlock t) (p_signature BtcBlock t) (p_pubkey BtcBlock t) = true.
Proof. exact @signature_sound_poptx. Qed.
Print Assumptions C05_signature_sound_poptx.

Theorem C05_signature_sound_vbktx :
  forall (verify : list Z -> list Z -> list Z -> bool)
  (addr_from_pubkey addr_checksum : list Z -> list Z) (ctxinfo_root : list Z -> option (list Z))
  (check_block_header : list Z -> list Z -> bool) (vbk_magic : option Z) (alt_id : Z)
  (t : VbkTx),
  check_vbk_tx verify addr_from_pubkey addr_checksum ctxinfo_root check_block_header vbk_magic alt_id t =
  Ok ->
  t_address t = addr_from_pubkey (t_pubkey t) /\ verify (t_hash t) (t_signature t) (t_pubkey t) = true.
Proof. exact @signature_sound_vbktx. Qed.
Print Assumptions C05_signature_sound_vbktx.

Theorem C05_pubdata_sound :
  forall (verify : list Z -> list Z -> list Z -> bool)
  (addr_from_pubkey addr_checksum : list Z -> list Z) (ctxinfo_root : list Z -> option (list Z))
  (check_block_header : list Z -> list Z -> bool) (vbk_magic : option Z) (alt_id : Z)
  (t : VbkTx),
  check_vbk_tx verify addr_from_pubkey addr_checksum ctxinfo_root check_block_header vbk_magic alt_id t =
  Ok ->
  pd_identifier (t_pubdata t) = alt_id /\
  (exists root : list Z,
  ctxinfo_root (pd_contextInfo (t_pubdata t)) = Some root /\
  check_block_header (pd_header (t_pubdata t)) root = true).
Proof. exact @pubdata_sound. Qed.
Print Assumptions C05_pubdata_sound.

Theorem C05_vtb_sound :
  forall (BtcBlock : Type) (btc_hash btc_prev : BtcBlock -> list Z) (btc_pow : BtcBlock -> bool)
  (sha256d sha256 : list Z -> list Z) (verify : list Z -> list Z -> list Z -> bool)
  (addr_from_pubkey addr_checksum : list Z -> list Z) (vbk_magic : option Z)
  (v : VTB BtcBlock),
  full_check_vtb BtcBlock btc_hash btc_prev btc_pow sha256d sha256 verify addr_from_pubkey addr_checksum
  vbk_magic v = Ok ->
  check_vbk_pop_tx BtcBlock btc_hash btc_prev btc_pow sha256d verify addr_from_pubkey addr_checksum
  vbk_magic (v_tx BtcBlock v) = Ok /\
  vp_subject (v_path BtcBlock v) = p_hash BtcBlock (v_tx BtcBlock v) /\
  firstn 16
  (vbk_spec sha256 (vp_treeIndex (v_path BtcBlock v)) (vp_index (v_path BtcBlock v))
  (length (vp_layers (v_path BtcBlock v))) (vp_subject (v_path BtcBlock v)) 0
  (vp_layers (v_path BtcBlock v))) = v_containing_root BtcBlock v.
Proof. exact @vtb_sound. Qed.
Print Assumptions C05_vtb_sound.

Theorem C05_atv_sound :
  forall (sha256 : list Z -> list Z) (verify : list Z -> list Z -> list Z -> bool)
  (addr_from_pubkey addr_checksum : list Z -> list Z) (ctxinfo_root : list Z -> option (list Z))
  (check_block_header : list Z -> list Z -> bool) (vbk_magic : option Z) (alt_id : Z)
  (a : ATV),
  full_check_atv sha256 verify addr_from_pubkey addr_checksum ctxinfo_root check_block_header vbk_magic
  alt_id a = Ok ->
  check_vbk_tx verify addr_from_pubkey addr_checksum ctxinfo_root check_block_header vbk_magic alt_id
  (a_tx a) = Ok /\
  vp_subject (a_path a) = t_hash (a_tx a) /\
  firstn 16
  (vbk_spec sha256 (vp_treeIndex (a_path a)) (vp_index (a_path a)) (length (vp_layers (a_path a)))
  (vp_subject (a_path a)) 0 (vp_layers (a_path a))) = a_bop_root a.
Proof. exact @atv_sound. Qed.
Print Assumptions C05_atv_sound.

Theorem C05_vbk_blocks_sound :
  forall (VbkBlock : Type) (vbk_height : VbkBlock -> Z) (vbk_hash_trim vbk_prev : VbkBlock -> list Z)
  (vbk_plausible vbk_pow : VbkBlock -> bool) (bs : list VbkBlock),
  check_vbk_blocks VbkBlock vbk_height vbk_hash_trim vbk_prev vbk_plausible vbk_pow bs = 0 ->
  Forall (fun b : VbkBlock => vbk_plausible b = true /\ vbk_pow b = true) bs /\
  match bs with
  | [] => True
  | b :: r => vlinked_from VbkBlock vbk_height vbk_hash_trim vbk_prev (vbk_height b) (vbk_hash_trim b) r
  end.
Proof. exact @vbk_blocks_sound. Qed.
Print Assumptions C05_vbk_blocks_sound.

Theorem C05_popdata_limits :
  forall (BtcBlock VbkBlock : Type) (btc_hash btc_prev : BtcBlock -> list Z)
  (btc_pow : BtcBlock -> bool) (vbk_plausible vbk_pow : VbkBlock -> bool)
  (sha256d sha256 : list Z -> list Z) (verify : list Z -> list Z -> list Z -> bool)
  (addr_from_pubkey addr_checksum : list Z -> list Z) (ctxinfo_root : list Z -> option (list Z))
  (check_block_header : list Z -> list Z -> bool) (vbk_magic : option Z)
  (alt_id max_size max_vbk max_vtb max_atv : Z) (d : PopData BtcBlock VbkBlock)
  (calls : list call),
  fst
  (check_pop_data BtcBlock VbkBlock btc_hash btc_prev btc_pow vbk_plausible vbk_pow sha256d sha256
  verify addr_from_pubkey addr_checksum ctxinfo_root check_block_header vbk_magic alt_id max_size
  max_vbk max_vtb max_atv d
  (fold_left
  (do_call BtcBlock VbkBlock btc_hash btc_prev btc_pow vbk_plausible vbk_pow sha256d sha256
  verify addr_from_pubkey addr_checksum ctxinfo_root check_block_header vbk_magic alt_id
  max_size max_vbk max_vtb max_atv d) calls (init_state BtcBlock VbkBlock d))) = Ok ->
  pop_full BtcBlock VbkBlock btc_hash btc_prev btc_pow vbk_plausible vbk_pow sha256d sha256 verify
  addr_from_pubkey addr_checksum ctxinfo_root check_block_header vbk_magic alt_id max_size max_vbk
  max_vtb max_atv d.
Proof. exact @popdata_limits. Qed.
Print Assumptions C05_popdata_limits.

Theorem C05_checked_memo_sound :
  forall (BtcBlock VbkBlock : Type) (btc_hash btc_prev : BtcBlock -> list Z)
  (btc_pow : BtcBlock -> bool) (vbk_plausible vbk_pow : VbkBlock -> bool)
  (sha256d sha256 : list Z -> list Z) (verify : list Z -> list Z -> list Z -> bool)
  (addr_from_pubkey addr_checksum : list Z -> list Z) (ctxinfo_root : list Z -> option (list Z))
  (check_block_header : list Z -> list Z -> bool) (vbk_magic : option Z)
  (alt_id max_size max_vbk max_vtb max_atv : Z) (d : PopData BtcBlock VbkBlock)
  (calls : list call),
  pop_inv BtcBlock VbkBlock btc_hash btc_prev btc_pow vbk_plausible vbk_pow sha256d sha256 verify
  addr_from_pubkey addr_checksum ctxinfo_root check_block_header vbk_magic alt_id max_size max_vbk
  max_vtb max_atv d
  (fold_left
  (do_call BtcBlock VbkBlock btc_hash btc_prev btc_pow vbk_plausible vbk_pow sha256d sha256 verify
  addr_from_pubkey addr_checksum ctxinfo_root check_block_header vbk_magic alt_id max_size
  max_vbk max_vtb max_atv d) calls (init_state BtcBlock VbkBlock d)).
Proof. exact @checked_memo_sound. Qed.
Print Assumptions C05_checked_memo_sound.

Theorem C05_honest_complete_vtb :
  forall (BtcBlock : Type) (btc_hash btc_prev : BtcBlock -> list Z) (btc_pow : BtcBlock -> bool)
  (sha256d sha256 : list Z -> list Z) (verify : list Z -> list Z -> list Z -> bool)
  (addr_from_pubkey addr_checksum : list Z -> list Z) (vbk_magic : option Z)
  (v : VTB BtcBlock),
  let t := v_tx BtcBlock v in
  zlen_g (p_context BtcBlock t) <= 65535 ->
  p_network BtcBlock t = vbk_magic ->
  length (p_pubbytes BtcBlock t) = 80%nat ->
  (exists i : nat, firstn 80 (skipn i (p_btctx BtcBlock t)) = p_pubbytes BtcBlock t) ->
  mp_subject (p_path BtcBlock t) = p_btctx_hash BtcBlock t ->
  btc_spec sha256d (mp_subject (p_path BtcBlock t)) (mp_index (p_path BtcBlock t)) 0
  (mp_layers (p_path BtcBlock t)) = p_bop_root BtcBlock t ->
  Forall (fun b : BtcBlock => btc_pow b = true) (p_context BtcBlock t) ->
  btc_linked BtcBlock btc_hash btc_prev (p_context BtcBlock t) ->
  p_address BtcBlock t = addr_from_pubkey (p_pubkey BtcBlock t) ->
  verify (p_hash BtcBlock t) (p_signature BtcBlock t) (p_pubkey BtcBlock t) = true ->
  vp_subject (v_path BtcBlock v) = p_hash BtcBlock t ->
  firstn 16
  (vbk_spec sha256 (vp_treeIndex (v_path BtcBlock v)) (vp_index (v_path BtcBlock v))
  (length (vp_layers (v_path BtcBlock v))) (vp_subject (v_path BtcBlock v)) 0
  (vp_layers (v_path BtcBlock v))) = v_containing_root BtcBlock v ->
  full_check_vtb BtcBlock btc_hash btc_prev btc_pow sha256d sha256 verify addr_from_pubkey addr_checksum
  vbk_magic v = Ok.
Proof. exact @honest_vtb_complete. Qed.
Print Assumptions C05_honest_complete_vtb.

Theorem C05_honest_complete_atv :
  forall (sha256 : list Z -> list Z) (verify : list Z -> list Z -> list Z -> bool)
  (addr_from_pubkey addr_checksum : list Z -> list Z) (ctxinfo_root : list Z -> option (list Z))
  (check_block_header : list Z -> list Z -> bool) (vbk_magic : option Z) (alt_id : Z)
  (a : ATV),
  let t := a_tx a in
  t_outputs t <= 255 ->
  t_network t = vbk_magic ->
  0 <= t_fee t ->
  pd_identifier (t_pubdata t) = alt_id ->
  (exists root : list Z,
  ctxinfo_root (pd_contextInfo (t_pubdata t)) = Some root /\
  check_block_header (pd_header (t_pubdata t)) root = true) ->
  t_address t = addr_from_pubkey (t_pubkey t) ->
  verify (t_hash t) (t_signature t) (t_pubkey t) = true ->
  vp_subject (a_path a) = t_hash t ->
  firstn 16
  (vbk_spec sha256 (vp_treeIndex (a_path a)) (vp_index (a_path a)) (length (vp_layers (a_path a)))
  (vp_subject (a_path a)) 0 (vp_layers (a_path a))) = a_bop_root a ->
  full_check_atv sha256 verify addr_from_pubkey addr_checksum ctxinfo_root check_block_header vbk_magic
  alt_id a = Ok.
Proof. exact @honest_atv_complete. Qed.
Print Assumptions C05_honest_complete_atv.

Theorem C05_netbyte_v0_refuted :
  exists a b : option Z, net_ne_v0 a b = false /\ a <> b.
Proof. exact @netbyte_v0_refuted. Qed.
Print Assumptions C05_netbyte_v0_refuted.

Theorem C05_pow_btc_sound :
  forall powLimit bits hash : Z, pow_btc powLimit bits hash = true -> btc_pow_facts powLimit bits hash.
Proof. exact @pow_btc_sound. Qed.
Print Assumptions C05_pow_btc_sound.

Theorem C05_pow_btc_complete :
  forall powLimit bits hash : Z, btc_pow_facts powLimit bits hash -> pow_btc powLimit bits hash = true.
Proof. exact @pow_btc_complete. Qed.
Print Assumptions C05_pow_btc_complete.

Theorem C05_pow_btc_target_bound :
  forall powLimit bits hash : Z,
  powLimit < fst (fst (fromBits bits)) -> pow_btc powLimit bits hash = false.
Proof. exact @pow_btc_target_bound. Qed.
Print Assumptions C05_pow_btc_target_bound.

Theorem C05_pow_vbk_sound :
  forall maxd minDiff bits hash : Z,
  pow_vbk maxd minDiff bits hash = true -> vbk_pow_facts maxd minDiff bits hash.
Proof. exact @pow_vbk_sound. Qed.
Print Assumptions C05_pow_vbk_sound.

Theorem C05_btc_context_pow_sound :
  forall (BtcBlock : Type) (btc_hash btc_prev : BtcBlock -> list Z)
  (btc_bits btc_hashnum : BtcBlock -> Z) (powLimit : Z) (sha256d : list Z -> list Z)
  (verify : list Z -> list Z -> list Z -> bool) (addr_from_pubkey addr_checksum : list Z -> list Z)
  (vbk_magic : option Z) (t : VbkPopTx BtcBlock),
  zlen (p_btctx BtcBlock t) < 2 ^ 64 ->
  check_vbk_pop_tx BtcBlock btc_hash btc_prev
  (fun b : BtcBlock => pow_btc powLimit (btc_bits b) (btc_hashnum b)) sha256d verify addr_from_pubkey
  addr_checksum vbk_magic t = Ok ->
  Forall (fun b : BtcBlock => btc_pow_facts powLimit (btc_bits b) (btc_hashnum b))
  (p_context BtcBlock t) /\ btc_linked BtcBlock btc_hash btc_prev (p_context BtcBlock t).
Proof. exact @btc_context_pow_sound. Qed.
Print Assumptions C05_btc_context_pow_sound.

Theorem C05_vbk_blocks_pow_sound :
  forall (VbkBlock : Type) (vbk_height : VbkBlock -> Z) (vbk_hash_trim vbk_prev : VbkBlock -> list Z)
  (vbk_time vbk_bits vbk_hashnum : VbkBlock -> Z) (forkHeight startTime blockTime : Z)
  (enabled : bool) (maxd minDiff : Z) (bs : list VbkBlock),
  check_vbk_blocks VbkBlock vbk_height vbk_hash_trim vbk_prev
  (fun b : VbkBlock =>
  vbk_plausibility forkHeight startTime blockTime enabled (vbk_height b) (vbk_time b) =? 0)
  (fun b : VbkBlock => pow_vbk maxd minDiff (vbk_bits b) (vbk_hashnum b)) bs = 0 ->
  Forall
  (fun b : VbkBlock =>
  vbk_plausibility forkHeight startTime blockTime enabled (vbk_height b) (vbk_time b) = 0 /\
  vbk_pow_facts maxd minDiff (vbk_bits b) (vbk_hashnum b)) bs.
Proof. exact @vbk_blocks_pow_sound. Qed.
Print Assumptions C05_vbk_blocks_pow_sound.

Theorem C05_vbk_plausibility_sound :
  forall (forkHeight startTime blockTime : Z) (enabled : bool) (height timestamp : Z),
  vbk_plausibility forkHeight startTime blockTime enabled height timestamp = 0 ->
  forkHeight <= height /\ u32 (height ÷ 8000) < 4096 /\ (enabled = true -> startTime <= timestamp).
Proof. exact @vbk_plausibility_sound. Qed.
Print Assumptions C05_vbk_plausibility_sound.

Theorem C05_vbk_plausibility_epoch_in_table :
  forall (forkHeight startTime blockTime : Z) (enabled : bool) (height timestamp : Z),
  vbk_plausibility forkHeight startTime blockTime enabled height timestamp = 0 ->
  0 <= u32 (height ÷ 8000) < VB.Gen.Consts.VBK_MAX_CALCULATED_EPOCHS_SIZE.
Proof. exact @vbk_plausibility_epoch_in_table. Qed.
Print Assumptions C05_vbk_plausibility_epoch_in_table.

Theorem C05_vbk_plausibility_epoch_v0_refuted :
  exists height, vbk_plausibility_v0 0 height = 0 /\ ~ u32 (height ÷ 8000) < 4096.
Proof. exact vbk_plausibility_epoch_v0_refuted. Qed.
Print Assumptions C05_vbk_plausibility_epoch_v0_refuted.
