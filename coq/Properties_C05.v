(** C05 — property theorems only; each closed by [exact] of a lemma proved elsewhere. *)
From Coq Require Import ZArith List.
From VB Require Import Stateless.EmbedDefs Stateless.EmbedProofs Stateless.MerkleDefs Stateless.MerkleProofs.
Import ListNotations.
Local Open Scope Z_scope.

Theorem C05_contiguous_sound : forall data tx,
  contiguous_search data tx = true ->
  exists i, (i + length data <= length tx)%nat /\ firstn (length data) (skipn i tx) = data.
Proof. exact contiguous_sound. Qed.
Print Assumptions C05_contiguous_sound.

Theorem C05_contiguous_complete : forall data tx,
  (exists i, firstn (length data) (skipn i tx) = data) -> contiguous_search data tx = true.
Proof. exact contiguous_complete. Qed.
Print Assumptions C05_contiguous_complete.

Theorem C05_contiguous_v0_refuted :
  exists tx data, contiguous_search_v0 data tx = true /\
                  ~ exists i, firstn (length data) (skipn i tx) = data.
Proof. exact contiguous_v0_refuted. Qed.
Print Assumptions C05_contiguous_v0_refuted.

Theorem C05_split_sound : forall data tx,
  zlen tx < 2 ^ 64 -> containsSplit data tx = VTrue -> split_embedding data tx.
Proof. exact split_sound. Qed.
Print Assumptions C05_split_sound.

Theorem C05_embedding_sound : forall data tx,
  zlen tx < 2 ^ 64 -> check_embedding data tx = VTrue ->
  (exists i, (i + length data <= length tx)%nat /\ firstn (length data) (skipn i tx) = data) \/
  split_embedding data tx.
Proof. exact embedding_sound. Qed.
Print Assumptions C05_embedding_sound.

Theorem C05_split_no_oob_buf : forall data tx, zlen tx < 2 ^ 64 -> containsSplit data tx <> VOobBuf.
Proof. exact split_no_oob_buf. Qed.
Print Assumptions C05_split_no_oob_buf.

Theorem C05_split_oob_v0_refuted :
  exists data tx, length data = 80%nat /\ zlen tx < 2 ^ 64 /\ containsSplit_v0 data tx = VOobBuf.
Proof. exact split_oob_v0_refuted. Qed.
Print Assumptions C05_split_oob_v0_refuted.

Theorem C05_split_complete : forall data tx p,
  0 <= p -> p + 5 < zlen tx -> magic_at tx p ->
  try_descriptor data tx (p + 3) = Found ->
  (forall q, 0 <= q < p -> byte_at tx q <> 146) ->
  containsSplit data tx = VTrue.
Proof. exact split_complete. Qed.
Print Assumptions C05_split_complete.

Theorem C05_split_complete_refuted :
  exists data tx p,
    length data = 80%nat /\ 0 <= p /\ p + 5 < zlen tx /\ magic_at tx p /\
    try_descriptor data tx (p + 3) = Found /\ containsSplit data tx = VFalse 1.
Proof. exact split_complete_refuted. Qed.
Print Assumptions C05_split_complete_refuted.

Theorem C05_split_resync_refuted :
  exists data tx p,
    length data = 80%nat /\ 0 <= p /\ p + 5 < zlen tx /\ magic_at tx p /\
    try_descriptor data tx (p + 3) = Found /\ containsSplit data tx = VFalse 0.
Proof. exact split_resync_refuted. Qed.
Print Assumptions C05_split_resync_refuted.

Theorem C05_merkle_sound_btc : forall (sha256d : list Z -> list Z) subject index layers txhash root,
  check_merkle_btc sha256d subject index layers txhash root = true ->
  subject = txhash /\ btc_spec sha256d subject index 0 layers = root.
Proof. exact merkle_sound_btc. Qed.
Print Assumptions C05_merkle_sound_btc.

Theorem C05_merkle_sound_vbk : forall (sha256 : list Z -> list Z) subject treeIndex index layers txhash root,
  check_merkle_vbk sha256 subject treeIndex index layers txhash root = true ->
  subject = txhash /\
  firstn 16 (vbk_spec sha256 treeIndex index (length layers) subject 0 layers) = root.
Proof. exact merkle_sound_vbk. Qed.
Print Assumptions C05_merkle_sound_vbk.
