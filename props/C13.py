"""C13 — mempool bookkeeping is consistent, memory-safe and forgets removed payloads."""
import glob
import os
import time

import vlib
from props import _mempool as M

LEVEL = "proof"
HARNESSES = [("h_mempool", "asan"), ("h_vsm", "rel")]
ASSUMPTIONS = [
    "caller contract of submit (Coq: `contract`): a payload is submitted only while it is not connected in the mempool "
    "(callers test isKnown first). Re-submitting a connected payload IS exercised on the implementation; its two "
    "observable deviations on the unchanged tree are tolerated and counted in the evidence (notes): "
    "`duplicate-entries-in-relation` (rel.vtbs is a vector, rel.atvs falls back on the shared_ptr address) and "
    "`resubmitted-connected-now-both` (connected AND in flight until the next cleanUp)",
    "a VbkBlock waiting in flight may at the same time be the header of a relation once an ATV/VTB carrying it "
    "connects (getOrPutVbkRelation ignores the in-flight blocks; tryConnectPayloads handles VbkBlocks before the "
    "VTBs/ATVs that may carry their parents, so such a block needs a second pass): tolerated and counted "
    "(`vbk-header-connected-while-in-flight`); the 'connected by the next pass' oracle demands every in-flight payload "
    "that passes the contextual check and whose carried block's parent is in the trees or is supplied by a payload "
    "handled EARLIER in the same pass (VbkBlocks, then VTBs, then ATVs, each by ascending height of the carried "
    "block), a VTB's BTC context being present before the pass",
    "already-on-chain payloads: a payload the active ALT chain contains (payloads / finalized index, independent of "
    "the library's own contextual check) must not be accepted as VALID and must be forgotten by cleanUp at every age; "
    "for a VTB this is demanded only while its containing VBK block is on the VBK best chain of the instance - on a "
    "losing VBK fork the VTB is un-applied in the VBK tree and the unchanged library accepts the re-announcement "
    "(counted as `onchain-vtb-on-losing-vbk-fork`; generatePopData's stateful duplicate test still keeps it out of "
    "the result)",
    "memory safety is observed by ASan/UBSan (-O0 build of the library) on the generated histories, not proved",
]
META = {
    "text": "Theorems (Coq, all operation sequences, closed under the global context): C13_vsm_refines_map - the "
            "ValueSortedMap model as coded now (multiset as the ordered list libstdc++ maintains, findInSet over the "
            "equal range, association list) never fires an assertion and keeps set and map in step for every "
            "comparator; C13_vsm_v0_refuted - the pre-913f84f9 erase does not. Abstract pool with all tree verdicts as "
            "step inputs: C13_partition (connected XOR in flight, no assertion, under the caller contract), "
            "C13_views_agree, C13_removed_stay_removed, C13_never_lost, C13_inflight_eventually_connected (one "
            "height-ordered pass leaves in flight only what fails the contextual check or lacks its context block; the "
            "sort key is a parameter and must be the height of the carried block, C13_inflight_other_key_refuted shows a "
            "pass sorted by endorsed heights leaving a connectable payload in flight), "
            "C13_erase_while_iterating_safe / C13_cleanup_v0_uaf_refuted (iteration over a live container with an "
            "explicit Uaf outcome). Three-typed relations model (coq/Mempool/RelDefs.v: relations_, vbkblocks_, "
            "stored maps, in-flight maps; verdicts as step inputs): C13_relations_consistent (every op sequence, no "
            "contract: the size assertion of cleanUp never fires, relations / connected maps describe the same sets, each "
            "payload under its own block), C13_relations_disjoint (under the contract: ATV/VTB connected XOR in flight, "
            "no id twice in or across relations), C13_cleanUp_exact, C13_removeAll_forgets, C13_no_resurrection, and "
            "C13_vbk_header_both_refuted (+ C13_inflight_block_resolved: gone after the next pass) / "
            "C13_resubmit_connected_refuted (the two tolerated deviations as model facts; "
            "the extracted rstep IS stepped against the real MemPool on every generated history - each submit / connect pass / "
            "cleanUp / removeAll / clear with the verdicts the implementation itself produced for that step as inputs, all "
            "seven containers and the relations compared after every step, props/_relcorr.py). Tie to the code: extracted Vsm model vs the real ValueSortedMap (two "
            "instantiations) on ALL op sequences up to length 4 (quick) / 5 (thorough) over 16 ops with three "
            "comparator-equal values, and the direct consistency oracle over all mempool views after EVERY line of "
            "generated histories, run on the un-instrumented and on the ASan/UBSan (-O0) build.",
    "note": "Trusted: Coq kernel, extraction, OCaml driver, C++ harness (reads private members of MemPool through "
            "`#define private public` in its own translation unit only), World interpreter, the recording/preloading "
            "of VBK header hashes between the un-instrumented and the sanitizer run (setProgpowHeaderCache; a miss is "
            "a machinery error, never a verdict). The pool model is single-typed (one payload type, context = one "
            "parent block, one carried block); it IS stepped against the implementation (one instance per type, the "
            "harness-reported verdicts - contextual check, BTC context, too old, blocks present in the stable/temporary "
            "VBK tree - as inputs; compared: connected ATVs/VTBs and the three in-flight views in view order). Not "
            "compared: connected VBK blocks (relation emptiness rules), VTB sets in steps where a VTB lacks BTC context; "
            "a history is dropped from the comparison once a connected payload's block is in neither tree (reorg "
            "after the temporary copy was cleaned up). Memory safety is observed, not proved. A sample of 300 cases per "
            "run (120 vsm sequences + every step of whole pool histories) is re-evaluated inside Coq by vm_compute and "
            "compared with the extracted model's output, so extraction is cross-checked, not trusted blindly "
            "(props/_mpxcheck.py, props/_xcheck.py).",
    "technique": "Coq proof (invariants over op sequences) + extraction-based differential correspondence (exhaustive) "
                 "+ direct oracle on generated histories under ASan/UBSan",
}

CFGS = [
    dict(alt_ki=5, alt_settle=8, vbk_oldwin=4, alt_fd=100, vbk_settle=8),
    dict(alt_ki=4, alt_settle=6, vbk_oldwin=3, alt_fd=100, vbk_maxreorg=6),
    dict(alt_ki=5, alt_settle=50, vbk_oldwin=12000, vbk_settle=6),
    dict(alt_ki=3, alt_settle=5, vbk_oldwin=6, alt_maxvbk=3, alt_maxatv=2, alt_maxvtb=1),
    dict(alt_ki=5, alt_settle=12, vbk_oldwin=12000, vbk_settle=12),
]


F10_KEY = "F10-generate-advances-finalization"


def two_step(rel_path, asan_path, work):
    """runner for a fixed script: un-instrumented run (records the VBK header hashes), then the sanitizer run with
    the hashes preloaded. Returns a function lines -> (died, fails, replies, notes)."""
    cnt = [0]

    def run(lines):
        cnt[0] += 1
        hf = os.path.join(work, "hashes-%d.txt" % cnt[0])
        if os.path.exists(hf):
            os.remove(hf)
        died, fails, replies, notes = M.run_script(rel_path, lines, env={"VERIF_HASH_REC": hf})
        if died or fails or asan_path is None:
            return died, fails, replies, notes
        return M.run_script(asan_path, lines, timeout=1200, env={"VERIF_HASH_LOAD": hf})
    return run


def report(ctx, variant, lines, text, runner=None, crash=False, budget=14):
    ls = list(lines)
    if runner is not None and len(ls) > 6:
        try:
            ls = M.shrink(None, ls, None if crash else M.fail_class(text), budget=budget, runner=runner)
        except Exception:
            ls = list(lines)
    ctx.violation({"kind": "ops", "harness": "h_mempool", "variant": variant, "lines": ls, "what": text})


def run_corpus(ctx, pid, runner, variant):
    n = 0
    for f in sorted(glob.glob(os.path.join(vlib.VERIF, "corpus", pid, "*.txt"))):
        lines = [l.strip() for l in open(f) if l.strip() and not l.startswith("#")]
        died, fails, _, notes = runner(lines)
        n += len(lines)
        ctx.cov.setdefault("corpus", {})[os.path.basename(f)] = died or ("fail" if fails else "ok")
        if died == "HASH-MISS":
            ctx.broken.append("machinery: sanitizer run diverged from the recording run on corpus " + os.path.basename(f))
        elif died:
            report(ctx, variant, lines, "corpus %s: %s" % (os.path.basename(f), died))
        elif fails:
            report(ctx, variant, lines[:fails[0][0]], "corpus %s: %s" % (os.path.basename(f), fails[0][2]))
    return n


def histories(ctx, pid, path, n_hist, n_steps, cls, cfgs, budget_s, hashfile=None, runner=None):
    """n_hist random histories, generated adaptively against the un-instrumented harness, all in ONE process.
    Returns (totals, [line list per history])"""
    t0 = time.time()
    proc = M.Proc(path, env=({"VERIF_HASH_REC": hashfile} if hashfile else None))
    totals = dict(histories=0, lines=0, ops={}, stats={}, gens=0, applied=0)
    scripts = []
    try:
        for h in range(n_hist):
            if time.time() - t0 > budget_s:
                totals["stopped_by_budget"] = True
                break
            rng = ctx.rng.fork()
            cfg = dict(cfgs[h % len(cfgs)])
            g = None
            try:
                g = M.MpGen(rng, proc, cfg)
                H = cls(g, "A", pid)
                # save/reload steps make the instance a LOADED tree, where generatePopData advances finalization
                # (F10): exercised only while that finding is listed, so that it is printed as KNOWN-FINDING
                H.allow_reload = any(k == F10_KEY for (_, k, _) in ctx.findings)
                # a short honest prefix so that there is something to endorse
                for _ in range(2):
                    a = g.honest_block(H.tip(), n_atv=0, n_vtb=0)
                    H.show(a)
                    H.on("set", a)
                for _ in range(n_steps):
                    H.step()
                    # stop at the first oracle failure; also at the first F10 hit: the premature finalization leaves
                    # the loaded tree in a state the library itself trips over later (appliedBlockCount assertion in
                    # setState, dangling endorsement pointers), which is a consequence of the known finding
                    if g.fails:
                        break
                if not g.fails and pid == "C12":
                    H.gen(True)
            except M.Desync as d:
                ctx.broken.append("machinery: generator/registry desync: %s" % d)
                break
            totals["histories"] += 1
            for k, v in H.ops.items():
                totals["ops"][k] = totals["ops"].get(k, 0) + v
            for k, v in H.stats.items():
                totals["stats"][k] = totals["stats"].get(k, 0) + v
            totals["gens"] += H.gens
            totals["applied"] += H.applied
            real = [f for f in g.fails if not f[2].startswith("F10 ")]
            f10 = [f for f in g.fails if f[2].startswith("F10 ")]
            if f10:
                totals["f10_hits"] = totals.get("f10_hits", 0) + len(f10)
                idx, line, text = f10[0]
                ctx.violation({"kind": "ops", "harness": "h_mempool", "variant": "rel", "lines": proc.lines[:idx],
                               "what": text}, key=F10_KEY)
            if real:
                idx, line, text = real[0]
                report(ctx, "rel", proc.lines[:idx], text, runner=runner, budget=30)
                break
            scripts.append(list(proc.lines))
    except M.Died as d:
        err = proc.stderr_text()
        report(ctx, "rel", proc.lines, "harness died: " + M.sanitizer_summary(err) + " (%s)" % d,
               runner=runner, crash=True, budget=30)
    totals["lines"] = proc.nlines
    totals["notes"] = dict(proc.notes)
    proc.close()
    return totals, scripts


def sanitizer_pass(ctx, asan_path, scripts, hashfile, runner, budget_s):
    """the recorded histories once more on the ASan/UBSan build (one process); any report, abort or oracle failure
    is a violation whose replay is the history"""
    t0 = time.time()
    proc = M.Proc(asan_path, timeout=1200, env={"VERIF_HASH_LOAD": hashfile})
    done = 0
    lines_run = 0
    try:
        for ls in scripts:
            if time.time() - t0 > budget_s:
                break
            for i, l in enumerate(ls):
                rep, fs = proc.send(l)
                lines_run += 1
                if fs:
                    report(ctx, "asan", ls[:i + 1], fs[0], runner=runner)
                    raise StopIteration
            done += 1
    except StopIteration:
        pass
    except M.Died as d:
        err = proc.stderr_text()
        if "VERIF-HASH-MISS" in err:
            ctx.broken.append("machinery: the sanitizer run hashed a VBK header the recording run did not")
        else:
            report(ctx, "asan", proc.lines, "sanitizer run died: " + M.sanitizer_summary(err) + " (%s)" % d,
                   runner=runner, crash=True)
    proc.close()
    return done, lines_run


def replay(ctx, runner, variant):
    lines = ctx.replay.get("lines", [])
    died, fails, _, _ = runner(lines)
    if died == "HASH-MISS":
        ctx.broken.append("machinery: sanitizer run diverged from the recording run")
    elif died:
        ctx.violation({"kind": "ops", "harness": "h_mempool", "variant": variant, "lines": lines, "what": died})
    elif fails:
        ctx.violation({"kind": "ops", "harness": "h_mempool", "variant": variant, "lines": lines[:fails[0][0]],
                       "what": fails[0][2]})
    ctx.cov["evaluations"] = len(lines)


def run(ctx):
    if os.path.exists(os.path.join(vlib.VERIF, "coq", "Properties_C13.v")):
        ctx.prove()
    okr, hr, rlog = vlib.build_harness(["h_mempool"], "rel")
    oka, ha, alog = vlib.build_harness(["h_mempool"], "asan")
    if not okr:
        ctx.broken.append("harness-build(rel): " + rlog[-400:])
    if not oka:
        ctx.broken.append("harness-build(asan): " + alog[-400:])
    if not (okr and oka):
        return
    rel, asan = hr["h_mempool"], ha["h_mempool"]
    runner = two_step(rel, asan, ctx.work)
    if ctx.replay and ctx.replay.get("stage") == "rel-model":
        okm, rmodel, mlog = vlib.build_model("Rel")
        if okm:
            from props import _relcorr
            _relcorr.replay(ctx, rel, rmodel)
        else:
            ctx.broken.append("model-build(Rel): " + mlog[-300:])
        return
    if ctx.replay and ctx.replay.get("harness") == "h_mempool":
        replay(ctx, runner, "asan")
        return
    try:
        from props import _vsm
        _vsm.run(ctx)
    except ImportError:
        pass
    nc = run_corpus(ctx, "C13", runner, "asan")
    if ctx.tier == "quick":
        n_hist, n_steps, budget, abudget = 12, 45, 40, 70
    else:
        n_hist, n_steps, budget, abudget = 80, 90, 400, 1200
    hashfile = os.path.join(ctx.work, "hashes.txt")
    tot, scripts = histories(ctx, "C13", rel, n_hist, n_steps, M.MpHistory, CFGS, budget, hashfile, runner)
    done, alines = (0, 0)
    if not ctx.violations:
        done, alines = sanitizer_pass(ctx, asan, scripts, hashfile, runner, abudget)
    # the extracted pool model stepped against the implementation on the same histories
    if not ctx.violations:
        okm, model, mlog = vlib.build_model("Mempool")
        if not okm:
            ctx.broken.append("model-build(Mempool): " + mlog[-300:])
        else:
            from props import _poolcorr
            pc = _poolcorr.run(ctx, rel, model, scripts, 4000 if ctx.tier == "quick" else 60000)
            ctx.cov["pool_model"] = pc
            ctx.cov["disagreements_checked"] = ctx.cov.get("disagreements_checked", 0) + pc["steps"]
            ctx.cov["traces_validated_against_impl"] = ctx.cov.get("traces_validated_against_impl", 0) + pc["agree"]
    # the extracted relations model (RelDefs.rstep) stepped against the implementation on the same histories
    if not ctx.violations:
        okm, rmodel, mlog = vlib.build_model("Rel")
        if not okm:
            ctx.broken.append("model-build(Rel): " + mlog[-300:])
        else:
            from props import _relcorr
            rc = _relcorr.run(ctx, rel, rmodel, scripts, 40 if ctx.tier == "quick" else 900, hashfile)
            ctx.cov["disagreements_checked"] = ctx.cov.get("disagreements_checked", 0) + rc["steps"]
    # extraction cross-check: sampled vsm cases and whole pool histories re-evaluated inside Coq (props/_mpxcheck.py)
    from props import _mpxcheck
    _mpxcheck.run(ctx)
    tot["sanitizer_histories"] = done
    tot["sanitizer_lines"] = alines
    ctx.cov["evaluations"] = ctx.cov.get("evaluations", 0) + tot["lines"] + alines + nc
    ctx.cov["distinct_nontrivial"] = ctx.cov.get("distinct_nontrivial", 0) + sum(
        v for k, v in tot["ops"].items() if k in ("sub", "gen", "rmall", "cleanup", "clear", "applygen"))
    ctx.cov["rule"] = ("every script line is followed by the consistency oracle over all mempool views (both on the "
                       "un-instrumented and on the ASan/UBSan build); non-trivial = mempool operations "
                       "(submit/gen/removeAll/cleanUp/clear/apply) executed; + exhaustive ValueSortedMap op sequences")
    ctx.cov["mempool_histories"] = tot
    ctx.cov["sanitizer"] = "asan+ubsan, library -O0; VBK header hashes preloaded from the un-instrumented run"
    ctx.cov["traces_validated_against_impl"] = ctx.cov.get("traces_validated_against_impl", 0) + tot["histories"] + done
    ctx.sample({"histories": tot["histories"], "lines": tot["lines"], "stats": tot["stats"]})
