"""C09 — finalization never reorganizes final blocks and is otherwise transparent."""
import json
import os
import re
import time
from collections import Counter

import vlib
from props import _store as S
from props import _fin
from props import _c09sp

LEVEL = "proof"
HARNESSES = [("h_store", "rel"), ("h_fin", "ndebug")]
ASSUMPTIONS = [
    "twin histories are API-conformant (harness answers SKIP outside documented preconditions: setState / invalidate / "
    "remove that would unapply a final block)",
    "documented exclusion tied to known finding ctx-keystone-dealloc: generated histories use "
    "alt_preserve >= settlement + 2*keystoneInterval + 2; at preserve == settlement (the default relation) "
    "finalization deallocates keystones CheckPublicationData still needs — the corpus witness "
    "corpus/C09/F12_ctx_keystone_dealloc.json runs on every check under that key, every OTHER violation is reported",
    "VBK max-reorg window longer than the VBK context any reorganizable ALT block carries (SP finalization is "
    "not bounded by the protected chain's reorg window in the code; production defaults satisfy this by a wide margin)",
    "BTC finalization is not reachable with small settings (BtcChainParams::getMaxReorgBlocks asserts "
    ">= difficulty adjustment interval = 2016); the BTC tree shares BaseBlockTree::finalizeBlockImpl with ALT/VBK",
]
META = {
    "text": "Theorems (Coq, model coq/Store/FinalizeDefs.v of isBlockOutdated, finalizeBlocks, finalizeBlockImpl incl. "
            "fix 057feaed, the TIP_IS_FINAL short-cuts and setState with assertBlockCanBeUnapplied; all trees, all op "
            "histories): C09_final_monotone - a finalized block of the active chain stays on it and final under every "
            "history of tip switches, finalizations, block additions and saves that does not abort, or has been "
            "deallocated behind the root; C09_setState_keeps_final; C09_cmp_refuses_below_final - a candidate whose "
            "fork point lies below a finalized block is refused before any payload is touched; C09_retained - the "
            "finalized payload index never loses an entry and receives the payload ids of every active-chain block "
            "deallocated before it was marked; C09_outdated_cases / C09_outdated_iff_not_descendant; "
            "C09_tips_kept_except_dirty_forks (the tip erasure keeps every descendant of the final block unless an "
            "outdated tip has an unsaved block on its branch) with C09_tips_dirty_fork_erased_refuted for that "
            "exception (known finding tips-dirty-fork-erased); C09_preserved_window (every active-chain block at or above "
            "max(old root, final - preserve) is retained unchanged and stays on the chain); "
            "C09_finalize_transparent_partial - every block "
            "that descends from the new root and is not under a sibling of the final block survives with the same "
            "height, payload ids, dirty bit and parent. PARTIAL: POP command execution (keystone context, SP context) "
            "is outside the model, and on the real library transparency does NOT follow from the asserted relation "
            "preserve >= settlement alone (known finding ctx-keystone-dealloc). Read sets (coq/Store/Transparent*.v): "
            "C09_reads_within_window / C09_reads_within_window_iff - the heights an ATV check reads (containing block "
            "down to the second previous keystone of the endorsed block) lie inside the retained window for every tip "
            "height iff preserve >= settle + 2*ki (+1 with the final block as containing block), "
            "C09_least_bound_tight(_tree), C09_preserve_equals_settle_refuted / _never_suffices (the finding on the "
            "model), C09_finalize_transparent_atv_check (CheckPublicationData + AddAltEndorsement over the tree model "
            "answer the same after finalization under that bound), C09_finalize_transparent_reads (any reader of the "
            "read set incl. pprev links, one more preserved block), C09_payout_reads_within_window / "
            "C09_payout_bound_tight (payoutDelay - 1 + averaging interval <= maxReorg + preserve); the score "
            "comparison's reads are not modelled. Direct oracle on the rebuilt library: "
            "twin instances on long histories, F saving and finalizing after every step (plain instance + public "
            "finalizeBlocks(), loaded instance with automatic finalization, lazy saves, finalizeBlocks() with unsaved blocks "
            "on the active chain and right after an unsaved deep switch so that the requested and the actually "
            "finalized block differ; and `drought` histories under a small VBK window where VBK context runs far ahead "
            "of the last BTC reference and VTBs arrive late for old VBK blocks), N never "
            "finalizing: equal answers of acceptBlockHeader/acceptBlock/setState/comparePopScore/getPopPayout for "
            "every candidate descending from F's final block, refusal of every candidate forking below it, monotone "
            "final block, equal state of the retained part of all three trees; finalizeBlocks of the extracted model "
            "is compared with AltBlockTree::finalizeBlocks on every second finalization of the fin-mode histories. "
            "Final-block guard (props/_fin.py, harness/h_fin.cpp, coq/Store/FinalGuard.v): on a library built as a Release "
            "build is (NDEBUG), direct setState onto stale forks that fork below the final block inside the preserved "
            "window and removeSubtree / invalidateSubtree of active finalized blocks are attempted in child processes; "
            "each must abort or refuse and leave every finalized block active (C09_guarded_history_keeps_final, "
            "C09_final_guard_debug_only_refuted for the variant whose check is compiled out). "
            "Cascade over the three trees (coq/Store/StackDefs.v, StackHistory.v: AltBlockTree::finalizeBlocks -> "
            "VbkBlockTree::finalizeBlocks bounded by min_or_default(refs of the BTC tip) -> BTC finalizeBlocks): "
            "C09_stack_history_keeps_final - a finalized block of the ALT, VBK or BTC best chain stays on it and final "
            "(or is deallocated behind the root) under every interleaving of per-tree operations (tip switch through "
            "assertBlockCanBeUnapplied, block addition, save, removeSubtree/invalidateSubtree - what addPayloads / "
            "removePayloads / setState do to an SP tree) with cascades carrying any reference list; "
            "C09_sp_setState_below_final_aborts, C09_cascade_vbk_bounded, C09_cascade_tree_below_maxreorg_untouched, "
            "C09_stack_guard_debug_only_refuted. Tie: sp_finalize of the extracted model vs the VBK and BTC trees "
            "observed (harness op sdump) right before/after AltBlockTree::finalizeBlocks at every compared finalization "
            "of the fin/finx/finy/drought histories (blocks, best chain, final marks, tips, finalized payload index).",
    "note": "Known finding ctx-keystone-dealloc (preserve == settlement deallocates keystones needed by "
            "CheckPublicationData): reproduced by a corpus witness on every run (KNOWN-FINDING), excluded from the "
            "generated histories by alt_preserve >= settle + 2*ki + 2. "
            "Trusted: Coq kernel, extraction, OCaml driver, C++ harness (harness/h_store.cpp over harness/world.hpp), "
            "generators. ALT and VBK trees finalize in the runs (VBK bounded by the BTC tip's references as coded); "
            "BTC does not (asserted parameter floor): the BTC half of the sp_finalize correspondence only exercises the "
            "tip-below-maxReorg branch. That addPayloads/removePayloads/setState of the library decompose into the "
            "per-tree operations of the stack model is modelled, not verified (the twin oracle observes monotone "
            "final blocks on the ALT tree; SP final marks are compared at the finalization points only).",
    "technique": "Coq proof (tree model) + extraction-based correspondence + twin-instance differential oracle",
}

# "drought" histories: small VBK window, VBK context far ahead of the last BTC reference, late VTBs
CFG_DROUGHT = {"alt_ki": 3, "alt_settle": 4, "alt_preserve": 12, "alt_maxreorg": 8, "payout_delay": 4, "payout_avg": 2,
               "vbk_settle": 10, "vbk_preserve": 10, "vbk_maxreorg": 20, "vbk_ki": 3}
CFG = {"alt_ki": 3, "alt_settle": 4, "alt_preserve": 12, "alt_maxreorg": 8, "payout_delay": 4, "payout_avg": 2,
       "vbk_settle": 10, "vbk_preserve": 10, "vbk_maxreorg": 60, "vbk_ki": 3}

RELATION = (
    "transparency relation used by the oracle. Candidate a is OUTDATED w.r.t. F iff F's highest finalized block on "
    "its active chain is not in a's ancestry (= isBlockOutdated, proved equivalent in Coq). "
    "(1) not outdated: the op (hdr/body/set/cmp/inv/reval/rm/rmpl/payout) runs on F and N and the canonical answers "
    "must be equal; exceptions, each from the code: an op that F's precondition guard refuses because it would "
    "invalidate/remove/unapply a final block (assertBlockCanBeUnapplied: `cannot unapply finalized block`) is not run "
    "on N; set/cmp of a candidate whose unapplied bodies carry VBK context below F's VBK root is skipped on both "
    "(SP context older than the SP finalization horizon; counted in the evidence). "
    "(2) outdated: cmp must answer 1 on F (TIP_IS_FINAL short-cuts / unknown block), set is outside the documented "
    "precondition, other ops run on F only (they create the outdated, possibly unsaved forks finalization has to "
    "drop); N is not touched. After every step: equal active tips; the previously final block is still in the "
    "ancestry of F's tip; the final block only moves forward. Every 5 steps: for every ALT block F retains that is on "
    "its active chain or descends from the final block, and every VBK/BTC block F retains: equal height, status word, "
    "payload ids, containing endorsements, endorsedBy, VBK refcount, BTC refs, equal VBK/BTC best tips. Status word of a "
    "VBK/BTC block: the validation-level memo CONNECTED..CAN_BE_APPLIED of a VALID block that is not ACTIVE is "
    "normalised (BaseBlockTree::doUpdateTips() iterates the unordered_set tips_ in pointer order, different in any two "
    "instances; a stale branch visited before the eventual winner is applied once and raised, visited after it is not; "
    "best chains and all answers are equal) - failed flags, ACTIVE, levels 0/1 and every ALT block stay exact. Not compared: "
    "tips_ sets (known finding tips-dirty-fork-erased), blocks F has deallocated, outdated blocks, the finalized mark, "
    "and the memory-only block-of-proof back pointers: they are not consensus state (their effect is covered by the "
    "compared cmp/payout answers), and in a finalizing instance the ones into deallocated containing blocks dangle "
    "(known finding dangling-endorsement-backpointers) and must not be read - the separate pointer-comparison oracle "
    "`dangling` reports them under that key.")


def build_script(histories, mode, save_every, corr_every=0):
    sc = S.Script()
    for hno, (g, ops) in histories:
        S.emit_registry(sc, g)
        S.emit_twin(sc, ops, mode, hno, save_every=save_every, corr_every=corr_every, sp_corr=True)
    return sc


def correspondence(ctx, model, sc, res, byno, stats):
    """finalizeBlocks of the extracted model (coq/Store/FinalizeDefs.v) on the tree observed right before
    AltBlockTree::finalizeBlocks() vs the tree observed right after. Returns [(history, pos, text)]."""
    lines = []
    expect = {}
    for i, tag in sc.meta.items():
        if tag[1] != "post":
            continue
        h, pos, pre_id = tag[0], tag[2], tag[3]
        if res.get(i) is None or res.get(pre_id) is None or res[i] in ("DEAD",) or res[pre_id] in ("DEAD",):
            continue
        g = byno[h][0]
        pre, post = S.parse_adump(res[pre_id]), S.parse_adump(res[i])
        chain_ids = set()
        c = pre["best"]
        while c is not None and c in pre["blocks"]:
            chain_ids.add(c)
            c = g.alt[c]["parent"]
        if any(b["dirty"] and a not in chain_ids for a, b in pre["blocks"].items()):
            # unsaved blocks off the active chain: the result depends on the iteration order of the unordered tips_
            # set (DESIGN F10, corpus/C09/F10_dirty_fork_erased_from_tips.json); not compared
            stats["corr_skipped_dirty_forks"] += 1
            continue
        l1 = S.model_fin_line(g, pre, CFG["alt_maxreorg"], CFG["alt_preserve"])
        l2 = S.model_fin_line(g, pre, CFG["alt_maxreorg"], CFG["alt_preserve"], reverse_tips=True)
        lines.append("m%s %s" % (i, l1))
        lines.append("r%s %s" % (i, l2))
        expect[i] = (h, pos, S.impl_fin_view(g, pre, post))
    if not lines:
        return []
    p = os.path.join(ctx.work, "model_fin.txt")
    with open(p, "w") as f:
        f.write("\n".join(lines) + "\n")
    rc, mres, _, merr = vlib.run_lines([model], p, timeout=900)
    if rc != 0:
        ctx.broken.append("model-runner rc=%d %s" % (rc, merr[-200:]))
    bad = []
    for i, (h, pos, impl) in expect.items():
        a, b = mres.get("m" + i), mres.get("r" + i)
        if a != b:
            stats["corr_order_dependent_skipped"] += 1     # tips_ iteration order matters (unsaved outdated forks)
            continue
        stats["corr_finalize_compared"] += 1
        if a != impl:
            bad.append((h, pos, "corr:Store.FinalizeDefs.finalizeBlocks model=%s impl=%s" % (a, impl)))
    return bad


def run_script(binary, sc, work, name):
    p = os.path.join(work, name)
    with open(p, "w") as f:
        f.write("\n".join(sc.lines) + "\n")
    return vlib.run_lines([binary], p, timeout=1500)


def failures(sc, res, orc, stats=None):
    """-> {history no: (first failing op position, text)}"""
    tag_of = sc.meta
    out = {}
    pos_of = {}
    for i, tag in tag_of.items():
        if tag[1] == "pair":
            pos_of[i] = (tag[0], tag[2])
        elif tag[1] == "check":
            pos_of[i] = (tag[0], tag[2])
    for i, text in orc:
        if text.startswith(DANGLING):
            continue   # known finding, reported separately under its key
        if i in pos_of:
            h, pos = pos_of[i]
            if h not in out or pos < out[h][0]:
                out[h] = (pos, text)
    for i, tag in tag_of.items():
        r = res.get(i)
        if tag[1] in ("pair", "check"):
            if r is None or r.startswith("ABORT") or r.startswith("THROW"):
                h, pos = tag[0], tag[2]
                txt = "library-abort-or-no-answer " + str(r)
                if r is not None and (h not in out or pos <= out[h][0]):
                    out[h] = (pos, txt)
        if stats is not None and tag[1] == "pair" and r:
            w = r.split(" | ")[0].split()
            key = tag[3][0] + ":" + " ".join(w[:2] if w and w[0] in ("outdated", "SKIP", "false", "fail") else w[:1])
            stats["op:" + key] += 1
            if w and w[0] == "outdated":
                stats["outdated_ops"] += 1
        if stats is not None and tag[1] == "check" and r:
            m = re.match(r"checked (\d+) bad (\d+)", r)
            if m:
                stats["state_lines_compared"] += int(m.group(1))
        if stats is not None and tag[1] in ("final", "finalN") and r:
            m = re.search(r"nA=(\d+) nV=(\d+) nB=(\d+)", r)
            if m:
                sfx = "F" if tag[1] == "final" else "N"
                stats["alt_blocks_end_" + sfx] += int(m.group(1))
                stats["vbk_blocks_end_" + sfx] += int(m.group(2))
            if tag[1] == "final":
                w = r.split()
                if len(w) > 5 and w[1] != "a0":
                    stats["histories_alt_root_moved"] += 1
                if len(w) > 5 and w[4] != "v0":
                    stats["histories_vbk_root_moved"] += 1
    return out


DANGLING = "dangling-endorsement-backpointers"


def dangling_hits(sc, orc):
    """histories in which the release-build pointer oracle found dangling back pointers"""
    return [(sc.meta[i][0], text) for i, text in orc if text.startswith(DANGLING) and i in sc.meta]


def one_case(binary, work, cfg, registry, ops, mode, save_every, name="case"):
    sc = S.Script()
    for l in registry:
        sc.add(l)
    S.emit_twin(sc, [tuple(o) for o in ops], mode, 0, save_every=save_every, check_every=1)
    rc, res, orc, err = run_script(binary, sc, work, name + ".txt")
    f = failures(sc, res, orc)
    if rc != 0 and 0 not in f:
        # the process died (signal) while executing this history: position of the last answered step
        pos = max([tag[2] for i, tag in sc.meta.items() if i in res and tag[1] in ("pair", "check")] or [0])
        f[0] = (pos + 1, "harness-or-library-crashed rc=%d (after step %d)" % (rc, pos))
    return f.get(0), err


def minimise(binary, work, cfg, registry, ops, mode, save_every, pos, budget=8):
    """truncate behind the failing op, then try to drop chunks in front of it"""
    ops = list(ops[:pos])
    runs = 0
    chunk = max(1, len(ops) // 3)
    while chunk >= 2 and runs < budget:
        i = 0
        progressed = False
        while i + chunk < len(ops) and runs < budget:
            cand = ops[:i] + ops[i + chunk:]
            runs += 1
            f, _ = one_case(binary, work, cfg, registry, cand, mode, save_every, "min%d" % runs)
            if f:
                ops = cand[:f[0]]
                progressed = True
            else:
                i += chunk
        if not progressed:
            chunk //= 2
    return ops


def report(ctx, binary, cfg, registry, ops, mode, save_every, pos, text, key=None, do_min=True):
    if do_min:
        try:
            ops = minimise(binary, ctx.work, cfg, registry, ops, mode, save_every, pos)
        except Exception:
            ops = list(ops[:pos])
    f, err = one_case(binary, ctx.work, cfg, registry, ops, mode, save_every, "confirm")
    if f:
        text = f[1]
    ctx.violation({"kind": "ops", "cfg": cfg, "registry": list(registry), "ops": [list(o) for o in ops], "mode": mode,
                   "save_every": save_every, "what": text, "stderr": (err or "")[-600:],
                   "how": "replay: registry lines build the blocks; every op runs as `on F pair N <op>` on the "
                          "finalizing instance F and the never-finalizing twin N (see harness/h_store.cpp pairOp)"},
                  key=key)


def corpus_cases():
    d = os.path.join(vlib.VERIF, "corpus", "C09")
    out = []
    if os.path.isdir(d):
        for f in sorted(os.listdir(d)):
            if f.endswith(".json"):
                out.append((f, json.load(open(os.path.join(d, f)))))
    return out


def run(ctx):
    ctx.prove()
    okh, hs, hlog = vlib.build_harness(["h_store"])
    if not okh:
        ctx.broken.append("harness-build: " + hlog[-300:])
        return
    binary = hs["h_store"]
    okm, model, mlog = vlib.build_model("Store")
    if not okm:
        ctx.broken.append("model-build: " + mlog[-300:])
    stats = Counter()
    t0 = time.time()

    if ctx.replay and ctx.replay.get("kind") == "fin":
        _fin.run(ctx)
        return
    if ctx.replay and ctx.replay.get("kind") == "script":
        rp = ctx.replay
        sc = S.Script()
        sc.lines = list(rp["lines"])
        rc, res, orc, err = run_script(binary, sc, ctx.work, "replay.txt")
        ctx.cov["evaluations"] = 1
        for chk in rp.get("checks", []):
            got = res.get(chk["id"], "")
            if not re.search(chk["regex"], got):
                ctx.violation({"kind": "script", "lines": rp["lines"], "checks": rp["checks"], "failed": chk,
                               "got": got[:400], "what": chk.get("what", "")}, key=rp.get("key"))
        return
    if ctx.replay and ctx.replay.get("kind") == "ops":
        rp = ctx.replay
        f, err = one_case(binary, ctx.work, rp.get("cfg", CFG), rp["registry"], rp["ops"], rp["mode"], rp["save_every"], "replay")
        ctx.cov["evaluations"] = 1
        if f:
            report(ctx, binary, rp.get("cfg", CFG), rp["registry"], rp["ops"], rp["mode"], rp["save_every"], f[0], f[1],
                   key=rp.get("key"), do_min=False)
        return

    ncorp = 0
    for fname, c in corpus_cases():
        if not c.get("enabled", True):
            stats["corpus_disabled"] += 1
            continue
        ncorp += 1
        if c.get("kind") == "script":
            sc = S.Script()
            sc.lines = list(c["lines"])
            rc, res, orc, err = run_script(binary, sc, ctx.work, "corpus%d.txt" % ncorp)
            for chk in c.get("checks", []):
                got = res.get(chk["id"], "")
                if not re.search(chk["regex"], got):
                    ctx.violation({"kind": "script", "lines": c["lines"], "checks": c["checks"], "failed": chk,
                                   "got": got[:400], "what": chk.get("what", "")}, key=c.get("key"))
            continue
        f, err = one_case(binary, ctx.work, c.get("cfg", CFG), c["registry"], c["ops"], c["mode"], c["save_every"], "corpus%d" % ncorp)
        if f:
            report(ctx, binary, c.get("cfg", CFG), c["registry"], c["ops"], c["mode"], c["save_every"], f[0], f[1],
                   key=c.get("key"), do_min=False)
    stats["corpus_cases"] = ncorp

    quick = ctx.tier == "quick"
    # (mode, save_every, histories, steps)
    # save_every 90 (about 15 chain blocks > alt_preserve): finalization then jumps by more than the preserved window
    # in one call, so blocks are deallocated that were never marked final before (fix 057feaed)
    plan = [("bound", 1, 2, 40), ("fin", 1, 4, 110), ("loaded", 1, 4, 110), ("loaded", 3, 3, 110), ("fin", 4, 2, 110), ("fin", 90, 2, 150), ("finx", 45, 2, 110), ("finy", 3, 3, 130), ("drought", 1, 2, 70)] if quick else \
           [("bound", 1, 10, 60), ("fin", 1, 40, 160), ("loaded", 1, 40, 160), ("loaded", 3, 30, 160), ("fin", 4, 20, 160), ("loaded", 7, 20, 200),
            ("fin", 90, 30, 200), ("fin", 16, 10, 200), ("finx", 45, 30, 160), ("finx", 20, 20, 160), ("finy", 3, 40, 200), ("drought", 1, 30, 110), ("drought", 3, 15, 110)]
    evaluations = 0
    hno = 0
    found = False
    for (mode, save_every, count, steps) in plan:
        hs_ = []
        for _ in range(count):
            hno += 1
            if mode == "bound":
                # directed: requested VBK height passes min(refs of the BTC tip) -1 / == / +1 (props/_c09sp.py)
                g, ops = _c09sp.gen_boundary(ctx.rng.fork(), CFG_DROUGHT, steps)
            elif mode == "drought":
                g, ops = S.gen_twin_drought(ctx.rng.fork(), CFG_DROUGHT, steps)
            else:
                g, ops = S.gen_twin(ctx.rng.fork(), CFG, steps, macro=(mode == "finy"))
            hs_.append((hno, (g, ops)))
            stats["steps"] += len(ops)
        cfg_h = CFG_DROUGHT if mode in ("drought", "bound") else CFG
        emode = "fin" if mode in ("drought", "bound") else mode
        sc = build_script(hs_, emode, save_every, corr_every=(1 if mode == "bound" else 2 if emode == "fin" else (3 if mode == "finx" else 0)))
        rc, res, orc, err = run_script(binary, sc, ctx.work, "twin_%s_%d.txt" % (mode, save_every))
        crashed_h = None
        if rc != 0:
            # the harness process died (signal): the history that was executing is re-run on its own below
            for i, tag in sc.meta.items():
                if i in res:
                    crashed_h = tag[0]
        mism = [] if rc != 0 else S.check_registries(sc, res)
        if mism:
            ctx.broken.append("generator/registry out of step: %s" % (mism[:2],))
        fails = failures(sc, res, orc, stats)
        if crashed_h is not None:
            g_, ops_ = dict(hs_)[crashed_h]
            f1, err1 = one_case(binary, ctx.work, cfg_h, list(g_.lines), ops_, emode, save_every, "crash")
            if f1:
                fails[crashed_h] = f1
            else:
                ctx.broken.append("runner: h_store rc=%d %s" % (rc, err[-300:]))
        if okm and mode in ("fin", "finx", "finy", "drought", "bound"):
            # model/implementation disagreement on finalizeBlocks: the model is not the specification, so look for a
            # concrete failing input first (the twin oracle of the same history), otherwise name the correspondence
            cbad = correspondence(ctx, model, sc, res, dict(hs_), stats)
            for h, pos, text in cbad[:3]:
                if h not in fails:
                    ctx.broken.append(text[:600])
            # the same for the SP trees: sp_finalize (VBK bounded by the BTC tip's refs, then BTC) vs the library
            sbad = _c09sp.correspondence(ctx, model, sc, res, stats, "model_spfin_%s_%d.txt" % (mode, save_every))
            for h, pos, text in sbad[:3]:
                if h not in fails:
                    ctx.broken.append(text[:600])
        for h, text in dangling_hits(sc, orc):
            stats["histories_with_dangling_backpointers"] += 1
            g, ops = dict(hs_)[h]
            # known finding: after ALT/VBK deallocation raw endorsement back pointers dangle (saveTree dereferences them)
            ctx.violation({"kind": "ops", "cfg": cfg_h, "registry": list(g.lines), "ops": [list(o) for o in ops],
                           "mode": emode, "save_every": save_every, "what": text}, key=DANGLING)
        evaluations += count
        stats["mode_%s_save_every_%d" % (mode, save_every)] += count
        byno = dict(hs_)
        for h, (pos, text) in sorted(fails.items())[:2]:
            g, ops = byno[h]
            report(ctx, binary, cfg_h, list(g.lines), ops, emode, save_every, pos, text)
            found = True
        if found:
            break
        if quick and time.time() - t0 > 120:
            stats["stopped_early_for_budget"] = 1
            break

    ctx.cov["evaluations"] = evaluations + ncorp
    ctx.cov["distinct_nontrivial"] = evaluations
    ctx.cov["rule"] = ("one evaluation = one twin history (F finalizing / N not) of the stated number of steps in one of "
                       "the modes; every step is compared, state of the retained part every 5 steps")
    ctx.cov["cfg"] = CFG
    ctx.cov["distribution"] = dict(sorted(stats.items()))
    ctx.cov["transparency_relation"] = RELATION
    ctx.cov["disagreements_checked"] = sum(v for k, v in stats.items() if k.startswith("op:")) + stats["state_lines_compared"]
    ctx.cov["traces_validated_against_impl"] = evaluations
    ctx.sample({"plan(mode,save_every,histories,steps)": plan})
    # extra stage: the final-block guard on an NDEBUG build (direct setState / remove / invalidate in a child process)
    _fin.run(ctx)
