"""C09 — correspondence of the finalization cascade on the SP trees: sp_finalize of the extracted model
(coq/Store/StackDefs.v: VbkBlockTree::finalizeBlocks = base::finalizeBlocks bounded by min_or_default(refs of the
BTC tip), then BlockTree<BtcBlock>::finalizeBlocks) on the VBK and BTC trees observed by `sdump` right before
AltBlockTree::finalizeBlocks() vs the trees observed right after."""
import os
import re

import vlib
from props import _store as S

_SD = re.compile(r"^VBK\{(.*?)\}tips\{(.*?)\}root\{(.*?)\}best\{(.*?)\}fp\{(.*?)\}refs\{(.*?)\}\|"
                 r"BTC\{(.*?)\}tips\{(.*?)\}root\{(.*?)\}best\{(.*?)\}fp\{(.*?)\}\|cfg\{(.*?)\}$")


class Names:
    """wire numbers: S.num for registry names, 9e6+k for anything else (bootstrap blocks without a name)"""
    def __init__(self):
        self.extra = {}

    def num(self, x):
        if x and x[0] in "avwtb" and x[1:].isdigit():
            return S.num(x)
        if x not in self.extra:
            self.extra[x] = 9000000 + len(self.extra)
        return self.extra[x]


def _tree(blocks, tips, root, best, fp):
    d = {"blocks": {}, "tips": [x for x in tips.split(";") if x], "root": root, "best": best,
         "fp": set(x for x in fp.split(";") if x)}
    for l in blocks.split(";"):
        if not l:
            continue
        n, par, h, dirty, fin, pl = l.split(",")
        d["blocks"][n] = dict(parent=None if par == "-" else par, h=int(h), dirty=dirty == "1", final=fin == "1",
                              pl=[] if pl == "-" else pl.split("."))
    return d


def parse_sdump(s):
    m = _SD.match(s or "")
    if not m:
        return None
    g = m.groups()
    cfg = [int(x) for x in g[11].split(",")]
    return {"vbk": _tree(*g[0:5]), "refs": [int(x) for x in g[5].split(";") if x], "btc": _tree(*g[6:11]),
            "cfg": dict(vbk_maxreorg=cfg[0], vbk_preserve=cfg[1], btc_maxreorg=cfg[2], btc_preserve=cfg[3])}


def _chain(t):
    chain, c = [], t["best"]
    while c is not None and c in t["blocks"]:
        chain.append(c)
        if c == t["root"]:
            break
        c = t["blocks"][c]["parent"]
    chain.reverse()
    return chain


def _tree_args(nm, t, reverse_tips):
    chain = _chain(t)
    tips = list(t["tips"])
    if reverse_tips:
        tips.reverse()
    bl = []
    for a, b in sorted(t["blocks"].items(), key=lambda kv: nm.num(kv[0])):
        par = "-" if (a == t["root"] or b["parent"] is None) else str(nm.num(b["parent"]))
        bl.append("%d:%s:%d:%d:%d:%s" % (nm.num(a), par, b["h"], 1 if b["dirty"] else 0, 1 if b["final"] else 0,
                                         ".".join(str(nm.num(x)) for x in b["pl"]) or "-"))
    j = lambda l: ",".join(str(nm.num(x)) for x in l) or "-"
    return "%s %s %s" % (j(chain), j(tips), ";".join(bl))


def model_line(nm, d, reverse_tips=False):
    c = d["cfg"]
    return "spfin %d %d %s %d %d %s %s" % (c["vbk_maxreorg"], c["vbk_preserve"], ",".join(str(x) for x in d["refs"]) or "-",
                                           c["btc_maxreorg"], c["btc_preserve"],
                                           _tree_args(nm, d["vbk"], reverse_tips), _tree_args(nm, d["btc"], reverse_tips))


def _view(nm, pre, post):
    j = lambda l: ",".join(str(x) for x in l) or "-"
    fp = []
    for x in post["fp"] - pre["fp"]:
        a, b = x.split(">")
        fp.append("%d:%d" % (nm.num(a), nm.num(b)))
    return "chain=%s blocks=%s final=%s tips=%s fp=%s" % (
        j([nm.num(x) for x in _chain(post)]), j(sorted(nm.num(a) for a in post["blocks"])),
        j(sorted(nm.num(a) for a, b in post["blocks"].items() if b["final"])),
        j(sorted(nm.num(a) for a in post["tips"])), j(sorted(fp)))


def impl_view(nm, pre, post):
    return _view(nm, pre["vbk"], post["vbk"]) + " | " + _view(nm, pre["btc"], post["btc"])


def _offchain_dirty(t):
    ch = set(_chain(t))
    return any(b["dirty"] and a not in ch for a, b in t["blocks"].items())


def _diff(model, impl):
    """the fields of the two views that differ, as symmetric differences"""
    out = []
    for tname, m, i in zip(("VBK", "BTC"), (model or "").split(" | "), (impl or "").split(" | ")):
        fm = dict(x.split("=", 1) for x in m.split() if "=" in x)
        fi = dict(x.split("=", 1) for x in i.split() if "=" in x)
        for k in sorted(set(fm) | set(fi)):
            if fm.get(k) != fi.get(k):
                sm, si = set((fm.get(k) or "-").split(",")), set((fi.get(k) or "-").split(","))
                out.append("%s.%s model-only=%s impl-only=%s" % (tname, k, ",".join(sorted(sm - si)[:8]) or "-",
                                                                 ",".join(sorted(si - sm)[:8]) or "-"))
    return "; ".join(out) or "model=%s impl=%s" % (model, impl)


def correspondence(ctx, model, sc, res, stats, name="model_spfin.txt"):
    """-> [(history, pos, text)] of disagreements between sp_finalize (model) and the library"""
    lines, expect = [], {}
    for i, tag in sc.meta.items():
        if tag[1] != "spost":
            continue
        h, pos, pre_id = tag[0], tag[2], tag[3]
        pre, post = parse_sdump(res.get(pre_id)), parse_sdump(res.get(i))
        if pre is None or post is None:
            stats["spcorr_unparsed"] += 1
            continue
        if _offchain_dirty(pre["vbk"]) or _offchain_dirty(pre["btc"]):
            # unsaved blocks off the best chain: the outcome depends on the iteration order of the unordered tips_
            stats["spcorr_skipped_dirty_forks"] += 1
            continue
        nm = Names()
        lines.append("m%s %s" % (i, model_line(nm, pre)))
        lines.append("r%s %s" % (i, model_line(nm, pre, reverse_tips=True)))
        expect[i] = (h, pos, impl_view(nm, pre, post), pre, post)
    if not lines:
        return []
    p = os.path.join(ctx.work, name)
    with open(p, "w") as f:
        f.write("\n".join(lines) + "\n")
    rc, mres, _, merr = vlib.run_lines([model], p, timeout=900)
    if rc != 0:
        ctx.broken.append("model-runner(spfin) rc=%d %s" % (rc, merr[-200:]))
    bad = []
    for i, (h, pos, impl, pre, post) in expect.items():
        a, b = mres.get("m" + i), mres.get("r" + i)
        if a != b:
            stats["spcorr_order_dependent_skipped"] += 1
            continue
        stats["spcorr_compared"] += 1
        v = pre["vbk"]
        tip_h, root_h = v["blocks"][v["best"]]["h"], v["blocks"][v["root"]]["h"]
        if tip_h >= pre["cfg"]["vbk_maxreorg"]:
            stats["spcorr_vbk_window_reached"] += 1
            req = max(root_h, tip_h - pre["cfg"]["vbk_maxreorg"])
            if pre["refs"] and min(pre["refs"]) <= req:
                stats["spcorr_vbk_stopped_by_bound"] += 1     # boundary: finalization refused because of the BTC tip's refs
            if pre["refs"] and min(pre["refs"]) == req:
                stats["spcorr_vbk_bound_equal_requested"] += 1
            if pre["refs"] and min(pre["refs"]) == req + 1:
                stats["spcorr_vbk_bound_just_above_requested"] += 1
        if pre["vbk"]["root"] != post["vbk"]["root"]:
            stats["spcorr_vbk_root_moved"] += 1
        if sum(b_["final"] for b_ in post["vbk"]["blocks"].values()) > sum(b_["final"] for b_ in pre["vbk"]["blocks"].values()):
            stats["spcorr_vbk_newly_final"] += 1
        if len(post["vbk"]["blocks"]) < len(pre["vbk"]["blocks"]):
            stats["spcorr_vbk_deallocated"] += 1
        if pre["refs"] and pre["vbk"] == post["vbk"]:
            stats["spcorr_vbk_unchanged"] += 1
        if pre["btc"] == post["btc"]:
            stats["spcorr_btc_unchanged"] += 1
        if a != impl:
            bad.append((h, pos, "corr:Store.StackDefs.sp_finalize history=%s step=%s %s" % (h, pos, _diff(a, impl))))
    return bad


def gen_boundary(rng, cfg, nsteps):
    """Directed history for the bound of VbkBlockTree::finalizeBlocks (maxFinalizeBlockHeight = lowest VBK height
    referenced by the BTC tip): VTBs are delivered in the first three blocks only, afterwards every ALT block carries
    exactly ONE ATV, so the VBK tip - and with it the requested block `tip - maxReorg` - advances by exactly one
    height per step while the BTC tip (and its refs) stays put.  With a finalization compared after every step the
    requested height passes min(refs) - 1, min(refs), min(refs) + 1 one after the other."""
    g = S.StoreWorldGen(rng, cfg)
    h = S.TwinHistory(g, cfg.get("alt_maxreorg", 8))
    for i in range(nsteps):
        if i < 3:
            a = g.honest_block(h.best, n_atv=1, n_vtb=1, empty_chance=(0, 1))
        else:
            a = g.honest_block(h.best, n_atv=1, n_vtb=0, empty_chance=(0, 1))
        h.show(a, order="inorder")
        h.on("set", a)
        h.best = a
    return g, h.rec
