"""C18 helper: in-Coq cross-check of the extraction (DESIGN section 6).

A sample of the run's own cases is written as a generated `cases.v` (in the
run's scratch dir, never under coq/), evaluated by `Eval vm_compute` on the
Gallina definitions themselves, and compared with what the EXTRACTED OCaml
model answered for the same cases. A difference means extraction / OCaml
driver / this glue is wrong: a machinery error, not a property violation.
"""
import os
import re

import vlib

HEADER = """From Coq Require Import ZArith List Bool.
From VB Require Import Arith.CompactDefs Arith.U256Defs.
From VB Require Import Gen.TextTables Text.TextCommon Text.HexDefs Text.Base58Defs Text.Base59Defs Text.AddressDefs.
Import ListNotations.
Local Open Scope Z_scope.
Set Printing Width 10000000.
Set Printing Depth 10000000.
Definition oaddr (o : outcome address) : outcome (Z * list Z) :=
  match o with Ok a => Ok (addr_type a, addr_text a) | Invalid => Invalid | Abort => Abort end.
Definition addrpk_obs (sha : list Z -> list Z) (k : list Z) :=
  let r := addr_from_public_key sha k in
  match r with
  | Ok a => (oaddr r, addr_is_derived_from_public_key sha a k, oaddr (addr_from_string sha (addr_to_string a)))
  | _ => (oaddr r, Abort, Abort)
  end.
"""


def zl(bs):
    """Coq literal of a byte list"""
    bs = list(bs)
    return "(@nil Z)" if not bs else "[" + "; ".join(str(b) for b in bs) + "]"


def le32(hexnum):
    return list(int(hexnum, 16).to_bytes(32, "little"))


def unhex(s):
    return [] if s == "-" else list(bytes.fromhex(s))


def zlit(hexnum):
    v = int(hexnum, 16)
    return "(%d)" % v


def sha_fun(pairs):
    t = "(fun _ : list Z => (@nil Z))"
    body = "(@nil Z)"
    for p in reversed(pairs):
        i, _, o = p.partition(":")
        body = "(if list_eqb x %s then %s else %s)" % (zl(unhex(i)), zl(unhex(o)), body)
    return "(fun x : list Z => %s)" % body if pairs else t


# expected text (whitespace-free Coq print syntax) built from the OCaml model's answer
def e_list(bs):
    return "[" + ";".join(str(b) for b in bs) + "]"


def e_num(h):
    return str(-int(h[1:], 16) if h.startswith("-") else int(h, 16))


def e_bool(s):
    return "true" if s == "1" else "false"


def e_out(ans):
    if ans.startswith("OK"):
        return "Ok" + e_list(unhex(ans.split()[1]))
    return {"INVALID": "Invalid", "ABORT": "Abort"}.get(ans)


def e_addr(tok):
    """tok: list of tokens of 'OK <type> <text>' or ['INVALID'] / ['ABORT']"""
    if tok[0] == "OK":
        return "Ok(%s,%s)" % (e_num(tok[1]), e_list(unhex(tok[2])))
    return {"INVALID": "Invalid", "ABORT": "Abort"}.get(tok[0])


U256_BIN = {"add": "uadd", "sub": "usub", "mul": "umul"}
U256_UN = {"not": "bnot", "neg": "neg", "inc": "inc", "dec": "dec"}
U256_SH = {"shl": "shl", "shr": "shr", "shl_g": "shl_g", "shr_g": "shr_g"}
U256_NUM = {"bits": "ubits", "bits_g": "ubits_g", "low64": "getLow64"}


def term_and_expected(op, a, ans):
    """(Coq term, expected print) or None when the op/answer is not cross-checked"""
    if ans is None or ans.startswith("MODEL-ERROR"):
        return None
    if op in U256_BIN:
        return "%s %s %s" % (U256_BIN[op], zl(le32(a[0])), zl(le32(a[1]))), e_list(le32(ans))
    if op in U256_UN:
        return "%s %s" % (U256_UN[op], zl(le32(a[0]))), e_list(le32(ans))
    if op in U256_SH:
        return "%s %s %s" % (U256_SH[op], zl(le32(a[0])), zlit(a[1])), e_list(le32(ans))
    if op in U256_NUM:
        return "%s %s" % (U256_NUM[op], zl(le32(a[0]))), e_num(ans)
    if op == "cmp":
        return "cmp %s %s" % (zl(le32(a[0])), zl(le32(a[1]))), e_num(ans)
    if op == "mul32":
        return "mul32 %s %s" % (zl(le32(a[0])), zlit(a[1])), e_list(le32(ans))
    if op == "ofu64":
        return "of_u64 %s" % zlit(a[0]), e_list(le32(ans))
    if op == "div":
        return ("udiv %s %s" % (zl(le32(a[0])), zl(le32(a[1]))),
                "Throw" if ans == "THROW" else "Done" + e_list(le32(ans)))
    if op in ("frombits", "frombits_b"):
        t, n, o = ans.split()
        tv = e_num(t) if op == "frombits" else e_list(le32(t))
        return ("%s %s" % ("fromBits" if op == "frombits" else "fromBits_b", zlit(a[0])),
                "(%s,%s,%s)" % (tv, e_bool(n), e_bool(o)))
    if op == "tobits":
        return "toBits %s %s" % (zlit(a[0]), e_bool(a[1])), e_num(ans)
    if op == "tobits_b":
        return "toBits_b %s %s" % (zl(le32(a[0])), e_bool(a[1])), e_num(ans)
    if op == "hexstr":
        return "hex_str %s" % zl(unhex(a[0])), e_list(unhex(ans))
    if op == "parsehex":
        return "parse_hex %s" % zl(unhex(a[0])), e_list(unhex(ans))
    if op == "ishex":
        return "is_hex %s" % zl(unhex(a[0])), e_bool(ans)
    if op == "b58enc":
        return "b58_encode %s" % zl(unhex(a[0])), e_out(ans)
    if op == "b58dec":
        return "b58_decode %s" % zl(unhex(a[0])), e_out(ans)
    if op == "b59enc":
        return "b59_encode %s" % zl(unhex(a[0])), e_list(unhex(ans.split()[1]))
    if op == "b59dec":
        return "b59_decode %s" % zl(unhex(a[0])), e_out(ans)
    if op == "addrstr":
        return "oaddr (addr_from_string %s %s)" % (sha_fun(a[1:]), zl(unhex(a[0]))), e_addr(ans.split())
    if op == "addrpk":
        t = ans.split()
        if t[0] != "OK":
            return None
        d = {"derived=1": "Oktrue", "derived=0": "Okfalse"}.get(t[3])
        if d is None or not t[4].startswith("back="):
            return None
        back = [t[4][5:]] + t[5:]
        return ("addrpk_obs %s %s" % (sha_fun(a[1:]), zl(unhex(a[0]))),
                "(%s,%s,%s)" % (e_addr(t[:3]), d, e_addr(back)))
    return None


def sample(cases, mres, rng, n):
    """round-robin over the op kinds, deterministic in the run's seed"""
    byop = {}
    for c in cases:
        if sum(len(x) for x in c[2]) <= 6000:
            byop.setdefault(c[1], []).append(c)
    ops = sorted(byop)
    for op in ops:
        rng.shuffle(byop[op])
    out = []
    k = 0
    while len(out) < n and any(byop[o] for o in ops):
        op = ops[k % len(ops)]
        k += 1
        if byop[op]:
            c = byop[op].pop()
            te = term_and_expected(c[1], c[2], mres.get(c[0]))
            if te is not None and te[1] is not None:
                out.append((c, te[0], te[1]))
    return out


def norm(s):
    s = re.sub(r"\s+", "", s)
    return re.sub(r"\((-\d+)\)", r"\1", s)


def crosscheck(ctx, cases, mres, n, timeout=900):
    """returns (checked, [mismatch descriptions]); appends to ctx.broken on machinery errors"""
    smp = sample(cases, mres, ctx.rng.fork(), n)
    if not smp:
        return 0, []
    vfile = os.path.join(ctx.work, "cases.v")
    with open(vfile, "w") as f:
        f.write(HEADER)
        for i, (c, term, exp) in enumerate(smp):
            f.write("Eval vm_compute in (%d, %s).\n" % (i, term))
    rc, out, err = vlib.sh(["coqc", "-Q", vlib.COQ, "VB", "-w", "-all", "cases.v"], cwd=ctx.work, timeout=timeout)
    if rc != 0:
        ctx.broken.append("extraction: cases.v did not evaluate (rc=%d): %s" % (rc, " ".join((err or out).split())[-300:]))
        return 0, []
    got = {}
    # one answer per Eval: "     = (i, value)" followed by "     : type"; join continuation lines defensively
    cur = None
    for line in out.split("\n"):
        if line.startswith("     = "):
            cur = [line[7:]]
            got[len(got)] = cur
        elif line.startswith("     : "):
            cur = None
        elif cur is not None:
            cur.append(line)
    bad = []
    for i, (c, term, exp) in enumerate(smp):
        g = norm("".join(got.get(i, [])))
        want = norm("(%d,%s)" % (i, exp))
        if g != want:
            bad.append("%s %s: coq=%s ocaml=%s" % (c[1], " ".join(x[:40] for x in c[2])[:100], g[:120], want[:120]))
    hist = {}
    for c, _, _ in smp:
        hist[c[1]] = hist.get(c[1], 0) + 1
    ctx.cov["extraction_crosschecked"] = len(smp) - len(bad)
    ctx.cov["extraction_crosscheck_ops"] = dict(sorted(hist.items()))
    for b in bad[:3]:
        ctx.broken.append("extraction: Coq vm_compute and the extracted OCaml model differ on " + b)
    return len(smp), bad
