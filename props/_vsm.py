"""C13, ValueSortedMap part: the real template vs the extracted model on exhaustive op sequences."""
import itertools
import os

import vlib


def gen_cases(tier, rng):
    keys = (1, 2, 3)
    vals = (10, 11, 12, 5)          # three values the comparator (v/10) deems equivalent + one lower
    ops = ["i%d:%d" % (k, v) for k in keys for v in vals] + ["e%d" % k for k in keys] + ["c"]
    maxlen = 4 if tier == "quick" else 5
    cases = []
    # witness of F4 first
    cases.append("vsm 10 i1:11 i2:12 e2")
    for n in range(1, maxlen + 1):
        for seq in itertools.product(ops, repeat=n):
            cases.append("vsm 10 " + " ".join(seq))
    # longer random sequences over more keys / heights
    ops2 = ["i%d:%d" % (k, v) for k in range(1, 7) for v in (10, 11, 12, 13, 20, 21, 22, 30, 5, 6)] + \
           ["e%d" % k for k in range(1, 7)] * 6 + ["c"]
    for _ in range(2000 if tier == "quick" else 40000):
        cases.append("vsm 10 " + " ".join(rng.choice(ops2) for _ in range(rng.range(6, 30))))
    return cases


def run(ctx):
    okm, model, mlog = vlib.build_model("Mempool")
    okh, hs, hlog = vlib.build_harness(["h_vsm"], "rel")
    if not okm:
        ctx.broken.append("model-build(Mempool): " + mlog[-300:])
    if not okh:
        ctx.broken.append("harness-build(h_vsm): " + hlog[-300:])
    if not (okm and okh):
        return
    if ctx.replay and ctx.replay.get("harness") == "h_vsm":
        cases = ctx.replay["cases"]
    else:
        cases = gen_cases(ctx.tier, ctx.rng.fork())
    inp = os.path.join(ctx.work, "vsm.txt")
    with open(inp, "w") as f:
        for i, c in enumerate(cases):
            f.write("s%d %s\n" % (i, c))
    rc1, mres, _, merr = vlib.run_lines([model], inp)
    rc2, ires, orc, ierr = vlib.run_lines([hs["h_vsm"]], inp)
    from props import _mpxcheck
    _mpxcheck.VSM.extend(("s%d" % i, c, mres.get("s%d" % i)) for i, c in enumerate(cases))
    bad = vlib.diff_results(mres, ires)
    ctx.cov["vsm"] = {"sequences": len(cases), "exhaustive_up_to_length": 4 if ctx.tier == "quick" else 5,
                      "alphabet": "3 keys x {10,11,12,5} inserts + 3 erases + clear = 16 ops", "exhaustive": True,
                      "disagreements": len(bad), "oracle_failures": len(orc)}
    ctx.cov["evaluations"] = ctx.cov.get("evaluations", 0) + len(cases)
    ctx.cov["distinct_nontrivial"] = ctx.cov.get("distinct_nontrivial", 0) + len(set(cases))
    ctx.cov["disagreements_checked"] = ctx.cov.get("disagreements_checked", 0) + len(cases)
    ctx.cov["traces_validated_against_impl"] = ctx.cov.get("traces_validated_against_impl", 0) + len(cases) - len(bad)
    ctx.sample({"case": cases[0], "model": mres.get("s0"), "impl": ires.get("s0")})
    # shortest failing sequence first
    fails = sorted(set([i for i, _ in orc] + bad), key=lambda i: len(cases[int(i[1:])]))
    for i in fails[:3]:
        c = cases[int(i[1:])]
        ctx.violation({"kind": "input", "harness": "h_vsm", "cases": [c], "model": mres.get(i), "impl": ires.get(i),
                       "oracle": [t for j, t in orc if j == i][:2],
                       "what": "ValueSortedMap: implementation differs from the proved model / views disagree"})
    if rc1 != 0 or rc2 != 0:
        ctx.broken.append("runner(vsm): model rc=%d impl rc=%d %s" % (rc1, rc2, (merr + ierr)[-300:]))
