"""C18 — 256-bit arithmetic, compact targets and text encodings are exact."""
import os
import vlib

LEVEL = "proof"
ASSUMPTIONS = []
HARNESSES = [("h_C18", "rel")]
META = {
    "text": "Theorems (Coq, all inputs): compact-target codec round-trip on every canonical positive compact value "
            "(toBits(fromBits c) = c, no sign/overflow flag, target < 2^256). The model is executable and is compared "
            "with ArithUint256::fromBits/toBits of the rebuilt library on boundary-aimed and random inputs; a "
            "disagreement is a concrete failing input since the model is the proved specification.",
    "note": "Trusted: Coq kernel, extraction (ExtrOcamlBasic), OCaml driver, C++ harness. Modelled not verified: "
            "the byte-array big-integer code is reached only through the correspondence run.",
    "technique": "Coq proof (structural, over Z) + extraction-based differential correspondence",
}


def gen_cases(ctx, n):
    r = ctx.rng
    cases = []
    k = 0

    def add(op, *args):
        nonlocal k
        k += 1
        cases.append(("c%d" % k, op, list(args)))
    # compact: every size byte x sign x mantissa boundary classes + random
    mants = [0, 1, 0x7f, 0x80, 0xff, 0x100, 0x7fff, 0x8000, 0xffff, 0x10000, 0x7fffff]
    for size in range(0, 256):
        for sign in (0, 0x800000):
            for m in mants:
                add("frombits", "%x" % ((size << 24) | sign | m))
    for _ in range(n):
        add("frombits", "%x" % r.bits(32))
    # toBits: values of every bit length, boundaries around byte lengths
    for b in range(0, 257):
        for v in {(1 << b) - 1, (1 << b), (1 << b) + 1, r.bits(b)}:
            if 0 <= v < (1 << 256):
                add("tobits", "%x" % v, str(r.below(2)))
    for _ in range(n):
        add("tobits", "%x" % r.bits(r.range(0, 256)), str(r.below(2)))
    return cases


def run(ctx):
    proved = ctx.prove()
    okm, model, mlog = vlib.build_model("C18")
    okh, hs, hlog = vlib.build_harness(["h_C18"])
    if not okm:
        ctx.broken.append("model-build: " + mlog[-300:])
    if not okh:
        ctx.broken.append("harness-build: " + hlog[-300:])
    if not (okm and okh):
        return
    n = 3000 if ctx.tier == "quick" else 200000
    cases = ctx.replay["cases"] if ctx.replay and "cases" in ctx.replay else gen_cases(ctx, n)
    inp = os.path.join(ctx.work, "cases.txt")
    with open(inp, "w") as f:
        for cid, op, args in cases:
            f.write("%s %s %s\n" % (cid, op, " ".join(args)))
    rc1, mres, _, merr = vlib.run_lines([model], inp)
    rc2, ires, orc, ierr = vlib.run_lines([hs["h_C18"]], inp)
    ctx.cov["evaluations"] = len(cases)
    ctx.cov["distinct_nontrivial"] = len({(op, tuple(a)) for _, op, a in cases})
    ctx.cov["rule"] = ("compact codec: all 256 size bytes x sign x 11 mantissa classes + random 32-bit values; "
                       "toBits on every bit length 0..256 at 2^b-1,2^b,2^b+1,random; distinct = distinct (op,args)")
    for c in cases[:3] + cases[-2:]:
        ctx.sample({"case": c, "model": mres.get(c[0]), "impl": ires.get(c[0])})
    bad = vlib.diff_results(mres, ires)
    ctx.cov["disagreements_checked"] = len(cases)
    ctx.cov["traces_validated_against_impl"] = len(cases) - len(bad)
    byid = {c[0]: c for c in cases}
    # the model IS the proved specification here: a disagreement is a concrete failing input
    for i in bad[:5]:
        ctx.violation({"kind": "input", "cases": [byid[i]] if i in byid else [], "model": mres.get(i), "impl": ires.get(i),
                       "what": "implementation differs from the proved specification"})
    if rc1 != 0 or rc2 != 0:
        ctx.broken.append("runner: model rc=%d impl rc=%d %s" % (rc1, rc2, (merr + ierr)[-300:]))
