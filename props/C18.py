"""C18 — 256-bit arithmetic, compact targets and text encodings are exact.

Pipeline (DESIGN 4.2): regenerate coq/Gen/TextTables.v from the repo, build
Properties_C18.vo (all theorems, Print Assumptions, hygiene), extract the
executable models, and run them against the rebuilt library on boundary-aimed,
exhaustive-small and random inputs. The models are the *proved specification*:
every disagreement is a concrete failing input of the implementation.
"""
import hashlib
import json
import os
import subprocess
import time

import vlib
from props import _c18x

LEVEL = "proof"
ASSUMPTIONS = [
    "sha256 is a Section variable of the address model; the correspondence run feeds the model the values of the real "
    "function (hashlib, cross-checked against the library's sha256 on every hashed input of the run)",
    "base59 round trip assumes the input length fits size_t (length <= 2^64-1), as the C++ leading-zero loop counts modulo 2^64",
]
HARNESSES = [("h_C18", "rel")]
META = {
    "text": "Theorems (Coq, all inputs, by induction over the byte list): every ArithUint256 operation as coded "
            "(+=, -=, unary -, ~, ++, --, *=uint32, *=, /=, <<=, >>=, compareTo, bits, getLow64, uint64 ctor) equals the "
            "mathematical operation mod 2^256 on the little-endian value; /= computes the exact quotient and throws iff the "
            "divisor is 0; shifts for every amount incl. >= 256. Compact targets: the byte-level fromBits/toBits equal the "
            "value-level ones; fromBits characterised for every uint32 (value, negative, overflow flag = mathematical "
            "overflow); toBits sign-bit behaviour; fromBits(toBits v) = v truncated to its mantissa bytes; canonical round "
            "trip. Text: base59/base58/hex decode(encode bs) = bs for every byte string, every foreign character rejected, "
            "alphabets/index tables (regenerated from the source on every run) mutually inverse; address: derived "
            "addresses parse back to themselves. The executable models are compared with the rebuilt library; a "
            "disagreement is a concrete failing input since the model is the proved specification.",
    "note": "Trusted: Coq kernel, extraction (ExtrOcamlBasic), OCaml driver, C++ harness, tools/gen_text_tables.py. "
            "sha256 is a Section variable (values supplied by the run). <<=, >>= and bits() are modelled as the literal "
            "C++ loops (scatter with |= into the zeroed array / scan from the top byte) and additionally in a gather "
            "formulation proved equal. Base58 buffers are kept little-endian (reverse of the C++ vector). "
            "thorough: the 2^32 compact sweep runs inside the harness against a C port of the proved spec (trusted glue, "
            "validated against the extracted model on the quick stream). Items named *_partial in Properties_C18.v are "
            "listed in the evidence under 'partial'.",
    "technique": "Coq proof (induction over byte lists; Z arithmetic) + tables regenerated from source + "
                 "extraction-based differential correspondence + direct round-trip oracles on the implementation",
}

M256 = (1 << 256) - 1
CORPUS = os.path.join(vlib.VERIF, "corpus", "C18")

B58 = "123456789ABCDEFGHJKLMNPQRSTUVWXYZabcdefghijkmnopqrstuvwxyz"
B59 = B58 + "0"


# ---------------------------------------------------------------------------
# python-side helpers used only to BUILD inputs (never as an oracle)
# ---------------------------------------------------------------------------
def py_b58(bs):
    z = 0
    while z < len(bs) and bs[z] == 0:
        z += 1
    v = int.from_bytes(bs, "big")
    out = ""
    while v:
        v, r = divmod(v, 58)
        out = B58[r] + out
    return "1" * z + out


def py_base(bs, alphabet):
    z = 0
    while z < len(bs) and bs[z] == 0:
        z += 1
    v = int.from_bytes(bs, "big")
    out = ""
    n = len(alphabet)
    while v:
        v, r = divmod(v, n)
        out = alphabet[r] + out
    return alphabet[0] * z + out


def hx(b):
    b = bytes(b)
    return b.hex() if b else "-"


def sha(b):
    return hashlib.sha256(bytes(b)).digest()


class Gen:
    def __init__(self, ctx):
        self.ctx = ctx
        self.r = ctx.rng
        self.cases = []
        self.hist = {}
        self.thorough = ctx.tier == "thorough"
        self.hashed = {}      # sha256 inputs used by address cases -> digest
        self.notes = {}

    def add(self, op, *args):
        cid = "c%d" % (len(self.cases) + 1)
        self.cases.append((cid, op, [a if isinstance(a, str) else "%x" % a for a in args]))
        self.hist[op] = self.hist.get(op, 0) + 1

    def note(self, k, n=1):
        self.notes[k] = self.notes.get(k, 0) + n

    def shapair(self, data):
        d = sha(data)
        self.hashed[bytes(data)] = d
        return "%s:%s" % (hx(data), hx(d))

    # ---------------- compact ----------------
    def compact(self, n):
        r = self.r
        mants = [0, 1, 0x7f, 0x80, 0xff, 0x100, 0x7fff, 0x8000, 0xffff, 0x10000, 0x7fffff]
        for size in range(0, 256):
            for sign in (0, 0x800000):
                for m in mants:
                    c = (size << 24) | sign | m
                    self.add("frombits", c)
                    self.add("frombits_b", c)
                    self.add("pfrombits", c)
        self.note("compact: size byte x sign x mantissa class", 256 * 2 * len(mants))
        for _ in range(n):
            c = r.bits(32)
            self.add("frombits", c)
            self.add("frombits_b", c)
            self.add("pfrombits", c)
        for b in range(0, 257):
            for v in sorted({(1 << b) - 1, (1 << b), (1 << b) + 1, r.bits(b)}):
                if 0 <= v <= M256:
                    ng = str(r.below(2))
                    self.add("tobits", v, ng)
                    self.add("tobits_b", v, ng)
                    self.add("ptobits", v, ng)
        self.note("toBits: bit lengths 0..256 at 2^b-1, 2^b, 2^b+1, random", 257)
        for _ in range(n):
            v = r.bits(r.range(0, 256))
            ng = str(r.below(2))
            self.add("tobits", v, ng)
            self.add("tobits_b", v, ng)
            self.add("ptobits", v, ng)

    # ---------------- U256 ----------------
    def boundary_values(self):
        r = self.r
        vs = {0, 1, 2, 0xff, 0x100, M256, M256 - 1, M256 - 0xff, 1 << 255, (1 << 255) - 1, (1 << 255) + 1}
        for k in range(8, 256, 8):          # byte (limb) boundaries: carries across every limb
            vs |= {(1 << k) - 1, 1 << k, (1 << k) + 1, M256 - ((1 << k) - 1), M256 ^ (1 << k)}
        for k in (31, 32, 33, 63, 64, 65, 127, 128, 129, 254):
            vs |= {(1 << k) - 1, 1 << k, (1 << k) + 1}
        for k in range(0, 32):              # a single 0xff / 0x01 / 0x80 byte at every position
            vs |= {0xff << (8 * k), 0x01 << (8 * k), 0x80 << (8 * k), M256 ^ (0xff << (8 * k))}
        vs |= {int("01" * 32, 16), int("ff00" * 16, 16), int("00ff" * 16, 16), int("80" * 32, 16), int("7f" * 32, 16)}
        return sorted(v & M256 for v in vs)

    def rnd256(self):
        r = self.r
        k = r.below(7)
        if k == 0:
            return r.bits(256)
        if k == 1:
            return r.bits(r.range(0, 256))
        if k == 2:
            return M256 - r.bits(r.range(0, 64))
        if k == 3:
            return ((1 << (8 * r.range(0, 32))) - 1) & M256
        if k == 4:
            return 1 << r.range(0, 255)
        if k == 5:   # long runs of 0xff bytes: carry chains across many limbs
            lo = r.range(0, 31)
            hi = r.range(lo, 31)
            return ((((1 << (8 * (hi - lo + 1))) - 1) << (8 * lo)) | r.bits(8 * lo)) & M256
        return (r.bits(r.range(0, 16)) << r.range(0, 250)) & M256

    def u256(self, npairs, nrand, thorough):
        r = self.r
        B = self.boundary_values()
        self.note("u256 boundary operands", len(B))
        # unary ops on every boundary value
        for a in B:
            for op in ("not", "neg", "inc", "dec", "bits", "bits_g", "low64"):
                self.add(op, a)
        for w in (0, 1, 0xff, 0x100, 0xffff, 0x10000, 0xffffffff, 0xfffffffe, 0x80000000, 0x7fffffff, 10, 58, 59):
            self.add("ofu64", w)
            for a in (B if thorough else B[::7] + [M256, 0, 1]):
                self.add("mul32", a, w)
        for k in range(0, 65):
            for v in {(1 << k) - 1, (1 << k) & ((1 << 64) - 1), r.bits(k)}:
                self.add("ofu64", v)
        # binary ops on boundary pairs
        pairs = []
        if thorough:
            pairs = [(a, b) for a in B for b in B]
        else:
            for _ in range(npairs):
                pairs.append((r.choice(B), r.choice(B)))
            for a in (0, 1, M256, M256 - 1, 1 << 255):
                for b in (0, 1, M256, M256 - 1, 1 << 255):
                    pairs.append((a, b))
        for a, b in pairs:
            for op in ("add", "sub", "mul", "cmp"):
                self.add(op, a, b)
        # division: divisors of every bit length 0..256 against dividends of assorted lengths
        for db in range(0, 257):
            ds = {(1 << db) >> 1, ((1 << db) - 1), ((1 << db) >> 1) | r.bits(max(db - 1, 0))}
            for d in sorted(ds):
                dividends = [M256, r.bits(r.range(db, 256)), (d * r.bits(16) + r.below(max(d, 1))) & M256]
                if thorough:
                    dividends += [r.bits(256), d, max(d - 1, 0), (d + 1) & M256]
                else:
                    dividends.append(r.choice([d, max(d - 1, 0), (d + 1) & M256]))
                for a in dividends:
                    self.add("div", a, d)
        self.note("div: divisor bit lengths 0..256 (x3 shapes) x %d dividends" % (7 if thorough else 4), 257)
        for a in B[:: (1 if thorough else 5)]:
            self.add("div", a, 0)
            self.add("div", M256, a)
            self.add("div", a, a)
            self.add("div", a, 3)
        # shifts 0..300 and the unsigned-int extremes
        shvals = [M256, 1, 1 << 255, int("a5" * 32, 16), r.bits(256)] + ([r.bits(256) for _ in range(6)] if thorough else [])
        for sh in list(range(0, 301)) + [511, 512, 1 << 16, (1 << 31) - 1, 1 << 31, (1 << 32) - 1, (1 << 32) - 8]:
            for a in shvals:
                self.add("shl", a, sh)
                self.add("shr", a, sh)
            for a in shvals[:2] + shvals[-1:]:     # the gather formulations (proved equal to the literal loops)
                self.add("shl_g", a, sh)
                self.add("shr_g", a, sh)
        self.note("shifts 0..300 + uint extremes, per value", len(shvals))
        # random operands
        for _ in range(nrand):
            a, b = self.rnd256(), self.rnd256()
            for op in ("add", "sub", "mul", "div", "cmp"):
                self.add(op, a, b)
            self.add("div", a, r.bits(r.range(1, 64)))
            self.add("mul32", a, r.bits(32))
            self.add("shl", a, r.range(0, 300))
            self.add("shr", a, r.range(0, 300))
            for op in ("not", "neg", "inc", "dec", "bits", "low64"):
                self.add(op, a)

    # ---------------- text codecs ----------------
    def text(self, thorough):
        r = self.r
        # encoders: exhaustive short byte strings
        strings = [b""] + [bytes([i]) for i in range(256)]
        if thorough:
            strings += [bytes([i, j]) for i in range(256) for j in range(256)]
            for i in (0, 1, 0x7f, 0x80, 0xff):
                strings += [bytes([i, j, k]) for j in range(256) for k in range(256)]
            self.note("encoders: all byte strings of length <= 2, length 3 with first byte in {0,1,7f,80,ff}", len(strings))
        else:
            edge = [0, 1, 0x39, 0x3a, 0x3b, 0x7f, 0x80, 0xfe, 0xff]
            strings += [bytes([i, j]) for i in edge for j in range(256)]
            strings += [bytes([j, i]) for i in edge for j in range(256)]
            strings += [bytes([i, j, k]) for i in edge for j in edge for k in edge]
            strings += [bytes(r.bytes(2)) for _ in range(1500)] + [bytes(r.bytes(3)) for _ in range(1500)]
            self.note("encoders: all byte strings of length <= 1, length 2 with an edge byte, edge^3, random 2/3", len(strings))
        lens = [4, 5, 7, 8, 15, 16, 20, 31, 32, 33, 34, 50, 64, 100]
        for n in lens:
            for _ in range(6 if thorough else 2):
                strings.append(bytes(r.bytes(n)))
                z = r.range(1, n)
                strings.append(bytes(z) + bytes(r.bytes(n - z)))            # leading zero bytes
                strings.append(bytes([0xff]) * n)
        strings += [bytes(n) for n in (1, 2, 3, 10, 32, 34, 64)]                # only zeros
        for bs in strings:
            self.add("hexstr", hx(bs))
            self.add("b58enc", hx(bs))
            self.add("b59enc", hx(bs))
        # decoders: valid texts and every single-character corruption of them
        nvalid = 12 if thorough else 4
        for codec, alpha, op in (("b58", B58, "b58dec"), ("b59", B59, "b59dec")):
            valid = ["", alpha[0], alpha[0] * 3, alpha[-1], alpha[-1] * 4]
            for _ in range(nvalid):
                n = r.range(1, 12)
                bs = bytes(r.below(3)) + bytes(r.bytes(n))
                valid.append(py_base(bs, alpha))
            valid.append(py_base(bytes(r.bytes(32)), alpha))
            for t in valid:
                self.add(op, hx(t.encode()))
            ncorr = 0
            for t in valid[: (len(valid) if thorough else 7)] + [valid[-1]]:
                tb = t.encode()
                step = 1 if len(tb) <= 16 else 5
                for i in range(0, len(tb), step):
                    for c in range(256):
                        if c != tb[i]:
                            self.add(op, hx(tb[:i] + bytes([c]) + tb[i + 1:]))
                            ncorr += 1
                for i in range(0, len(tb) + 1, step):                # insertions
                    for c in (0, 0x20, 0x09, 0x30, 0x49, 0x4f, 0x6c, 0x7f, 0x80, 0xff):
                        self.add(op, hx(tb[:i] + bytes([c]) + tb[i:]))
            self.note(codec + ": single-character corruptions (all 255 replacements per position)", ncorr)
            # all 1-char texts, 2-char texts over alphabet+edges (thorough: all 65536)
            for c in range(256):
                self.add(op, hx(bytes([c])))
            two = range(256) if thorough else [ord(x) for x in "1z0 "] + [0, 9, 0x2f, 0x3a, 0x7f, 0x80, 0xb1, 0xff]
            for c in two:
                for d in range(256):
                    self.add(op, hx(bytes([c, d])))
            # random alphabet texts (valid digits, arbitrary value) and random junk
            for _ in range(400 if thorough else 60):
                n = r.range(1, 45)
                self.add(op, hx("".join(r.choice(alpha) for _ in range(n)).encode()))
                self.add(op, hx(bytes(r.bytes(r.range(1, 8)))))
        # base58 whitespace handling
        for t in ("2g", "111", "StV1DL6CwTryKyV", py_b58(bytes(r.bytes(10)))):
            for pre in ("", " ", "\t\n", " \r\v\f"):
                for post in ("", " ", "  \t", "\n"):
                    self.add("b58dec", hx((pre + t + post).encode()))
            self.add("b58dec", hx((t[:1] + " " + t[1:]).encode()))
            self.add("b58dec", hx((t + " x").encode()))
            self.add("b58dec", hx(t.encode() + b"\x00"))
            self.add("b58dec", hx(t.encode() + b"\x00zz"))
            self.add("b58dec", hx(b" " + t.encode() + b" \x00"))
        for n in (1, 2, 5, 40):
            self.add("b58dec", hx(b" " * n))
        # hex parsing
        hexes = ["", "00", "0", "a", "ab", "AB", "aB", "abc", "ab c", " ab", "ab ", "a b", "ab cd", "ab\tcd\n", "0x12",
                 "12zz34", "zz", "g0", "0g", "12 3", "1 23", "deadbeef", "DEADBEEF", "de ad be ef", "\x0bde", "12\x0034",
                 "1\x002", "\x00", " \x00ab"]
        for h in hexes:
            self.add("parsehex", hx(h.encode("latin1")))
            self.add("ishex", hx(h.encode("latin1")))
        for c in range(256):
            self.add("parsehex", hx(bytes([c])))
            self.add("parsehex", hx(bytes([0x31, c])))
            self.add("parsehex", hx(bytes([0x31, 0x32, c, 0x33, 0x34])))
            self.add("parsehex", hx(bytes([c, 0x32])))
            self.add("ishex", hx(bytes([c, 0x32])))
            self.add("ishex", hx(bytes([0x61, c])))
        for _ in range(800 if thorough else 150):
            n = r.range(0, 24)
            s = bytes(r.choice(b"0123456789abcdefABCDEF  \tgz\x00\xff") for _ in range(n))
            self.add("parsehex", hx(s))
            self.add("ishex", hx(s))

    # ---------------- address ----------------
    def address(self, nkeys):
        r = self.r
        made = []
        for i in range(nkeys):
            n = r.choice([0, 1, 33, 65, 88, r.range(0, 120)])
            k = bytes(r.bytes(n))
            h1 = sha(k)
            data = b"V" + py_b58(h1)[:24].encode()
            full = data + py_b58(sha(data))[:5].encode()
            # isDerivedFromPublicKey also hashes the full address text (addressChecksum)
            self.add("addrpk", hx(k), self.shapair(k), self.shapair(data), self.shapair(full))
            made.append(full)
        # parse: valid standard addresses, the default address, corruptions
        valid = made[:6] + [b"V111111111111111111111111G3LuZ"]
        # valid and invalid multisig addresses: V m n <22 base58 chars> <4 checksum> 0
        for (m, n) in ((1, 2), (2, 2), (2, 3), (58, 58), (3, 2), (1, 1), (57, 58), (1, 58)):
            body = "".join(r.choice(B58) for _ in range(22))
            data = ("V" + B58[m - 1] + B58[n - 1] + body).encode()
            valid.append(data + py_b58(sha(data))[:4].encode() + b"0")
        # multisig texts with correct checksums for (m, n) digit pairs (m != n included, valid and invalid
        # combinations): quick = boundary digits, thorough = all 58 x 58 pairs
        digs = range(1, 59) if self.thorough else (1, 2, 3, 29, 57, 58)
        npairs = 0
        for m in digs:
            for n in digs:
                body = "".join(r.choice(B58) for _ in range(22))
                data = ("V" + B58[m - 1] + B58[n - 1] + body).encode()
                a = data + py_b58(sha(data))[:4].encode() + b"0"
                self.add("addrstr", hx(a), self.shapair(a[:25]))
                npairs += 1
        self.note("address: multisig (m,n) digit pairs with correct checksum", npairs)
        # checksum-correct adversarial texts: a character outside the respective alphabet inside the data part,
        # with the checksum RECOMPUTED over the malformed text, so that only the alphabet check can reject it
        def std_text(data):           # data: 25 bytes (or another length for the wrong-length variants)
            return data + py_b58(sha(data[:25]))[:5].encode()

        def msig_text(data):
            return data + py_b58(sha(data[:25]))[:4].encode() + b"0"

        def adv(text):
            self.add("addrstr", hx(text), self.shapair(text[:25]))

        foreign = [0x30, 0x4f, 0x49, 0x6c, 0x20, 0x09, 0x2d, 0x5f, 0x2b, 0x2f, 0x40, 0x7e, 0x21, 0x2e, 0x7f, 0x80, 0xff, 0x00]
        nadv = 0
        for c in foreign:
            for pos in (1, 2, 3, 12, 23, 24):
                body = bytearray(b"V" + "".join(r.choice(B58) for _ in range(24)).encode())
                body[pos] = c
                adv(std_text(bytes(body)))                      # standard shape (does not end in '0')
                nadv += 1
                mb = bytearray(b"V" + B58[r.below(2)].encode() + B58[1 + r.below(57)].encode() +
                               "".join(r.choice(B58) for _ in range(22)).encode())
                mb[pos] = c
                adv(msig_text(bytes(mb)))                       # multisig shape: '0' is base59 but the first 29 chars must be base58
                nadv += 1
        for _ in range(6):                                       # several foreign characters at once
            body = bytearray(b"V" + "".join(r.choice(B58) for _ in range(24)).encode())
            for _ in range(r.range(2, 4)):
                body[r.range(1, 24)] = r.choice([0x30, 0x4f, 0x49, 0x6c])
            adv(std_text(bytes(body)))
            nadv += 1
        for first in b"U1Wv0 ":                                  # wrong starting character, checksum valid for that text
            data = bytes([first]) + "".join(r.choice(B58) for _ in range(24)).encode()
            adv(std_text(data))
            adv(msig_text(data[:1] + b"12" + data[3:]))
            nadv += 2
        for n in (23, 25):                                       # wrong lengths +-1 with a checksum that is valid for the text
            data = b"V" + "".join(r.choice(B58) for _ in range(n)).encode()
            adv(std_text(data))
            adv(data + py_b58(sha(data))[:5].encode())
            adv(msig_text(data))
            nadv += 3
        for mch, nch in (("0", "2"), ("1", "0"), ("0", "0"), ("z", "1"), ("3", "2"), ("z", "z"), ("1", "1")):   # m/n outside their rules
            data = ("V" + mch + nch + "".join(r.choice(B58) for _ in range(22))).encode()
            adv(msig_text(data))
            nadv += 1
        self.note("address: checksum-correct adversarial texts (foreign character classes x positions, both kinds; "
                  "wrong first char / length / m,n)", nadv)
        for a in valid:
            self.add("addrstr", hx(a), self.shapair(a[:25]))
        ncorr = 0
        for a in valid[:3] + valid[7:9]:
            for i in range(len(a)):
                for c in sorted({0, 0x20, 0x30, 0x31, 0x32, 0x49, 0x56, 0x7a, 0x7f, 0x80, 0xff, (a[i] + 1) & 0xff, r.below(256)}):
                    if c != a[i]:
                        b = a[:i] + bytes([c]) + a[i + 1:]
                        self.add("addrstr", hx(b), self.shapair(b[:25]))
                        ncorr += 1
            for b in (a[:-1], a + b"1", b"", a[:25], a + a):
                self.add("addrstr", hx(b), self.shapair(b[:25]))
        self.note("address: single-character corruptions", ncorr)


def run_par(cmd, lines, nchunks, workdir, tag, timeout=3000):
    """run `cmd` over the case lines split into nchunks concurrent processes (each process is single-threaded);
    returns (rc, {id: result}, oracle_failures, stderr) like vlib.run_lines"""
    nchunks = max(1, min(nchunks, (len(lines) + 19999) // 20000))
    files = []
    for i in range(nchunks):
        fn = os.path.join(workdir, "in-%s-%d.txt" % (tag, i))
        with open(fn, "w") as f:
            f.writelines(lines[i::nchunks])
        files.append(fn)
    procs = []
    for fn in files:
        fin = open(fn, "rb")
        fout = open(fn + ".out", "wb")      # to a file: a full pipe would serialise the processes
        ferr = open(fn + ".err", "wb")
        procs.append((subprocess.Popen(cmd, stdin=fin, stdout=fout, stderr=ferr), fin, fout, ferr, fn))
    res, orc, errs, rc = {}, [], "", 0
    deadline = time.time() + timeout
    for p, fin, fout, ferr, fn in procs:
        try:
            p.wait(timeout=max(1, deadline - time.time()))
        except subprocess.TimeoutExpired:
            p.kill()
            p.wait()
            rc = rc or 124
        for f in (fin, fout, ferr):
            f.close()
        rc = rc or p.returncode
        errs += open(fn + ".err", "rb").read().decode("utf-8", "replace")[-500:]
        with open(fn + ".out", "rb") as f:
            for raw in f:
                line = raw.decode("utf-8", "replace").rstrip("\n")
                if not line:
                    continue
                if line[0] == "!":
                    i, _, t = line[1:].partition(" ")
                    orc.append((i, t))
                    continue
                i, _, t = line.partition(" ")
                res[i] = t
    return rc, res, orc, errs


def run_stream(ctx, model, impl, cases, tag):
    lines = ["%s %s %s\n" % (cid, op, " ".join(args)) for cid, op, args in cases]
    t0 = time.time()
    rc1, mres, _, merr = run_par([model], lines, min(8, vlib.NCPU), ctx.work, tag + "m")
    t1 = time.time()
    rc2, ires, orc, ierr = run_par([impl], lines, 2, ctx.work, tag + "i")
    t2 = time.time()
    return rc1, rc2, mres, ires, orc, merr + ierr, (round(t1 - t0, 2), round(t2 - t1, 2))


def sweep(ctx, impl, nproc):
    """thorough: all 2^32 compact values inside the harness (C port of the proved spec vs the library)"""
    chunks = []
    per = (1 << 32) // nproc
    procs = []
    for i in range(nproc):
        lo = i * per
        hi = (1 << 32) if i == nproc - 1 else (i + 1) * per
        p = subprocess.Popen([impl], stdin=subprocess.PIPE, stdout=subprocess.PIPE, stderr=subprocess.PIPE)
        p.stdin.write(("s%d sweep %x %x\n" % (i, lo, hi)).encode())
        p.stdin.close()
        procs.append((p, lo, hi))
    total = 0
    bad = []
    for p, lo, hi in procs:
        out = p.stdout.read().decode()
        p.wait()
        ok = False
        for line in out.split("\n"):
            t = line.split()
            if len(t) >= 3 and t[1] == "SWEEP-OK":
                total += int(t[2], 16)
                ok = True
            elif len(t) >= 3 and t[1] == "SWEEP-MISMATCH":
                bad.append((t[2], " ".join(t[3:])))
                ok = True
        if not ok:
            ctx.broken.append("compact-sweep: no result for chunk %x..%x" % (lo, hi))
    return total, bad


def run(ctx):
    ctx.prove()
    okm, model, mlog = vlib.build_model("C18")
    okh, hs, hlog = vlib.build_harness(["h_C18"])
    if not okm:
        ctx.broken.append("model-build: " + mlog[-300:])
    if not okh:
        ctx.broken.append("harness-build: " + hlog[-300:])
    if not (okm and okh):
        return
    impl = hs["h_C18"]
    thorough = ctx.tier == "thorough"
    g = Gen(ctx)
    corpus_ids = set()
    if ctx.replay and "cases" in ctx.replay:
        for c in ctx.replay["cases"]:
            g.cases.append((c[0], c[1], list(c[2])))
            g.hist[c[1]] = g.hist.get(c[1], 0) + 1
    else:
        # corpus first: minimised past failures / witnesses
        if os.path.isdir(CORPUS):
            for fn in sorted(os.listdir(CORPUS)):
                if fn.endswith(".json"):
                    try:
                        obj = json.load(open(os.path.join(CORPUS, fn)))
                    except Exception:
                        continue
                    for c in obj.get("cases", []):
                        cid = "k%d" % (len(corpus_ids) + 1)
                        corpus_ids.add(cid)
                        g.cases.append((cid, c[1], list(c[2])))
                        g.hist[c[1]] = g.hist.get(c[1], 0) + 1
        g.compact(3000 if not thorough else 200000)
        g.u256(npairs=1200 if not thorough else 0, nrand=700 if not thorough else 40000, thorough=thorough)
        g.text(thorough)
        g.address(40 if not thorough else 1500)
    cases = g.cases
    byid = {c[0]: c for c in cases}
    rc1, rc2, mres, ires, orc, err, times = run_stream(ctx, model, impl, cases, "main")
    bad = vlib.diff_results(mres, ires)
    ctx.cov["evaluations"] = len(cases)
    ctx.cov["distinct_nontrivial"] = len({(op, tuple(a)) for _, op, a in cases})
    ctx.cov["rule"] = ("distinct = distinct (op, arguments) lines; every line is one call of a public function of the "
                       "library compared with the extracted model; see input_distribution")
    ctx.cov["input_distribution"] = {
        "op_histogram": dict(sorted(g.hist.items())),
        "boundary_classes": g.notes,
        "corpus_cases": len(corpus_ids),
        "outcome_kinds": {
            "THROW": sum(1 for v in ires.values() if v == "THROW"),
            "INVALID": sum(1 for v in ires.values() if v.startswith("INVALID")),
            "OK": sum(1 for v in ires.values() if v.startswith("OK")),
        },
        "text_lengths": {
            "max_encoder_input": max([len(a[0]) // 2 for _, op, a in cases if op in ("b58enc", "b59enc", "hexstr")] + [0]),
            "max_decoder_input": max([len(a[0]) // 2 for _, op, a in cases if op in ("b58dec", "b59dec", "parsehex")] + [0]),
        },
        "seconds_model_impl": times,
    }
    for c in cases[:2] + cases[len(cases) // 2: len(cases) // 2 + 2] + cases[-2:]:
        ctx.sample({"case": [c[0], c[1], [x[:80] for x in c[2]]], "model": (mres.get(c[0]) or "")[:120],
                    "impl": (ires.get(c[0]) or "")[:120]})
    ctx.cov["disagreements_checked"] = len(cases)
    # DESIGN 6: the extracted OCaml model is cross-checked against vm_compute on the Gallina definitions
    # themselves, on a sample of this run's own cases (a difference is a machinery error, not a violation)
    t0 = time.time()
    nx, xbad = _c18x.crosscheck(ctx, cases, mres, 400 if thorough else 40)
    ctx.cov["input_distribution"]["seconds_extraction_crosscheck"] = round(time.time() - t0, 2)
    ctx.cov.setdefault("extraction_crosschecked", 0)
    # sha256 values fed to the model are the library's
    if g.hashed:
        hin = os.path.join(ctx.work, "sha.txt")
        items = list(g.hashed.items())
        with open(hin, "w") as f:
            for i, (k, v) in enumerate(items):
                f.write("h%d sha %s\n" % (i, hx(k)))
        _, hres, _, _ = vlib.run_lines([impl], hin)
        wrong = [i for i, (k, v) in enumerate(items) if hres.get("h%d" % i) != hx(v)]
        ctx.cov["input_distribution"]["sha256_values_cross_checked"] = len(items)
        if wrong:
            ctx.broken.append("sha256: hashlib and the library differ on %s" % hx(items[wrong[0]][0]))
    # a disagreement / oracle failure is re-run once on its own to exclude flakiness, then reported
    suspects = list(dict.fromkeys(bad + [i for i, _ in orc]))
    confirmed = []
    if suspects:
        sub = [byid[i] for i in suspects if i in byid]
        _, _, m2, i2, o2, _, _ = run_stream(ctx, model, impl, sub, "recheck")
        o2ids = {i for i, _ in o2}
        for c in sub:
            if m2.get(c[0]) != i2.get(c[0]) or c[0] in o2ids:
                confirmed.append((c, m2.get(c[0]), i2.get(c[0]), [t for i, t in o2 if i == c[0]]))
    ctx.cov["traces_validated_against_impl"] = len(cases) - len(confirmed)
    # the model IS the proved specification: a disagreement is a concrete failing input
    seen_ops = set()
    for c, m, i, o in sorted(confirmed, key=lambda x: (x[0][0] not in corpus_ids, sum(len(a) for a in x[0][2]))):
        if c[1] in seen_ops and len(seen_ops) < 5:
            continue
        seen_ops.add(c[1])
        ctx.violation({"kind": "input", "cases": [[c[0], c[1], c[2]]], "model": m, "impl": i, "oracle": o,
                       "what": ("direct oracle failed on the implementation" if o else
                                "implementation differs from the proved specification (extracted Coq model)")})
    if rc1 != 0 or rc2 != 0:
        ctx.broken.append("runner: model rc=%d impl rc=%d %s" % (rc1, rc2, err[-300:]))
    missing = [c[0] for c in cases if c[0] not in mres or c[0] not in ires]
    if missing and not confirmed:
        ctx.broken.append("runner: %d cases without a result, first %s" % (len(missing), byid[missing[0]][:2]))
    partial = [t for t in ctx.cov.get("theorems", []) if t.endswith("_partial")]
    ctx.cov["partial"] = partial
    tb = ctx.cov.setdefault("trusted_base", [])
    tb.append("sha256: Section variable of the address theorems; values supplied per case and cross-checked against the library")
    tb.append("tools/gen_text_tables.py: regex parse of the C++ initialisers (fails closed), output coq/Gen/TextTables.v")
    tb.append("extraction: %d sampled cases of this run re-evaluated in Coq (vm_compute on the Gallina definitions, generated "
              "cases.v) and compared with the extracted OCaml model" % ctx.cov.get("extraction_crosschecked", 0))
    tb.append("modelled, not verified: the compiled C++ itself (tied to the models only by this run's comparison)")
    if thorough and not ctx.replay:
        t0 = time.time()
        total, sbad = sweep(ctx, impl, min(16, vlib.NCPU))
        ctx.cov["compact_sweep"] = {"values": total, "exhaustive": total == (1 << 32), "seconds": round(time.time() - t0, 1),
                                    "mismatches": len(sbad)}
        ctx.cov["exhaustive"] = total == (1 << 32)
        tb.append("compact sweep: C port of the proved fromBits/toBits specification inside harness/h_C18.cpp is trusted glue, "
                  "validated against the extracted model on every pfrombits/ptobits case of the quick stream")
        if total != (1 << 32) and not sbad:
            ctx.broken.append("compact-sweep: covered %d of 2^32 values" % total)
        for cval, text in sbad[:3]:
            ctx.violation({"kind": "input", "cases": [["s1", "frombits", [cval]], ["s2", "pfrombits", [cval]]],
                           "what": "compact sweep: library differs from the C port of the proved specification: " + text})
