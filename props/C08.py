"""C08 — invalidation marks exactly the subtree; revalidation restores it."""
import vlib
from props import _tree

LEVEL = "proof"
HARNESSES = [("h_tree", "rel")]
ASSUMPTIONS = [
    "the ALT model covers blocks with EMPTY PopData (hdr/body/set/inv/reval/rm/rmpl); BLOCK_FAILED_POP is injected through "
    "the public invalidateSubtree(.., BLOCK_FAILED_POP)",
    "calls outside the documented preconditions (VBK_ASSERT in the library) are Abort in the model and are not issued to "
    "the implementation (harness answers SKIP): FAILED_POP on a block at BLOCK_CAN_BE_APPLIED, acceptBlock connecting a "
    "block that carries FAILED_POP",
    "restoration oracle (inv + reval returns every flag and the tip set) is claimed only for base states without a stale "
    "FAILED_CHILD (removeSubtree drops FAILED_POP of removed blocks but keeps FAILED_CHILD of their descendants; the next "
    "revalidation passing over such a flag clears it)",
    "PoW tree: the iteration order of the unordered tips_ set in doUpdateTips is taken from the implementation "
    "(getTips() after the call) and handed to the model; theorems hold for every order",
]
META = {
    "text": "Coq theorems (all tree shapes, blocks, both reasons, all interleavings, ALT tree with empty payloads and PoW tree) "
            "on the executable model coq/Tree/TreeDefs.v: invalidate_exact and revalidate_exact in descendant-closure form "
            "(outside subtree(b) no failure flag changes, b gets/loses exactly the reason, proper descendants keep their own flags "
            "and all carry FAILED_CHILD after invalidation; after revalidation FAILED_CHILD inside subtree(b) is carried exactly "
            "below failed blocks, so descendants invalid for another reason stay invalid), every early exit included; inv_reval_id: "
            "revalidate(invalidate s b r) b r restores the three failure flags of EVERY block and the TIP SET when b did not carry r "
            "and no FAILED_CHILD inside subtree(b) was stale (the active tip moves to the parent of b when b was on the best chain "
            "and stays there in the ALT tree / is re-determined by chain work in the PoW tree); FAILED_CHILD is a function of the own "
            "flags (algebra of nested inv/reval); best_chain_never_invalid for every operation of both trees incl. the intermediate "
            "state inside invalidateSubtree; the flag invariant and the non-failed tip are preserved by arbitrary op lists. "
            "The tie to the code is the per-step comparison with AltBlockTree / BlockTree<BtcBlock> (exhaustive over tree shapes x "
            "op sequences, random histories), the direct oracle of harness/h_tree.cpp evaluated on the implementation around "
            "every inv/reval, and handlers on the library's own notification points (onBlockValidityChanged, onBeforeOverrideTip "
            "of the ALT, VBK, BTC and standalone PoW trees) that walk the best chain INSIDE every operation and report a failed or "
            "removed block on it (the intermediate state of C08_best_chain_inside_invalidate tied to the code)",
    "note": "Trusted: Coq kernel, extraction, OCaml driver, C++ harness; the preorder traversals are modelled as one oldest-first "
            "pass (validated by the correspondence run). Stale FAILED_CHILD (removeSubtree drops FAILED_POP but keeps the "
            "descendants' FAILED_CHILD) is code behaviour: restoration theorems and the restoration oracle assume its absence "
            "inside subtree(b)",
    "technique": "Coq proof (invariants over newest-first block lists, pointwise traversal characterisation) + extraction-based "
                 "differential correspondence + direct oracle on the implementation",
}


def build(ctx):
    okm, model, mlog = vlib.build_model("Tree")
    okh, hs, hlog = vlib.build_harness(["h_tree"])
    if not okm:
        ctx.broken.append("model-build: " + mlog[-300:])
    if not okh:
        ctx.broken.append("harness-build: " + hlog[-300:])
    return (model, hs.get("h_tree")) if (okm and okh) else (None, None)


def run(ctx):
    ctx.prove()
    model, harness = build(ctx)
    if model is None:
        return
    sc = _tree.Script()
    stats = {}
    if ctx.replay and "script" in ctx.replay:
        for l in ctx.replay["script"]:
            sc.add(l)
        sc.cases.append((0, len(sc.lines) - 1, "replay"))
    else:
        quick = ctx.tier == "quick"
        _tree.add_corpus("C08", sc)
        # exhaustive: every shape x every (block, reason) x every sequence of nested inv/reval ops
        for kind in ("P", "T"):
            if quick:
                _tree.exhaustive(kind, 4, 3, sc, stats)
                _tree.exhaustive(kind, 6, 1, sc, stats)
            else:
                _tree.exhaustive(kind, 4, 4, sc, stats)
                _tree.exhaustive(kind, 5, 3, sc, stats)
                _tree.exhaustive(kind, 7, 2, sc, stats)
        n = 60 if quick else 400
        for i in range(n):
            _tree.random_history("T" if i % 2 == 0 else "P", ctx.rng.fork(), 60 if quick else 120, 14, sc, stats)
    ctx.cov["tree"] = dict(stats)
    ctx.cov["exhaustive"] = True
    ctx.cov["rule"] = ("exhaustive: all unlabelled rooted tree shapes x all sequences of inv/reval over (block, reason) "
                       "(quick: <=4 blocks x length 3, <=6 blocks x length 1; thorough: <=4 blocks x length 4, <=5 x 3, <=7 x 2), each followed by "
                       "revalidation of everything invalidated; random: ALT/PoW histories of hdr/body(random order)/set/inv/reval/"
                       "rm/rmpl/re-add; distinct = distinct script lines")
    res = _tree.correspondence(ctx, model, harness, sc, "C08")
    _tree.known_finding_readd(ctx, harness)
    ctx.cov["distinct_nontrivial"] = len(set(sc.lines))
    for l in sc.numbered()[5:8]:
        i = l.partition(" ")[0]
        ctx.sample({"line": l, "model": res["mod"].get(i), "impl": res["impl"].get(i)})
