"""C08 — invalidation marks exactly the subtree; revalidation restores it."""
import vlib
from props import _tree

LEVEL = "proof"
HARNESSES = [("h_tree", "rel")]
ASSUMPTIONS = [
    "the ALT model covers blocks with EMPTY PopData (hdr/body/set/inv/reval/rm/rmpl); BLOCK_FAILED_POP is injected through "
    "the public invalidateSubtree(.., BLOCK_FAILED_POP)",
    "calls outside the documented preconditions (VBK_ASSERT in the library) are Abort in the model and are not issued to "
    "the implementation (harness answers SKIP): FAILED_POP on a block at BLOCK_CAN_BE_APPLIED, acceptBlock connecting a "
    "block that carries FAILED_POP",
    "restoration oracle (inv + reval returns every flag and the tip set) is claimed only for base states without a stale "
    "FAILED_CHILD (removeSubtree drops FAILED_POP of removed blocks but keeps FAILED_CHILD of their descendants; the next "
    "revalidation passing over such a flag clears it)",
    "PoW tree: the iteration order of the unordered tips_ set in doUpdateTips is taken from the implementation "
    "(getTips() after the call) and handed to the model; theorems hold for every order",
]
META = {
    "text": "Coq theorems (all tree shapes, blocks, both reasons, all interleavings, both tree kinds) on the executable model "
            "coq/Tree/TreeDefs.v: invalidateSubtree and revalidateSubtree, every early exit included, preserve the flag invariant "
            "(proper tree, failed parent => FAILED_CHILD, so every descendant of an invalid block is failed and descendants invalid "
            "for another reason stay invalid); pointwise exactness of the traversal (only FAILED_CHILD of visited blocks changes); "
            "lifted over arbitrary op lists of inv/reval/rm/setState. _partial / not proved: inv_reval_id (restoration of flags and "
            "tips), the tip-set and active-chain conjuncts, best_chain_never_invalid - these are decided on the implementation by "
            "the direct oracle of harness/h_tree.cpp around every inv/reval (subtree unusable, outside unchanged, best chain off the "
            "subtree and free of failed blocks, flags and tips restored once everything invalidated is revalidated) and by the "
            "per-step comparison with the model (exhaustive over tree shapes x op sequences, and random histories)",
    "note": "Trusted: Coq kernel, extraction, OCaml driver, C++ harness; the traversals are modelled as one oldest-first pass",
    "technique": "Coq proof (invariant over newest-first block lists) + extraction-based differential correspondence",
}


def build(ctx):
    okm, model, mlog = vlib.build_model("Tree")
    okh, hs, hlog = vlib.build_harness(["h_tree"])
    if not okm:
        ctx.broken.append("model-build: " + mlog[-300:])
    if not okh:
        ctx.broken.append("harness-build: " + hlog[-300:])
    return (model, hs.get("h_tree")) if (okm and okh) else (None, None)


def run(ctx):
    ctx.prove()
    model, harness = build(ctx)
    if model is None:
        return
    sc = _tree.Script()
    stats = {}
    if ctx.replay and "script" in ctx.replay:
        for l in ctx.replay["script"]:
            sc.add(l)
        sc.cases.append((0, len(sc.lines) - 1, "replay"))
    else:
        quick = ctx.tier == "quick"
        _tree.add_corpus("C08", sc)
        # exhaustive: every shape x every (block, reason) x every sequence of nested inv/reval ops
        for kind in ("P", "T"):
            if quick:
                _tree.exhaustive(kind, 4, 3, sc, stats)
                _tree.exhaustive(kind, 6, 1, sc, stats)
            else:
                _tree.exhaustive(kind, 4, 4, sc, stats)
                _tree.exhaustive(kind, 5, 3, sc, stats)
                _tree.exhaustive(kind, 7, 2, sc, stats)
        n = 60 if quick else 400
        for i in range(n):
            _tree.random_history("T" if i % 2 == 0 else "P", ctx.rng.fork(), 60 if quick else 120, 14, sc, stats)
    ctx.cov["tree"] = dict(stats)
    ctx.cov["exhaustive"] = True
    ctx.cov["rule"] = ("exhaustive: all unlabelled rooted tree shapes x all sequences of inv/reval over (block, reason) "
                       "(quick: <=4 blocks x length 3, <=6 blocks x length 1; thorough: <=4 blocks x length 4, <=5 x 3, <=7 x 2), each followed by "
                       "revalidation of everything invalidated; random: ALT/PoW histories of hdr/body(random order)/set/inv/reval/"
                       "rm/rmpl/re-add; distinct = distinct script lines")
    res = _tree.correspondence(ctx, model, harness, sc, "C08")
    _tree.known_finding_readd(ctx, harness)
    ctx.cov["distinct_nontrivial"] = len(set(sc.lines))
    for l in sc.numbered()[5:8]:
        i = l.partition(" ")[0]
        ctx.sample({"line": l, "model": res["mod"].get(i), "impl": res["impl"].get(i)})
