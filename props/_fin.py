"""C09 stage "final-block guard on an NDEBUG build" (harness/h_fin.cpp, library variant `ndebug`).

The other C09 stages run on a library built WITH debug assertions and never ask for a state change that would
unapply a final block (the World answers SKIP: it is outside the documented precondition). This stage asks for
exactly those state changes, on the build flavour that ships (NDEBUG), each in a child process:

    on A guard <a> set|rm|inv      (see harness/h_fin.cpp for the answer format and the oracle)

Histories (WorldGen of props/_world.py, one instance A):
  step   A is a loaded instance from the start (save + reload): every tip change finalizes; saveTrees after every
         step. Stale forks are created EARLY (while final - preserve is still below the bootstrap block, so being
         a sibling of the final block does not deallocate them) and LATE (on a parent that is already at least
         two blocks below the final block, inside the preserved window).
  jump   A is a plain instance while the chain and forks at every depth are built; then save + reload and a few
         more blocks: ONE finalization jumps from the bootstrap block to tip - maxreorg and moves the root; the forks
         inside the preserved window that are not siblings of the final block survive it.
  lazy   as step, but saveTrees only every third step (unsaved blocks hold the final block back).
At several checkpoints of every history: `guard set` on every fork tip (and an inner fork block) still known to the
generator, `guard set|rm|inv` on active blocks at several depths (final block, its parent, just above the root, a
random one in between) and as controls on blocks above the final block / forks above it.

A guard attempt never changes the state of A (it runs in a child), so a failing history is reported as the
state-changing lines up to the attempt plus the attempt itself.
"""
import json
import os
from collections import Counter

import vlib
from props import _world as W

CFG = {"alt_ki": 3, "alt_settle": 4, "alt_preserve": 12, "alt_maxreorg": 8, "payout_delay": 4, "payout_avg": 2,
       "vbk_settle": 10, "vbk_preserve": 10, "vbk_maxreorg": 60, "vbk_ki": 3}

# fixed per tier: (flavour, histories, main chain length range)
PLAN = {
    "quick": [("step", 4, (24, 34)), ("jump", 3, (22, 30)), ("lazy", 2, (24, 32))],
    "thorough": [("step", 40, (24, 48)), ("jump", 30, (22, 44)), ("lazy", 20, (24, 44))],
}


class FinHistory:
    def __init__(self, rng, cfg, flavour, length):
        self.r = rng
        self.cfg = cfg
        self.flavour = flavour
        self.g = W.WorldGen(rng, cfg)
        self.main = ["a0"]
        self.forks = []          # lists of ids, fork point excluded
        self.nguards = 0
        self.length = length
        self.maxreorg = cfg["alt_maxreorg"]
        self.preserve = cfg["alt_preserve"]
        self.loaded = False
        self.steps = 0

    # ---- emit helpers
    def on(self, *w):
        self.g.emit("on A " + " ".join(w))

    def save(self, force=False):
        self.steps += 1
        if force or self.flavour != "lazy" or self.steps % 3 == 0:
            self.on("save")

    def reload(self):
        self.on("save")
        self.on("reload")
        self.loaded = True

    def show(self, a):
        self.on("hdr", a)
        self.on("body", a)

    def est_final(self):
        return max(0, len(self.main) - 1 - self.maxreorg) if self.loaded else 0

    def est_root(self):
        return max(0, self.est_final() - self.preserve)

    # ---- building blocks
    def grow_main(self):
        r = self.r
        if r.chance(1, 2):
            a = self.g.honest_block(self.main[-1], empty_chance=(1, 4))
        else:
            a = self.g.new_alt(self.main[-1])
            self.g.set_pd(a)
        self.main.append(a)
        self.show(a)
        self.on("set", a)
        self.save()

    def add_fork(self, p, n):
        """n blocks on top of main[p]; bodies empty (valid on every parent), never activated"""
        ids = []
        parent = self.main[p]
        for _ in range(n):
            a = self.g.new_alt(parent)
            self.g.set_pd(a)
            self.show(a)
            ids.append(a)
            parent = a
        self.forks.append((p, ids))
        self.save(force=True)

    def guards(self):
        r = self.r
        h = len(self.main) - 1
        f, root = self.est_final(), self.est_root()
        for p, ids in self.forks:
            if p < root:
                continue
            self.on("guard", ids[-1], "set")
            if len(ids) > 1 and r.chance(1, 2):
                self.on("guard", ids[0], "set")
            self.nguards += 1
        depths = {f, f - 1, f - 3, root + 1, root + 2, f + 1, f + 2, h, h - 1}
        if f - root > 3:
            depths.add(r.range(root + 1, f - 1))
        for d in sorted(x for x in depths if root < x <= h):
            for path in ("set", "rm", "inv"):
                self.on("guard", self.main[d], path)
                self.nguards += 1
        self.on("fstate")

    def build(self):
        r = self.r
        L = self.length
        early_until = self.preserve            # final block <= preserve - ... : the root has not moved yet
        if self.flavour in ("step", "lazy"):
            self.reload()
            checkpoints = {12, 16, 20, 23, 26, 30, 34, 38, 42, 46, L}
            for h in range(1, L + 1):
                self.grow_main()
                # early forks: created while the final block is still at or below the fork point's child
                if h <= early_until + self.maxreorg and r.chance(2, 5):
                    p = r.range(max(0, h - 8), h - 1)
                    self.add_fork(p, r.range(1, 3))
                # late forks: parent at least two blocks below the final block, inside the preserved window
                f, root = self.est_final(), self.est_root()
                if f - 2 > root and r.chance(1, 4):
                    self.add_fork(r.range(root + 1, f - 2), r.range(1, 2))
                # controls: forks above the final block
                if h > self.maxreorg and r.chance(1, 4):
                    self.add_fork(r.range(f, h - 1), r.range(1, 2))
                if h in checkpoints:
                    self.guards()
        else:
            L0 = L - r.range(1, 4)
            for h in range(1, L0 + 1):
                self.grow_main()
                if r.chance(1, 2):
                    self.add_fork(r.range(0, h - 1), r.range(1, 3))
            self.guards()                       # nothing is final yet: every attempt is a control
            self.reload()
            for h in range(L0 + 1, L + 1):
                self.grow_main()
                if r.chance(1, 2):
                    f, root = self.est_final(), self.est_root()
                    if f - 2 > root:
                        self.add_fork(r.range(root + 1, f - 2), 1)
                self.guards()
        return self


def script_of(histories):
    """-> (lines with ids, {id: (history no, index in that history's line list)})"""
    out, where = [], {}
    for hno, h in histories:
        for k, l in enumerate(h.g.lines):
            i = "h%d_%d" % (hno, k + 1)
            out.append("%s %s" % (i, l))
            where[i] = (hno, k)
    return out, where


def run_lines(binary, lines, work, name, timeout=900):
    p = os.path.join(work, name)
    with open(p, "w") as f:
        f.write("\n".join(lines) + "\n")
    return vlib.run_lines([binary], p, timeout=timeout)


def is_guard(line):
    w = line.split()
    return len(w) >= 3 and w[0] == "on" and w[2] in ("guard", "fstate")


def minimal_lines(hlines, k):
    """state-changing lines before position k plus the attempt at k (guard attempts run in a child process)"""
    return [l for l in hlines[:k] if not is_guard(l)] + [hlines[k]]


def without_other_forks(h, lines):
    """drop the blocks of every stale fork the final attempt does not touch (fork bodies are empty: no mined ids shift)"""
    target = lines[-1].split()[3] if len(lines[-1].split()) > 3 else None
    drop = set()
    for _, ids in h.forks:
        if target not in ids:
            drop |= set(ids)
    return [l for l in lines if not (set(l.split()) & drop)]


def run_one(binary, work, lines, name):
    ided = ["r%d %s" % (i + 1, l) for i, l in enumerate(lines)]
    rc, res, orc, err = run_lines(binary, ided, work, name, timeout=600)
    return rc, res, orc, err


def report(ctx, binary, lines, text, key=None):
    """re-run (flakiness), then report; the replay is the concrete history ending in the attempt"""
    rc, res, orc, err = run_one(binary, ctx.work, lines, "fin_confirm.txt")
    if not orc and rc == 0:
        rc, res, orc, err = run_one(binary, ctx.work, lines, "fin_confirm2.txt")
        if not orc and rc == 0:
            ctx.broken.append("fin: not reproducible on its own: " + text[:300])
            return
    what = orc[0][1] if orc else ("h_fin died rc=%d: %s" % (rc, (err or "")[-300:]))
    ctx.violation({"kind": "fin", "cfg": CFG, "lines": lines, "what": what,
                   "answer": res.get("r%d" % len(lines), ""),
                   "how": "replay: pipe the lines (prefixed with ids) into build/h-ndebug/bin/h_fin; the last line is "
                          "the direct call made in a child process on the NDEBUG library; `!id` marks the violation"},
                  key=key)


def corpus_cases():
    d = os.path.join(vlib.VERIF, "corpus", "C09")
    out = []
    if os.path.isdir(d):
        for f in sorted(os.listdir(d)):
            if f.endswith(".fin"):
                out.append((f, json.load(open(os.path.join(d, f)))))
    return out


def run(ctx):
    """extra stage of props/C09.py; returns the number of histories evaluated"""
    ok, hs, log = vlib.build_harness(["h_fin"], "ndebug")
    if not ok:
        ctx.broken.append("harness-build h_fin/ndebug: " + log[-300:])
        return 0
    binary = hs["h_fin"]
    stats = Counter()

    if ctx.replay and ctx.replay.get("kind") == "fin":
        rc, res, orc, err = run_one(binary, ctx.work, ctx.replay["lines"], "fin_replay.txt")
        if orc or rc != 0:
            report(ctx, binary, ctx.replay["lines"], "replay", key=ctx.replay.get("key"))
        ctx.cov["evaluations"] = 1
        return 1

    # corpus witnesses first
    for fname, c in corpus_cases():
        stats["corpus"] += 1
        rc, res, orc, err = run_one(binary, ctx.work, c["lines"], "fin_corpus%d.txt" % stats["corpus"])
        if orc or rc != 0:
            cl = list(c["lines"])
            ks = [int(i[1:]) - 1 for i, _ in orc if i[1:].isdigit()]
            if ks and rc == 0:
                cl = minimal_lines(cl, min(ks))
            report(ctx, binary, cl, fname, key=c.get("key"))
        else:
            for chk in c.get("expect", []):
                got = res.get("r%d" % chk["line"], "")
                if got != chk["answer"]:
                    # the witness no longer exercises what it was written for (not a property violation by itself)
                    ctx.broken.append("fin-corpus %s: line %d answered %r, expected %r" % (fname, chk["line"], got, chk["answer"]))

    plan = PLAN["quick" if ctx.tier == "quick" else "thorough"]
    histories = []
    hno = 0
    for flavour, count, (lo, hi) in plan:
        for _ in range(count):
            hno += 1
            r = ctx.rng.fork()
            histories.append((hno, FinHistory(r, CFG, flavour, r.range(lo, hi)).build()))
            stats["histories_" + flavour] += 1
    byno = dict(histories)
    lines, where = script_of(histories)
    rc, res, orc, err = run_lines(binary, lines, ctx.work, "fin_all.txt")

    # registry in step with the generator (ids of mined blocks)
    for hno_, h in histories:
        for k, e in enumerate(h.g.expect):
            if e is None:
                continue
            got = res.get("h%d_%d" % (hno_, k + 1))
            if got is not None and got != e:
                ctx.broken.append("fin-generator/registry out of step: h%d line %d %r expected %r got %r"
                                  % (hno_, k + 1, h.g.lines[k], e, got))
                break

    per_hist_below = Counter()
    mainset = {n_: set(h.main) for n_, h in histories}
    for i, (hno_, k) in where.items():
        l = byno[hno_].g.lines[k]
        w = l.split()
        if len(w) >= 5 and w[2] == "guard":
            a = res.get(i)
            if a is None:
                continue
            aw = a.split()
            stats["attempts"] += 1
            if aw[0] == "SKIP":
                stats["skip:" + " ".join(aw[1:2])] += 1
                continue
            stats["%s:%s:%s" % (w[4], aw[0], aw[1] if len(aw) > 1 else "?")] += 1
            if w[4] == "set" and w[3] not in mainset[hno_]:
                stats["set_on_stale_fork:%s" % aw[0]] += 1
            if aw[0] in ("below", "final"):
                stats["guarded_attempts"] += 1
                per_hist_below[hno_] += 1
            else:
                stats["control_attempts"] += 1
        elif len(w) >= 3 and w[2] == "fstate":
            a = res.get(i, "")
            if "root=" in a and not a.startswith("root=a0 "):
                stats["checkpoints_root_moved"] += 1
            if "final=" in a and " final=a0 " not in a:
                stats["checkpoints_finalized"] += 1
    stats["histories_with_guarded_attempts"] = len(per_hist_below)

    reported = 0
    failing = {}
    for i, text in orc:
        if i in where:
            hno_, k = where[i]
            if hno_ not in failing or k < failing[hno_][0]:
                failing[hno_] = (k, text)
    if rc != 0:
        # the session itself died: the history that was executing, up to the first unanswered line
        last = None
        for i in where:
            if i in res:
                last = where[i] if last is None or where[i] > last else last
        if last is not None:
            hno_, k = last
            k = min(k + 1, len(byno[hno_].g.lines) - 1)
            if hno_ not in failing:
                failing[hno_] = (k, "h_fin died rc=%d after line %d: %s" % (rc, k, (err or "")[-200:]))
                # a dying parent cannot be a child attempt: keep every line
                report(ctx, binary, list(byno[hno_].g.lines[:k + 1]), failing[hno_][1])
                reported += 1
                del failing[hno_]
    for hno_, (k, text) in sorted(failing.items())[:2]:
        ml = minimal_lines(byno[hno_].g.lines, k)
        small = without_other_forks(byno[hno_], ml)
        if len(small) < len(ml):
            rc1, _, orc1, _ = run_one(binary, ctx.work, small, "fin_small.txt")
            if orc1 and rc1 == 0:
                ml = small
        report(ctx, binary, ml, text)
        reported += 1
    stats["histories_reported"] = reported

    if not failing and rc == 0:
        # the stage must not lose its power silently: every batch has to reach the guarded paths
        if stats["guarded_attempts"] == 0 or stats["checkpoints_root_moved"] == 0:
            ctx.broken.append("fin-generator: no attempt reached a finalized block (guarded=%d root moved=%d)"
                              % (stats["guarded_attempts"], stats["checkpoints_root_moved"]))

    n = len(histories) + stats["corpus"]
    ctx.cov["evaluations"] = ctx.cov.get("evaluations", 0) + n
    ctx.cov["distinct_nontrivial"] = ctx.cov.get("distinct_nontrivial", 0) + stats["histories_with_guarded_attempts"]
    ctx.cov["final_guard_ndebug"] = {
        "rule": "one evaluation = one history with direct setState / removeSubtree / invalidateSubtree attempts in child "
                "processes on the NDEBUG library; non-trivial = at least one attempt had to unapply a finalized block",
        "cfg": CFG, "plan(flavour,histories,length)": plan, "distribution": dict(sorted(stats.items()))}
    ctx.cov["traces_validated_against_impl"] = ctx.cov.get("traces_validated_against_impl", 0) + len(histories)
    return n
