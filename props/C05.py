"""C05 — stateless validation accepts a payload only if its proofs really hold (and accepts honest ones)."""
import json
import os
import vlib
from props import _c05gen as G

LEVEL = "proof"
HARNESSES = [("h_stateless", "rel"), ("h_stateless", "asan")]
ASSUMPTIONS = [
    "SHA-256, secp256k1 verification, address derivation, vBlake/progpow and the altchain header callback are "
    "oracles (Coq Section variables); theorems hold for every instantiation, premises on them are explicit",
    "in-memory vectors are shorter than 2^64 bytes (explicit premise zlen tx < 2^64)",
    "honest-payload completeness is tested on MockMiner output under regtest parameters",
]
META = {
    "text": "",
    "note": "",
    "technique": "Coq proof (induction over byte lists / path layers / call sequences) + extraction-based "
                 "differential correspondence + independent C++ embedding oracle + field-mutation oracle",
}
HDR_ADDR_CACHE = {}


def hx(b):
    return b.hex() if len(b) else "-"


class Cases:
    def __init__(self):
        self.cases = []
        self.hist = {}

    def add(self, kind, op, *args):
        cid = "c%d" % (len(self.cases) + 1)
        self.cases.append((cid, op, list(args)))
        self.hist[kind] = self.hist.get(kind, 0) + 1
        return cid


def gen_embed_cases(ctx, suffix, scale):
    """Bitcoin transaction layouts. `embedh` = honest layout that must be accepted (completeness
    oracle in the harness); `embed`/`split` = verdict compared with the model, soundness oracle."""
    r = ctx.rng
    C = Cases()

    def data80():
        return G.filler(r, 65) + suffix          # header bytes avoid 0x92: no stray magic start inside the data

    def both(kind, op, data, tx):
        C.add(kind, op, hx(data), hx(tx))
        C.add(kind + "/split", "split", hx(data), hx(tx))

    # A. contiguous at every offset, several tails
    for lead in range(0, 48):
        for tail in (0, 1, 7):
            d = data80()
            both("contiguous", "embedh", d, G.filler(r, lead) + d + G.filler(r, tail))
    # B. one foreign byte inserted at every position (the repaired subsequence defect)
    for pos in range(0, 81):
        d = data80()
        for lead in (0, 3):
            tx = G.filler(r, lead) + d[:pos] + G.filler(r, 1) + d[pos:] + G.filler(r, 2)
            both("foreign-byte", "embedh" if pos in (0, 80) else "embed", d, tx)
    # C. interleavings / subsequences
    for k in range(40 * scale):
        d = data80()
        mode = k % 4
        if mode == 0:
            tx = b"".join(G.filler(r, 1) + d[i:i + 1] for i in range(80))
        elif mode == 1:
            tx = b"".join(d[i:i + 2] + G.filler(r, 1) for i in range(0, 80, 2))
        elif mode == 2:
            tx = bytearray()
            for i in range(80):
                tx += G.filler(r, r.below(3)) + d[i:i + 1]
            tx = bytes(tx)
        else:
            cut = r.range(1, 79)
            tx = d[:cut] + G.filler(r, r.range(1, 4)) + d[cut:] + d[:cut]
        both("interleaved", "embed", d, tx + G.filler(r, r.below(3)))
    # D. every admissible split shape: n chunks x offset width x length width x table position
    for n in list(range(1, 9)) + [9, 12, 15]:
        for o in (4, 8, 12, 16):
            for s in (4, 5, 6, 7):
                for table_first in (False, True):
                    for _ in range(scale if n <= 8 else 1):
                        parts = G.compositions(r, 80, n, (1 << s) - 1)
                        if parts is None:
                            continue
                        maxgap = min(6, (1 << o) - 1)
                        gaps = [r.range(0 if k == 0 else 1, maxgap) for k in range(n)]
                        tx = G.split_tx(r, data_ := data80(), parts, gaps, o, s, table_first,
                                        tail=r.range(2, 4), lead=r.below(3))
                        if tx is None:
                            continue
                        both("split-n%d" % n, "embedh", data_, tx)
    # E. truncated last chunk / exact fit (chunk length boundary)
    for n in (1, 2, 3, 5, 8):
        for cut in (0, 1, 2, 5):
            parts = G.compositions(r, 80, n, 127)
            gaps = [r.range(1, 5) for _ in range(n)]
            d = data80()
            tx = G.split_tx(r, d, parts, gaps, 8, 7, True, tail=0, lead=1)
            if tx is None:
                continue
            both("truncated-%d" % cut, "embedh" if cut == 0 else "embed", d, tx[:len(tx) - cut])
    # F. stray magic / partial magic before the honest one (documented completeness limits: model decides)
    for k in range(12 * scale):
        d = data80()
        parts = G.compositions(r, 80, 2, 127)
        base = G.split_tx(r, d, parts, [0, r.range(1, 4)], 4, 7, False, tail=0, lead=0)
        body, real = base[:-6], base[-6:]
        stray = [bytes([0x92, 0x7a, 0x59, 0xff]), bytes([0x92]), bytes([0x92, 0x7a]),
                 bytes([0x92, 0x7a, 0x59, 0x10, 0x00, 0x01]), bytes([0x92, 0x7a, 0x59, 0x00]),
                 bytes([0x92, 0x7a, 0x59, 0x2f]) + r.bytes(5), bytes([0x92, 0x92]), bytes([0x92, 0x7a, 0x92])][k % 8]
        both("stray-magic-%d" % (k % 8), "embed", d, body + stray + real + G.filler(r, 1))
    # G. one chunk whose offset points to / just past the end of the transaction (repaired over-read)
    for size in (6, 7, 20, 86, 87, 100, 255, 300):
        for delta in (-81, -80, -79, -1, 0, 1, 2, 15, 255, 4000, 65535 - size):
            off = size + delta
            if not 0 <= off < 65536:
                continue
            d = data80()
            tab = G.encode_table([(off, 0)], 16, 4)
            if size < 3 + len(tab) + 2:
                continue
            tx = bytearray(G.MAGIC + tab + G.filler(r, size - 3 - len(tab)))
            if off + 80 <= size:
                tx[off:off + 80] = d
            both("offset-edge", "embed", d, bytes(tx))
    # H. fuzz: random descriptors and tables, short data for `split`
    for k in range(600 * scale):
        dl = r.choice([80, 80, 80, 0, 1, 5, 33, 100])
        d = data80() if dl == 80 else r.bytes(dl)
        n = r.range(0, 40)
        body = bytearray(r.bytes(n))
        desc = r.below(256) if r.chance(1, 2) else G.descriptor(r.range(0, 3), r.choice([4, 8]), r.choice([4, 7]))
        tab = bytearray(r.bytes(r.range(0, 12)))
        if r.chance(1, 2):
            for i in range(len(tab)):
                if r.chance(2, 3):
                    tab[i] = r.choice([0, 0, 1, 2, 0x10, 0x80])
        tx = bytes(body) + G.MAGIC + bytes([desc]) + bytes(tab) + r.bytes(r.range(0, 90))
        if r.chance(1, 4) and dl >= 1:
            p = r.below(len(tx))
            tx = tx[:p] + d[:r.range(1, dl)] + tx[p:]
        C.add("fuzz", "split", hx(d), hx(tx))
        if dl == 80:
            C.add("fuzz", "embed", hx(d), hx(tx))
    return C


def load_corpus():
    d = os.path.join(vlib.VERIF, "corpus", "C05")
    out = []
    if os.path.isdir(d):
        for f in sorted(os.listdir(d)):
            if f.endswith(".json"):
                j = json.load(open(os.path.join(d, f)))
                for i, (op, args) in enumerate(j.get("cases", [])):
                    out.append(("k_%s_%d" % (f[:-5], i), op, args))
    return out


def write_cases(path, cases):
    with open(path, "w") as f:
        for cid, op, args in cases:
            f.write("%s %s %s\n" % (cid, op, " ".join(args)))


def run_embed(ctx, model, harness, harness_asan):
    rc, res, _, err = vlib.run_lines([harness], _tmp(ctx, "addr.txt", "a addr\n"))
    suffix = bytes.fromhex(res.get("a", ""))
    if len(suffix) != 15:
        ctx.broken.append("harness: addr op failed: " + err[-200:])
        return
    scale = 1 if ctx.tier == "quick" else 12
    if ctx.replay and "cases" in ctx.replay:
        cases = [tuple(c) for c in ctx.replay["cases"]]
        hist = {"replay": len(cases)}
    else:
        C = gen_embed_cases(ctx, suffix, scale)
        cases = load_corpus() + C.cases
        hist = C.hist
    inp = os.path.join(ctx.work, "embed.txt")
    write_cases(inp, cases)
    rc1, mres, _, merr = vlib.run_lines([model], inp)
    rc2, ires, orc, ierr = vlib.run_lines([harness], inp)
    byid = {c[0]: c for c in cases}
    ctx.cov["evaluations"] += len(cases)
    ctx.cov["embedding"] = {"layout_histogram": hist,
                            "model_verdicts": _hist(mres.values()),
                            "tx_sizes": _sizes(len(c[2][1]) // 2 for c in cases if len(c[2]) > 1)}
    ctx.cov["distinct_nontrivial"] += len({(op, tuple(a)) for _, op, a in cases})
    for c in cases[:2] + cases[-1:]:
        ctx.sample({"case": [c[0], c[1], [a[:64] for a in c[2]]], "model": mres.get(c[0]), "impl": ires.get(c[0])})
    bad = vlib.diff_results(mres, ires)
    if bad:   # re-run once to exclude flakiness
        rc2b, ires2, orc2, _ = vlib.run_lines([harness], inp)
        bad = [i for i in bad if mres.get(i) != ires2.get(i)]
    ctx.cov["disagreements_checked"] += len(cases)
    ctx.cov["traces_validated_against_impl"] += len(cases) - len(bad)
    # direct oracle on the implementation
    for i, text in orc[:5]:
        c = byid.get(i)
        ctx.violation({"kind": "input", "cases": [list(c)] if c else [], "oracle": text,
                       "model": mres.get(i), "impl": ires.get(i)})
    # the model of these pure functions is the proved specification: a disagreement is a failing input
    for i in bad[:5]:
        c = byid.get(i)
        ctx.violation({"kind": "input", "cases": [list(c)] if c else [], "model": mres.get(i), "impl": ires.get(i),
                       "what": "checkBitcoinTransactionForPoPData/containsSplit differs from the proved model"})
    if rc1 != 0 or rc2 != 0:
        ctx.broken.append("runner(embed): model rc=%d impl rc=%d %s" % (rc1, rc2, (merr + ierr)[-300:]))
    # inputs on which the code before fix a50e5e9b read outside the buffer: run them under ASan as well
    v0 = [(cid, "splitv0", a) for cid, op, a in cases if op == "split"]
    v0inp = os.path.join(ctx.work, "v0.txt")
    write_cases(v0inp, v0)
    _, v0res, _, _ = vlib.run_lines([model], v0inp)
    oob = [byid[i] for i, v in v0res.items() if v.startswith("OOB")]
    ctx.cov["embedding"]["inputs_past_buffer_in_old_code"] = len(oob)
    if harness_asan and oob:
        lim = 40 if ctx.tier == "quick" else 2000
        sel = oob[:lim]
        ainp = os.path.join(ctx.work, "asan.txt")
        write_cases(ainp, sel)
        rca, ares, aorc, aerr = vlib.run_lines([harness_asan], ainp, env={"ASAN_OPTIONS": "detect_leaks=0"})
        ctx.cov["embedding"]["run_under_asan"] = len(sel)
        if rca != 0 or len(ares) != len(sel):
            first = next((c for c in sel if c[0] not in ares), sel[0])
            ctx.violation({"kind": "input", "cases": [list(first)], "what": "sanitizer abort in containsSplit",
                           "stderr": aerr[-1500:]})
        else:
            for c in sel:
                if ares.get(c[0]) != mres.get(c[0]):
                    ctx.violation({"kind": "input", "cases": [list(c)], "model": mres.get(c[0]), "impl": ares.get(c[0]),
                                   "what": "asan build differs from the proved model"})
                    break


def _tmp(ctx, name, text):
    p = os.path.join(ctx.work, name)
    open(p, "w").write(text)
    return p


def _hist(xs):
    h = {}
    for x in xs:
        h[x] = h.get(x, 0) + 1
    return h


def _sizes(xs):
    h = {}
    for x in xs:
        k = "<=80" if x <= 80 else "<=128" if x <= 128 else "<=256" if x <= 256 else ">256"
        h[k] = h.get(k, 0) + 1
    return h


def run(ctx):
    ctx.prove()
    okm, model, mlog = vlib.build_model("Stateless")
    okh, hs, hlog = vlib.build_harness(["h_stateless"], "rel")
    if not okm:
        ctx.broken.append("model-build: " + mlog[-300:])
    if not okh:
        ctx.broken.append("harness-build: " + hlog[-300:])
    if not (okm and okh):
        return
    oka, hsa, alog = vlib.build_harness(["h_stateless"], "asan")
    if not oka:
        ctx.broken.append("harness-build(asan): " + alog[-300:])
    ctx.cov["rule"] = ("distinct = distinct (op, arguments) lines; embedding layouts: contiguous at every offset, one foreign "
                       "byte at every position, interleavings, every n x offset-width x length-width x table-position split "
                       "shape, truncations, stray/partial magics, offsets at/past the end, fuzzed descriptors")
    run_embed(ctx, model, hs["h_stateless"], hsa.get("h_stateless") if oka else None)
    ctx.cov["trusted_base"] = [
        "section variables (oracles): sha256d, sha256, verify, address derivation, PoW predicates, altchain header check",
        "harness/h_stateless.cpp incl. its independent embedding decoder; props/_c05gen.py split encoder",
    ]
