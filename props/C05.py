"""C05 — stateless validation accepts a payload only if its proofs really hold (and accepts honest ones)."""
import json
import os
import vlib
from props import _c05gen as G

LEVEL = "proof"
HARNESSES = [("h_stateless", "rel"), ("h_stateless", "asan")]
ASSUMPTIONS = [
    "SHA-256, secp256k1 verification, address derivation, vBlake/progpow and the altchain header callback are "
    "oracles (Coq Section variables); theorems hold for every instantiation, premises on them are explicit",
    "in-memory vectors are shorter than 2^64 bytes (explicit premise zlen tx < 2^64)",
    "honest-payload completeness is tested on MockMiner output under regtest parameters",
]
META = {
    "text": "Theorems (Coq 8.16, all inputs, no axioms): the contiguous search of checkBitcoinTransactionForPoPData accepts exactly the "
            "byte lists that contain the data as a substring (sound + complete); containsSplit accepts only well-formed splits whose "
            "in-buffer chunks concatenate to the data and never reads outside the transaction or its chunk table (after fix a50e5e9b; "
            "the old code is kept as _v0 with a refuting witness, like the subsequence defect 5481700d and the network-byte defect "
            "9903a5a0); both Merkle-path flavours: check passes => subject = tx hash and the bit-indexed fold equals the root; "
            "checkVbkPopTx/checkVbkTx/checkATV/checkVTB/checkVbkBlocks pipelines over oracle section variables: context contiguous + PoW, "
            "address derived + signature verifies, publication data names the chain and authenticates the header; checkProofOfWork (BTC and "
            "VBK) and checkVbkBlockPlausibility are modelled clause by clause over the proved compact decoder (only the hash is an oracle): "
            "accepted => compact value not negative/overflowing, target nonzero, target <= pow limit (VBK: difficulty >= minimum), hash <= "
            "target; checkPopData => limits, "
            "all payloads valid, NoDup ids; the checked flags are only set after a complete success for every call sequence; honest "
            "payloads are accepted under explicit premises on the oracles. Completeness of split embeddings holds under the premise 'no "
            "byte 0x92 before the magic' and is REFUTED without it (C05_split_complete_refuted = confirmed F11, C05_split_resync_refuted): "
            "completeness-only limits of the code, documented, not violations. Tie to the code: extracted model vs rebuilt library on "
            "generated Bitcoin-transaction layouts (verdict + reject reason) and on MockMiner payloads with every single-field mutation "
            "(leaf facts measured with library primitives -> extracted pipeline -> verdict + failing stage), plus an independent C++ "
            "embedding decoder and the mutation/honest oracles.",
    "note": "Trusted: Coq kernel, extraction (ExtrOcamlBasic), OCaml driver incl. its SHA-256, C++ harness incl. its independent split "
            "decoder/encoder, Python generators. Oracles (section variables, not verified): SHA-256, secp256k1 verify, address derivation, "
            "BTC/VBK proof-of-work predicates, VBK plausibility, context-info root, altchain header callback. Honest completeness of whole "
            "payloads is proved for contiguous embeddings and tested (not proved) for MockMiner split layouts; PopData estimateSize is an "
            "abstract number (C11 owns its exactness). The model treats every hash as a function of the bytes; that VbkBlock's memoised hash equals "
            "the hash of its bytes (also after deserialization into an existing object) is proved in C17 (C17_memo_transparent) and tested here "
            "by the reused-object mode (real mainnet header under mainnet parameters; payloads read into validated objects). The ASan stage runs in quick only when the ASan library variant is prebuilt.",
    "technique": "Coq proof (induction over byte lists / path layers / call sequences) + extraction-based "
                 "differential correspondence + independent C++ embedding oracle + field-mutation oracle",
}
HDR_ADDR_CACHE = {}


def hx(b):
    return b.hex() if len(b) else "-"


class Cases:
    def __init__(self):
        self.cases = []
        self.hist = {}

    def add(self, kind, op, *args):
        cid = "c%d" % (len(self.cases) + 1)
        self.cases.append((cid, op, list(args)))
        self.hist[kind] = self.hist.get(kind, 0) + 1
        return cid


def gen_embed_cases(ctx, suffix, scale):
    """Bitcoin transaction layouts. `embedh` = honest layout that must be accepted (completeness
    oracle in the harness); `embed`/`split` = verdict compared with the model, soundness oracle."""
    r = ctx.rng
    C = Cases()

    def data80():
        return G.filler(r, 65) + suffix          # header bytes avoid 0x92: no stray magic start inside the data

    def both(kind, op, data, tx):
        C.add(kind, op, hx(data), hx(tx))
        C.add(kind + "/split", "split", hx(data), hx(tx))

    # A. contiguous at every offset, several tails
    for lead in range(0, 48):
        for tail in (0, 1, 7):
            d = data80()
            both("contiguous", "embedh", d, G.filler(r, lead) + d + G.filler(r, tail))
    # B. one foreign byte inserted at every position (the repaired subsequence defect)
    for pos in range(0, 81):
        d = data80()
        for lead in (0, 3):
            tx = G.filler(r, lead) + d[:pos] + G.filler(r, 1) + d[pos:] + G.filler(r, 2)
            both("foreign-byte", "embedh" if pos in (0, 80) else "embed", d, tx)
    # C. interleavings / subsequences
    for k in range(40 * scale):
        d = data80()
        mode = k % 4
        if mode == 0:
            tx = b"".join(G.filler(r, 1) + d[i:i + 1] for i in range(80))
        elif mode == 1:
            tx = b"".join(d[i:i + 2] + G.filler(r, 1) for i in range(0, 80, 2))
        elif mode == 2:
            tx = bytearray()
            for i in range(80):
                tx += G.filler(r, r.below(3)) + d[i:i + 1]
            tx = bytes(tx)
        else:
            cut = r.range(1, 79)
            tx = d[:cut] + G.filler(r, r.range(1, 4)) + d[cut:] + d[:cut]
        both("interleaved", "embed", d, tx + G.filler(r, r.below(3)))
    # D. every admissible split shape: n chunks x offset width x length width x table position
    for n in list(range(1, 9)) + [9, 12, 15]:
        for o in (4, 8, 12, 16):
            for s in (4, 5, 6, 7):
                for table_first in (False, True):
                    for _ in range(scale if n <= 8 else 1):
                        parts = G.compositions(r, 80, n, (1 << s) - 1)
                        if parts is None:
                            continue
                        maxgap = min(6, (1 << o) - 1)
                        gaps = [r.range(0 if k == 0 else 1, maxgap) for k in range(n)]
                        tx = G.split_tx(r, data_ := data80(), parts, gaps, o, s, table_first,
                                        tail=r.range(2, 4), lead=r.below(3))
                        if tx is None:
                            continue
                        both("split-n%d" % n, "embedh", data_, tx)
    # E. truncated last chunk / exact fit (chunk length boundary)
    for n in (1, 2, 3, 5, 8):
        for cut in (0, 1, 2, 5):
            parts = G.compositions(r, 80, n, 127)
            gaps = [r.range(1, 5) for _ in range(n)]
            d = data80()
            tx = G.split_tx(r, d, parts, gaps, 8, 7, True, tail=0, lead=1)
            if tx is None:
                continue
            both("truncated-%d" % cut, "embedh" if cut == 0 else "embed", d, tx[:len(tx) - cut])
    # F. stray magic / partial magic before the honest one (documented completeness limits: model decides)
    for k in range(12 * scale):
        d = data80()
        parts = G.compositions(r, 80, 2, 127)
        base = G.split_tx(r, d, parts, [0, r.range(1, 4)], 4, 7, False, tail=0, lead=0)
        body, real = base[:-6], base[-6:]
        stray = [bytes([0x92, 0x7a, 0x59, 0xff]), bytes([0x92]), bytes([0x92, 0x7a]),
                 bytes([0x92, 0x7a, 0x59, 0x10, 0x00, 0x01]), bytes([0x92, 0x7a, 0x59, 0x00]),
                 bytes([0x92, 0x7a, 0x59, 0x2f]) + r.bytes(5), bytes([0x92, 0x92]), bytes([0x92, 0x7a, 0x92])][k % 8]
        both("stray-magic-%d" % (k % 8), "embed", d, body + stray + real + G.filler(r, 1))
    # G. one chunk whose offset points to / just past the end of the transaction (repaired over-read)
    for size in (6, 7, 20, 86, 87, 100, 255, 300):
        for delta in (-81, -80, -79, -1, 0, 1, 2, 15, 255, 4000, 65535 - size):
            off = size + delta
            if not 0 <= off < 65536:
                continue
            d = data80()
            tab = G.encode_table([(off, 0)], 16, 4)
            if size < 3 + len(tab) + 2:
                continue
            tx = bytearray(G.MAGIC + tab + G.filler(r, size - 3 - len(tab)))
            if off + 80 <= size:
                tx[off:off + 80] = d
            both("offset-edge", "embed", d, bytes(tx))
    # H. fuzz: random descriptors and tables, short data for `split`
    for k in range(600 * scale):
        dl = r.choice([80, 80, 80, 0, 1, 5, 33, 100])
        d = data80() if dl == 80 else r.bytes(dl)
        n = r.range(0, 40)
        body = bytearray(r.bytes(n))
        desc = r.below(256) if r.chance(1, 2) else G.descriptor(r.range(0, 3), r.choice([4, 8]), r.choice([4, 7]))
        tab = bytearray(r.bytes(r.range(0, 12)))
        if r.chance(1, 2):
            for i in range(len(tab)):
                if r.chance(2, 3):
                    tab[i] = r.choice([0, 0, 1, 2, 0x10, 0x80])
        tx = bytes(body) + G.MAGIC + bytes([desc]) + bytes(tab) + r.bytes(r.range(0, 90))
        if r.chance(1, 4) and dl >= 1:
            p = r.below(len(tx))
            tx = tx[:p] + d[:r.range(1, dl)] + tx[p:]
        C.add("fuzz", "split", hx(d), hx(tx))
        if dl == 80:
            C.add("fuzz", "embed", hx(d), hx(tx))
    return C


def load_corpus(field="cases"):
    d = os.path.join(vlib.VERIF, "corpus", "C05")
    out = []
    if os.path.isdir(d):
        for f in sorted(os.listdir(d)):
            if f.endswith(".json"):
                j = json.load(open(os.path.join(d, f)))
                for i, (op, args) in enumerate(j.get(field, [])):
                    out.append(("k_%s_%d" % (f[:-5], i), op, args))
    return out


def write_cases(path, cases):
    with open(path, "w") as f:
        for cid, op, args in cases:
            f.write("%s %s %s\n" % (cid, op, " ".join(args)))


def run_embed(ctx, model, harness, harness_asan):
    rc, res, _, err = vlib.run_lines([harness], _tmp(ctx, "addr.txt", "a addr\n"))
    suffix = bytes.fromhex(res.get("a", ""))
    if len(suffix) != 15:
        ctx.broken.append("harness: addr op failed: " + err[-200:])
        return
    scale = 1 if ctx.tier == "quick" else 12
    if ctx.replay and "cases" not in ctx.replay and "pcases" in ctx.replay:
        return
    if ctx.replay and "cases" in ctx.replay:
        cases = [tuple(c) for c in ctx.replay["cases"]]
        hist = {"replay": len(cases)}
    else:
        C = gen_embed_cases(ctx, suffix, scale)
        cases = load_corpus() + C.cases
        hist = C.hist
    inp = os.path.join(ctx.work, "embed.txt")
    write_cases(inp, cases)
    rc1, mres, _, merr = vlib.run_lines([model], inp)
    rc2, ires, orc, ierr = vlib.run_lines([harness], inp)
    byid = {c[0]: c for c in cases}
    ctx.cov["evaluations"] += len(cases)
    ctx.cov["embedding"] = {"layout_histogram": hist,
                            "model_verdicts": _hist(mres.values()),
                            "tx_sizes": _sizes(len(c[2][1]) // 2 for c in cases if len(c[2]) > 1)}
    ctx.cov["distinct_nontrivial"] += len({(op, tuple(a)) for _, op, a in cases})
    for c in cases[:2] + cases[-1:]:
        ctx.sample({"case": [c[0], c[1], [a[:64] for a in c[2]]], "model": mres.get(c[0]), "impl": ires.get(c[0])})
    bad = vlib.diff_results(mres, ires)
    if bad:   # re-run once to exclude flakiness
        rc2b, ires2, orc2, _ = vlib.run_lines([harness], inp)
        bad = [i for i in bad if mres.get(i) != ires2.get(i)]
    ctx.cov["disagreements_checked"] += len(cases)
    ctx.cov["traces_validated_against_impl"] += len(cases) - len(bad)
    # direct oracle on the implementation
    for i, text in orc:
        c = byid.get(i)
        ctx.violation({"kind": "input", "cases": [list(c)] if c else [], "oracle": text,
                       "model": mres.get(i), "impl": ires.get(i)})
    # the model of these pure functions is the proved specification: a disagreement is a failing input
    for i in bad[:5]:
        c = byid.get(i)
        ctx.violation({"kind": "input", "cases": [list(c)] if c else [], "model": mres.get(i), "impl": ires.get(i),
                       "what": "checkBitcoinTransactionForPoPData/containsSplit differs from the proved model"})
    if rc1 != 0 or rc2 != 0:
        ctx.broken.append("runner(embed): model rc=%d impl rc=%d %s" % (rc1, rc2, (merr + ierr)[-300:]))
    # inputs on which the code before fix a50e5e9b read outside the buffer: run them under ASan as well
    v0 = [(cid, "splitv0", a) for cid, op, a in cases if op == "split"]
    v0inp = os.path.join(ctx.work, "v0.txt")
    write_cases(v0inp, v0)
    _, v0res, _, _ = vlib.run_lines([model], v0inp)
    oob = [byid[i] for i, v in v0res.items() if v.startswith("OOB")]
    ctx.cov["embedding"]["inputs_past_buffer_in_old_code"] = len(oob)
    if harness_asan and oob:
        lim = 40 if ctx.tier == "quick" else 2000
        sel = oob[:lim]
        ainp = os.path.join(ctx.work, "asan.txt")
        write_cases(ainp, sel)
        rca, ares, aorc, aerr = vlib.run_lines([harness_asan], ainp, env={"ASAN_OPTIONS": "detect_leaks=0"})
        ctx.cov["embedding"]["run_under_asan"] = len(sel)
        if rca != 0 or len(ares) != len(sel):
            first = next((c for c in sel if c[0] not in ares), sel[0])
            ctx.violation({"kind": "input", "cases": [list(first)], "what": "sanitizer abort in containsSplit",
                           "stderr": aerr[-1500:]})
        else:
            for c in sel:
                if ares.get(c[0]) != mres.get(c[0]):
                    ctx.violation({"kind": "input", "cases": [list(c)], "model": mres.get(c[0]), "impl": ares.get(c[0]),
                                   "what": "asan build differs from the proved model"})
                    break


# ---------------------------------------------------------------------------------------------
# whole payloads: MockMiner-built ATV/VTB/VbkBlock/PopData and their single-field mutations
# ---------------------------------------------------------------------------------------------
# shape of the harness world (checked against its `world` line)
WORLD = {"nvtb": 5, "natv": 3, "ctx": 3, "btclayers": 3, "vtblayers": 5, "atvlayers": 4,
         "vtbidx": "0,1,2,3,4", "atvidx": "0,1,2", "btcidx": "0,1,2,3,4", "limit": "%x" % ((1 << 255) - 1)}
BTC_LIMIT = (1 << 255) - 1                   # regtest pow limit (checked against the world line)
LEAVES = {"vtb": 5, "atv": 3, "btc": 7}      # transactions per Merkle tree in the harness world


def compact(bits):
    """Bitcoin's nBits -> (target, negative, overflow), written from the format description"""
    size, mant = bits >> 24, bits & 0x7fffff
    if size <= 3:
        mant >>= 8 * (3 - size)
        t = mant
    else:
        t = mant << (8 * (size - 3))
    neg = mant != 0 and (bits & 0x800000) != 0
    ovf = mant != 0 and (size > 34 or (mant > 0xff and size > 33) or (mant > 0xffff and size > 32))
    return t, neg, ovf


def btc_bits_valid(bits):
    t, neg, ovf = compact(bits)
    return (not neg) and (not ovf) and 0 < t <= BTC_LIMIT


# nBits aimed at every clause of checkProofOfWork(BtcBlock): at/below the limit, limit+1, far above (hash still below
# the limit), overflow, sign bit, zero mantissa, tiny targets
BTC_BITS = [0x207fffff, 0x207ffffe, 0x203fffff, 0x1f7fffff, 0x22000001, 0x21007fff,
            0x21008000, 0x2100ffff, 0x2100c000, 0x2100ff00, 0x2200ffff, 0x23000001, 0xff000001, 0x20800001, 0x04800001,
            0x20000000, 0x00000000, 0x01003456, 0x02008000, 0x1d00ffff]


def index_bit_matters(nleaves, leaf, k, levels):
    """does flipping bit k of the Merkle index change the root? Not above the tree, and not where the node is the
    odd last node of its level (it is paired with itself: sha(x,x) either way)"""
    if k >= levels:
        return False
    count = nleaves
    for _ in range(k):
        count = (count + 1) // 2
    return not (count % 2 == 1 and (leaf >> k) == count - 1)

# Mutations that may legitimately still be accepted (claim N) — semantically neutral for stateless validation:
#  * Merkle index bits where the node is the odd last node of its tree level (paired with itself, sha(x,x) either way)
#  * Merkle index bits at or above the number of hashed layers (BTC path: bit >= #layers; VBK path: index bit >= #layers-2,
#    treeIndex bit >= 1): calculateMerkleRoot never reads them (lemma btc_spec_index_low / vbk_side)
#  * header fields of blockOfProof / containingBlock other than the Merkle root: validated contextually, not statelessly
#  * re-signed transactions that differ only in fields no stateless rule constrains (type id, payout info, signature index,
#    amounts with a non-negative fee, <= 255 outputs), a context with its first/last block dropped, a changed LAST context
#    block (nothing links to it statelessly)
#  * signature bytes: accepted iff secp256k1 verify still accepts (decided by the model from the measured `ver` leaf)
#  * stand-alone VBK header fields other than height/difficulty under regtest (PoW limit is trivial)


MAINNET_HEADER_FALLBACK = ("00277B9100025FD49543BA74A429AC48A3F2297D2CC1E0244EC22EDE46D061CEFED1E35C"
                           "0AA208EC867AD999CA78861706B6FE606163022A0528F21755576DF2F3")


def mainnet_header():
    """the real mainnet VBK header of the repo's VbkBlockPOW.ValidMainNet test, read from the repo under test"""
    try:
        src = open(os.path.join(vlib.REPO, "test", "pop", "stateless_validation_test.cpp")).read()
        i = src.index("ValidMainNet")
        import re
        m = re.search(r'RawHex<VbkBlock>\(\s*((?:"[0-9A-Fa-f]+"\s*)+)\)', src[i:i + 600])
        hx_ = "".join(re.findall(r'"([0-9A-Fa-f]+)"', m.group(1)))
        if len(hx_) == 130:
            return hx_.lower(), "test/pop/stateless_validation_test.cpp (VbkBlockPOW.ValidMainNet)"
    except Exception:
        pass
    return MAINNET_HEADER_FALLBACK.lower(), "built-in copy of VbkBlockPOW.ValidMainNet"


def gen_payload_cases(ctx):
    r = ctx.rng
    C = Cases()
    quick = ctx.tier == "quick"
    reps = 1 if quick else 6

    def bits(n, count):
        return sorted({r.below(n) for _ in range(count)})

    for v in range(WORLD["nvtb"]):
        C.add("vtb/honest", "vtb", str(v), "none", "0", "0", "A")
        C.add("vtb/honest", "poptx", str(v), "none", "0", "0", "A")
        C.add("vtb/honest-resigned", "poptx", str(v), "none", "0", "1", "A")
    for v in ([0, 3] if quick else range(WORLD["nvtb"])):
        V = str(v)
        # unsigned part of the VTB
        for k in range(32):
            C.add("vtb/v.mp.index", "vtb", V, "v.mp.index", str(k), "0",
                  "R" if index_bit_matters(LEAVES["vtb"], v, k, WORLD["vtblayers"] - 2) else "N")
            C.add("vtb/v.mp.tree", "vtb", V, "v.mp.tree", str(k), "0", "R" if k == 0 else "N")
        for layer in range(WORLD["vtblayers"]):
            for b in bits(256, 2 * reps):
                C.add("vtb/v.mp.layer", "vtb", V, "v.mp.layer", str(layer * 256 + b), "0", "R")
        for b in bits(256, 4 * reps):
            C.add("vtb/v.mp.subject", "vtb", V, "v.mp.subject", str(b), "0", "R")
        for k in range(WORLD["vtblayers"]):
            C.add("vtb/v.mp.drop", "vtb", V, "v.mp.drop", str(k), "0", "R")
            C.add("vtb/v.mp.add", "vtb", V, "v.mp.add", str(k), "0", "R")
        for b in bits(128, 3 * reps):
            C.add("vtb/v.cb.mroot", "vtb", V, "v.cb.mroot", str(b), "0", "R")
        for f in ("height", "time", "nonce", "prev", "ks1", "ks2", "version"):
            C.add("vtb/v.cb.other", "vtb", V, "v.cb." + f, str(r.range(1, 60)), "0", "N")
        # signed part, not re-signed: the signature (at the latest) must reject; re-signed: the specific rule must
        signed = [("t.net", [0, 0xaa, 0xff, 256], "R"), ("t.type", [7], "N"), ("t.addr", [0], "R"), ("t.pubkey", [0] + bits(700, 2), "R"),
                  ("t.btctx.ins", bits(90, 3 * reps), "R"), ("t.btctx.trunc", [1, 2, 40], "R"), ("t.btctx", bits(8 * 80, 4 * reps), "R"),
                  ("t.mp.layer", [l * 256 + r.below(256) for l in range(WORLD["btclayers"])], "R"), ("t.mp.subject", bits(256, 2 * reps), "R"),
                  ("t.mp.drop", [0, 1, 2], "R"), ("t.mp.add", [0, 1, 3], "R"), ("t.bop.mroot", bits(256, 2 * reps), "R"),
                  ("t.ctx.swap", [0, 1], "R"), ("t.ctx.dup", [0, 1, 2], "R"), ("t.ctx.hard", [0, 1, 2], "R")]
        for f in ("height", "version", "prev", "ks1", "ks2", "mroot", "time", "nonce"):
            signed.append(("t.pub." + f, [r.range(1, 50)], "R"))
        for m, ks, claim in signed:
            for k in ks:
                C.add("vtb/raw/" + m, "vtb", V, m, str(k), "0", "R")
                C.add("vtb/resigned/" + m, "poptx", V, m, str(k), "1", claim)
                C.add("vtb/resigned-outer/" + m, "vtb", V, m, str(k), "1", "R")
        for k in range(32):
            C.add("vtb/resigned/t.mp.index", "poptx", V, "t.mp.index", str(k), "1",
                  "R" if index_bit_matters(LEAVES["btc"], v, k, WORLD["btclayers"]) else "N")
        C.add("vtb/raw/t.mp.index", "vtb", V, "t.mp.index", "0", "0", "R")
        for f in ("version", "prev", "time", "bits", "nonce"):
            C.add("vtb/resigned/t.bop.other", "poptx", V, "t.bop." + f, str(r.range(1, 50)), "1", "N")
            C.add("vtb/raw/t.bop.other", "vtb", V, "t.bop." + f, str(r.range(1, 50)), "0", "R")
        for k in range(WORLD["ctx"]):
            C.add("vtb/resigned/t.ctx.drop", "poptx", V, "t.ctx.drop", str(k), "1", "R" if 0 < k < WORLD["ctx"] - 1 else "N")
            for f in ("prev", "mroot", "time", "nonce", "version"):
                last = k == WORLD["ctx"] - 1
                claim = "N" if (last and f != "prev") else "R"
                C.add("vtb/resigned/t.ctx.field", "poptx", V, "t.ctx." + f, str(k * 1000 + r.range(0, 200)), "1", claim)
        for b in bits(560, 6 * reps):
            C.add("vtb/t.sig", "vtb", V, "t.sig", str(b), "0", "N")
        C.add("vtb/t.sig", "vtb", V, "t.sig.trunc", "0", "0", "N")
    if quick:   # index bits of the remaining variants too (odd last leaves behave differently)
        for v in (1, 2, 4):
            for k in range(32):
                C.add("vtb/v.mp.index", "vtb", str(v), "v.mp.index", str(k), "0",
                      "R" if index_bit_matters(LEAVES["vtb"], v, k, WORLD["vtblayers"] - 2) else "N")
                C.add("vtb/resigned/t.mp.index", "poptx", str(v), "t.mp.index", str(k), "1",
                      "R" if index_bit_matters(LEAVES["btc"], v, k, WORLD["btclayers"]) else "N")
        for v in (1, 2):
            for k in range(32):
                C.add("atv/v.mp.index", "atv", str(v), "v.mp.index", str(k), "0",
                      "R" if index_bit_matters(LEAVES["atv"], v, k, WORLD["atvlayers"] - 2) else "N")
    if not quick:
        C.add("vtb/ctx-limit", "poptx", "0", "t.ctx.many", "65536", "1", "R")
    # ATVs
    for v in range(WORLD["natv"]):
        C.add("atv/honest", "atv", str(v), "none", "0", "0", "A")
        C.add("atv/honest", "vbktx", str(v), "none", "0", "0", "A")
        C.add("atv/honest-resigned", "vbktx", str(v), "none", "0", "1", "A")
    for v in ([0] if quick else range(WORLD["natv"])):
        V = str(v)
        for k in range(32):
            C.add("atv/v.mp.index", "atv", V, "v.mp.index", str(k), "0",
                  "R" if index_bit_matters(LEAVES["atv"], v, k, WORLD["atvlayers"] - 2) else "N")
            C.add("atv/v.mp.tree", "atv", V, "v.mp.tree", str(k), "0", "R" if k == 0 else "N")
        for layer in range(WORLD["atvlayers"]):
            for b in bits(256, 2 * reps):
                C.add("atv/v.mp.layer", "atv", V, "v.mp.layer", str(layer * 256 + b), "0", "R")
        for b in bits(256, 4 * reps):
            C.add("atv/v.mp.subject", "atv", V, "v.mp.subject", str(b), "0", "R")
        for k in range(WORLD["atvlayers"]):
            C.add("atv/v.mp.drop", "atv", V, "v.mp.drop", str(k), "0", "R")
            C.add("atv/v.mp.add", "atv", V, "v.mp.add", str(k), "0", "R")
        for b in bits(128, 3 * reps):
            C.add("atv/v.cb.mroot", "atv", V, "v.cb.mroot", str(b), "0", "R")
        for f in ("height", "time", "nonce", "prev", "ks1", "ks2", "version"):
            C.add("atv/v.cb.other", "atv", V, "v.cb." + f, str(r.range(1, 60)), "0", "N")
        signed = [("t.net", [0, 0xaa, 0xff, 256], "R"), ("t.type", [7], "N"), ("t.addr", [0], "R"), ("t.pubkey", [0] + bits(700, 2), "R"),
                  ("t.amount", [-1000, 5], "N"), ("t.sigindex", [1], "N"), ("t.outputs", [256, 300], "R"), ("t.outputs", [1, 255], "N"),
                  ("t.overspend", [1, 1000], "R"), ("t.overspend", [0], "N"), ("t.overflow", [2, 4, 8], "R"), ("t.pd.id", [1, -1, 1 << 40], "R"),
                  ("t.pd.header", bits(8 * 70, 4 * reps), "R"), ("t.pd.ctx", bits(8 * 40, 4 * reps), "R"), ("t.pd.ctx.trunc", [0], "R"),
                  ("t.pd.payout", [3], "N")]
        for m, ks, claim in signed:
            for k in ks:
                C.add("atv/raw/" + m, "atv", V, m, str(k), "0", "R")
                C.add("atv/resigned/" + m, "vbktx", V, m, str(k), "1", claim)
                C.add("atv/resigned-outer/" + m, "atv", V, m, str(k), "1", "R")
        for b in bits(560, 6 * reps):
            C.add("atv/t.sig", "atv", V, "t.sig", str(b), "0", "N")
    # proof of work, clause by clause: stand-alone BTC headers (nonce re-mined so that only the aimed clause decides) ...
    for i in range(WORLD["ctx"]):
        for bits in BTC_BITS:
            valid = btc_bits_valid(bits)
            t = compact(bits)[0]
            if valid and t >= (1 << 244):     # re-mining feasible
                C.add("btcblock/valid-easy", "btcblock", str(i), "%x" % bits, "easy", "A")
            if valid and (1 << 250) > t:
                C.add("btcblock/valid-miss", "btcblock", str(i), "%x" % bits, "miss" if t >= (1 << 200) else "any", "R")
            if valid and t >= (1 << 250):
                C.add("btcblock/valid-miss", "btcblock", str(i), "%x" % bits, "miss", "R")
            if not valid:
                C.add("btcblock/invalid-bits", "btcblock", str(i), "%x" % bits, "easy", "R")
    # ... and at every position of blockOfProofContext, pop tx re-signed
    for V in (["0"] if quick else ["0", "3"]):
        for i in range(WORLD["ctx"]):
            last = i == WORLD["ctx"] - 1
            for bits in BTC_BITS:
                k = str((i << 32) | bits)
                if not btc_bits_valid(bits):
                    C.add("vtb/resigned/t.ctx.bits-invalid", "poptx", V, "t.ctx.bits", k, "1", "R")
                elif compact(bits)[0] >= (1 << 244):
                    C.add("vtb/resigned/t.ctx.bits-valid", "poptx", V, "t.ctx.bits", k, "1", "N" if last else "R")
                    C.add("vtb/resigned/t.ctx.bits-miss", "poptx", V, "t.ctx.bitsmiss", k, "1", "R")
            C.add("vtb/resigned-outer/t.ctx.bits", "vtb", V, "t.ctx.bits", str((i << 32) | 0x2100ffff), "1", "R")
    # VBK: compact difficulty clauses (regtest, and regtest with minimum difficulty 3), plausibility clauses
    for i in range(5):
        for d in (0x04800001, 0x23000001, 0x01000000, 0, 0x01003456):
            C.add("vbkblock/diff-invalid", "vbkblock", str(i), "diff", str(d), "R")
        C.add("vbkblock/mindiff", "vbkblock", str(i), "none", "0", "R", "diff")
        C.add("vbkblock/mindiff", "vbkblock", str(i), "diff", str(0x01020000), "R", "diff")
        for d in (0x01030000, 0x01040000):
            C.add("vbkblock/mindiff", "vbkblock", str(i), "diff", str(d), "A", "diff", "easy")
            C.add("vbkblock/mindiff", "vbkblock", str(i), "diff", str(d), "R", "diff", "miss")
        h = i + 1
        upper = 432000 + (30 * h * 12) // 10
        C.add("vbkblock/time", "vbkblock", str(i), "none", "0", "A", "time")
        for k, claim in ((-1, "R"), (0, "A"), (upper, "A"), (upper + 1, "R"), (upper + 100000, "R")):
            C.add("vbkblock/time", "vbkblock", str(i), "tsrel", str(k), claim, "time")
        C.add("vbkblock/height", "vbkblock", str(i), "height", str(-(h + 1)), "R")
        C.add("vbkblock/height", "vbkblock", str(i), "height", str(4097 * 8000 - h), "R")
        # first height without an entry in the 4096-entry ethash size/seed tables (epoch 4096): an accepted header would be
        # hashed next and index past the tables (repaired off-by-one `epoch > 4096`, known_findings.txt)
        C.add("vbkblock/height-epoch-4096", "vbkblock", str(i), "height", str(4096 * 8000 - h + (i * 1999)), "R")
    # a REAL mainnet header under mainnet parameters: the PoW verdict depends on the hash (1 in 1.7e11 headers passes), the
    # time rule and the minimum difficulty are live; fresh objects and objects that already hold another header + its hash
    H, src = mainnet_header()
    ctx.cov.setdefault("payload_sources", {})["mainnet_header"] = src
    muts = [("nonce", 1), ("nonce", 77), ("mroot", r.below(128)), ("time", 1), ("prev", r.below(96)), ("ks1", r.below(72)), ("ks2", r.below(72)),
            ("version", 1), ("diff", 0x01010000), ("diff", 0x0528f216), ("time", 100000000), ("time", -100000000)]
    C.add("vbkmain/honest", "vbkmain", H, "fresh", "none", "0", "A")
    for mode in ("reuse-raw", "reuse-vbk"):
        C.add("vbkmain/honest", "vbkmain", H, mode, "none", "0", "A")
    for f, k in muts:
        for mode in ("fresh", "reuse-raw", "reuse-vbk"):
            C.add("vbkmain/" + mode, "vbkmain", H, mode, f, str(k), "R")
    for f, k in muts[:4]:
        for mode in ("reuse-raw-rev", "reuse-vbk-rev"):
            C.add("vbkmain/" + mode, "vbkmain", H, mode, f, str(k), "A")
    # payloads read into an object that holds the honest payload, already validated (checked flags, hash memos filled)
    for mode in ("reuse", "reuse-nc"):
        for v in (0, 3):
            V = str(v)
            C.add("reuse/vtb", "vtb", V, "none", "0", "0", "A", mode)
            for m, k, rs in (("v.mp.subject", r.below(256), "0"), ("v.mp.layer", r.below(1024), "0"), ("v.cb.mroot", r.below(128), "0"),
                             ("v.mp.index", 0, "0"), ("t.sig", r.below(500), "0"), ("t.ctx.hard", 2, "1"), ("t.ctx.swap", 0, "1"), ("t.net", 0xaa, "1"),
                             ("t.pubkey", 0, "1"), ("t.btctx.ins", 40, "1"), ("t.mp.subject", r.below(256), "1"), ("t.bop.mroot", r.below(256), "1")):
                claim = "N" if m == "t.sig" else "R"
                C.add("reuse/vtb", "vtb", V, m, str(k), rs, claim, mode)
        for v in (0, 1):
            V = str(v)
            C.add("reuse/atv", "atv", V, "none", "0", "0", "A", mode)
            for m, k, rs in (("v.mp.subject", r.below(256), "0"), ("v.mp.layer", r.below(512), "0"), ("v.cb.mroot", r.below(128), "0"),
                             ("t.pd.id", 1, "1"), ("t.pd.header", r.below(300), "1"), ("t.net", 0xaa, "1"), ("t.addr", 0, "1"), ("t.overspend", 1, "1")):
                C.add("reuse/atv", "atv", V, m, str(k), rs, "R", mode)
        for sc, k, claim in (("honest", 0, "A"), ("badvtb", 0, "R"), ("badvtb", 2, "R"), ("badatv", 1, "R"), ("badvbk", 1, "R"), ("dupvtb", 0, "R"),
                             ("dupvbk", 1, "R"), ("manyatv", 0, "R")):
            C.add("reuse/popdata", "popdata", sc, str(k), claim, mode)
    # stand-alone VBK headers and header chains
    for i in range(5):
        C.add("vbkblock/honest", "vbkblock", str(i), "none", "0", "A")
        C.add("vbkblock/diff", "vbkblock", str(i), "diff", str(0x1d00ffff), "R")
        C.add("vbkblock/height", "vbkblock", str(i), "height", "2000000000", "R")
        for f in ("nonce", "time", "mroot", "prev"):
            C.add("vbkblock/other", "vbkblock", str(i), f, str(r.range(1, 90)), "N")
    C.add("vbkblocks/honest", "vbkblocks", "none", "0", "A")
    for k in range(4):
        for m in ("swap", "dup", "hard", "height"):
            C.add("vbkblocks/" + m, "vbkblocks", m, str(k), "R")
    for k in range(3):
        C.add("vbkblocks/drop", "vbkblocks", "drop", str(k), "R")
    # PopData
    for sc, ks, claim in (("honest", [0], "A"), ("empty", [0], "A"), ("fullvtb", [0], "A"), ("size", [0, 1], "A"), ("size", [-1, -100], "R"),
                          ("dupvtb", [0, 1, 2], "R"), ("dupatv", [0, 1], "R"), ("dupvbk", [0, 1, 3], "R"),
                          ("manyvbk", [0, 1], "R"), ("manyvtb", [0, 1], "R"), ("manyatv", [0, 1], "R"),
                          ("badvtb", [0, 1, 2], "R"), ("badatv", [0, 1], "R"), ("badvbk", [0, 2], "R")):
        for k in ks:
            C.add("popdata/" + sc, "popdata", sc, str(k), claim)
    return C


POPTX_PATH = {1: "vbk-btc-context-too-many", 2: "vbkpoptx-bad-tx-byte", 4: "vbk-check-merkle-path+invalid-merklepath",
              6: "vbk-check-signature+invalid-vbk-pop-tx"}
VBKTX_PATH = {1: "vbktx-too-many-outputs", 2: "vbktx-bad-tx-byte", 3: "vbktx-overspending", 5: "vbktx-check-signature+invalid-vbk-tx"}


def poptx_path(c, s):
    if c == 3:
        if s == 1:
            return "vbk-check-btc-tx-for-pop+bad-pubdata"
        return "vbk-check-btc-tx-for-pop+invalid-vbk-pop-tx" + {10: "", 11: "+bad-descriptor-bytes", 12: "+bad-section-offset",
                                                              13: "+bad-section-length"}.get(s, "+?")
    if c == 5:
        return "vbk-check-btc-blocks+" + {1: "vbk-check-block+btc-bad-pow", 2: "btc-check-block+btc-bad-pow", 3: "invalid-btc-block"}.get(s, "?")
    return POPTX_PATH.get(c, "?")


def vbktx_path(c, s):
    if c == 4:
        return "vbktx-bad-publicationdata+" + {1: "bad-altchain-id", 2: "bad-contextinfo", 3: "bad-endorsed-header"}.get(s, "?")
    return VBKTX_PATH.get(c, "?")


def expected_path(op, c, s):
    if op == "poptx":
        return poptx_path(c, s)
    if op == "vbktx":
        return vbktx_path(c, s)
    if op in ("vtb", "atv"):
        if c == 20:
            return "vbk-check-merkle-path+invalid-merklepath"
        return ("vbk-check-pop-tx+" + poptx_path(c - 10, s)) if op == "vtb" else ("vbk-check-tx+" + vbktx_path(c - 10, s))
    if op == "vbkblock":
        if c == 1:
            return "vbk-bad-block+" + {1: "height-too-low", 2: "height-too-high", 3: "timestamp-too-low", 4: "timestamp-upper-bound",
                                       5: "timestamp-lower-bound"}.get(s, "?")
        return {2: "vbk-bad-pow"}.get(c, "?")
    if op == "btcblock":
        return "btc-bad-pow"
    if op == "vbkblocks":
        return {1: "vbk-check-block", 2: "vbk-check-block", 3: "invalid-vbk-block"}.get(c, "?")
    if op == "popdata":
        if c == 8:
            return "pop-sl-invalid-has-duplicates+duplicate-" + {1: "vbk", 2: "vtb", 3: "atv"}.get(s, "?")
        return {1: "pop-sl-oversize", 2: "pop-sl-context-oversize", 3: "pop-sl-vtbs-oversize", 4: "pop-sl-atvs-oversize",
                5: "pop-sl-invalid", 6: "pop-sl-invalid", 7: "pop-sl-invalid"}.get(c, "?")
    return "?"


MODEL_OP = {"vbkmain": "vbkblock"}


def agree(op, mline, iline):
    op = MODEL_OP.get(op, op)
    """model line `1` / `0 code sub` [| flags]; impl line `<0|1> <path> <changed> [flags]`. Returns None or a reason."""
    mres, _, mflags = mline.partition(" | ")
    it = iline.split()
    if len(it) < 3:
        return "malformed harness line"
    mt = mres.split()
    if mt[0] not in ("0", "1"):
        return "model error: " + mline[:80]
    if mt[0] != it[0]:
        return "verdict differs"
    if mt[0] == "0":
        exp = expected_path(op, int(mt[1]), int(mt[2]))
        if not (it[1] == exp or it[1].startswith(exp + "+")):
            return "rejected at a different stage: model expects " + exp
    if op == "popdata" and mflags.strip() != (it[3] if len(it) > 3 else ""):
        return "checked flags differ: model " + mflags.strip()
    return None


def run_payload(ctx, model, harness):
    if ctx.replay and "pcases" in ctx.replay:
        cases = [tuple(c) for c in ctx.replay["pcases"]]
        hist = {"replay": len(cases)}
    elif ctx.replay and "cases" in ctx.replay:
        return
    else:
        C = gen_payload_cases(ctx)
        cases, hist = load_corpus("pcases") + C.cases, C.hist
    cases = [("w0", "world", [])] + cases
    inp = os.path.join(ctx.work, "payload.txt")
    write_cases(inp, cases)
    rc2, ires, orc, ierr = vlib.run_lines([harness], inp, timeout=1500)
    w = ires.get("w0", "")
    shape = dict(t.split("=") for t in w.split()[1:] if "=" in t)
    if any(str(WORLD[k]) != shape.get(k) for k in WORLD):
        ctx.broken.append("harness world shape changed: " + w[-120:] + " " + ierr[-200:])
        return
    byid = {c[0]: c for c in cases}
    minp = os.path.join(ctx.work, "payload_model.txt")
    n = 0
    with open(minp, "w") as f:
        for cid, op, args in cases[1:]:
            line = ires.get(cid)
            if line is None or line == "SKIP" or " |" not in line:
                continue
            f.write("%s %s %s\n" % (cid, MODEL_OP.get(op, op), line.split(" |", 1)[1].strip()))
            n += 1
    rc1, mres, _, merr = vlib.run_lines([model], minp, timeout=1500)
    bad = []
    verd = {}
    for cid, op, args in cases[1:]:
        line = ires.get(cid)
        if line == "SKIP":
            continue
        if line is None or cid not in mres:
            bad.append((cid, "missing result (model: %s, impl: %s)" % (mres.get(cid), line)))
            continue
        head = line.split(" |", 1)[0]
        why = agree(op, mres[cid], head)
        verd[head.split()[0]] = verd.get(head.split()[0], 0) + 1
        if why:
            bad.append((cid, why))
    ctx.cov["evaluations"] += len(cases) - 1
    ctx.cov["distinct_nontrivial"] += len({(op, tuple(a)) for _, op, a in cases})
    ctx.cov["disagreements_checked"] += n
    ctx.cov["traces_validated_against_impl"] += n - len(bad)
    ctx.cov["payloads"] = {"mutation_histogram": hist, "impl_verdicts": verd, "world": w[-110:],
                           "skipped": sum(1 for v in ires.values() if v == "SKIP")}
    for c in cases[1:3]:
        ctx.sample({"case": list(c), "impl": ires.get(c[0], "")[:160], "model": mres.get(c[0])})
    # direct oracle: honest accepted, non-neutral mutation rejected, memo flag == verdict
    for i, text in orc:
        c = byid.get(i)
        ctx.violation({"kind": "input", "pcases": [list(c)] if c else [], "oracle": text,
                       "impl": ires.get(i, "")[:300], "model": mres.get(i)})
    # decision pipeline vs model: the model is the proved specification of the pipeline over the measured leaf facts
    for cid, why in bad[:5]:
        c = byid.get(cid)
        ctx.violation({"kind": "input", "pcases": [list(c)] if c else [], "what": "decision pipeline differs from the proved model: " + why,
                       "impl": ires.get(cid, "")[:300], "model": mres.get(cid)})
    if rc1 != 0 or rc2 != 0:
        ctx.broken.append("runner(payload): model rc=%d impl rc=%d %s" % (rc1, rc2, (merr + ierr)[-300:]))


def _tmp(ctx, name, text):
    p = os.path.join(ctx.work, name)
    open(p, "w").write(text)
    return p


def _hist(xs):
    h = {}
    for x in xs:
        h[x] = h.get(x, 0) + 1
    return h


def _sizes(xs):
    h = {}
    for x in xs:
        k = "<=80" if x <= 80 else "<=128" if x <= 128 else "<=256" if x <= 256 else ">256"
        h[k] = h.get(k, 0) + 1
    return h


def run(ctx):
    ctx.prove()
    okm, model, mlog = vlib.build_model("Stateless")
    okh, hs, hlog = vlib.build_harness(["h_stateless"], "rel")
    if not okm:
        ctx.broken.append("model-build: " + mlog[-300:])
    if not okh:
        ctx.broken.append("harness-build: " + hlog[-300:])
    if not (okm and okh):
        return
    # the sanitizer stage needs the ASan library variant: always in thorough; in quick only when it is already built for
    # this repo (setup.sh prebuilds it for /repo), so that a scratch repo does not pay a second full library build
    oka, hsa = False, {}
    if ctx.tier == "thorough" or os.path.exists(vlib.lib_path("asan")):
        oka, hsa, alog = vlib.build_harness(["h_stateless"], "asan")
        if not oka:
            ctx.broken.append("harness-build(asan): " + alog[-300:])
    ctx.cov["asan_stage"] = "run" if oka else "skipped (ASan library variant not built for this repo; quick tier)"
    ctx.cov["rule"] = ("distinct = distinct (op, arguments) lines; embedding layouts: contiguous at every offset, one foreign "
                       "byte at every position, interleavings, every n x offset-width x length-width x table-position split "
                       "shape, truncations, stray/partial magics, offsets at/past the end, fuzzed descriptors")
    run_embed(ctx, model, hs["h_stateless"], hsa.get("h_stateless") if oka else None)
    run_payload(ctx, model, hs["h_stateless"])
    ctx.cov["trusted_base"] = [
        "section variables (oracles): sha256d, sha256, verify, address derivation, PoW predicates, altchain header check",
        "harness/h_stateless.cpp incl. its independent embedding decoder; props/_c05gen.py split encoder",
    ]
