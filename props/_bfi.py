"""BFI stage of C11: the bitcoin wire types of include/veriblock/bfi/bitcoin/{serialize,transaction,block}.hpp.

The model (coq/Bfi/BfiDefs.v) is the proved specification (coq/Bfi/BfiProofs.v, BfiWire.v; theorems C11_bfi_* in
coq/Properties_C11.v): compact size, fixed-width little-endian integers, byte vectors/strings, generic vectors,
OutPoint/TxIn/TxOut/Transaction (witness flag format)/BlockHeader/Block. It is extracted (coq/Extract_Bfi.v,
ocaml/Bfi_driver.ml) and run on the same lines as harness/h_bfi.cpp, which calls the real Serialize/Unserialize/
GetSerializeSize templates. A difference, or a failure of the implementation's own oracle (decode(encode x) = x,
size = length, re-encode of a decoded value = consumed bytes), is a concrete failing input.
"""
import os
import time

import vlib

MAX_SIZE = 0x02000000
NOWIT_TYPES = ("txnw", "blocknw")
LENS = [0, 1, 2, 127, 128, 252, 253, 254, 255, 256, 257, 65534, 65535, 65536, 65537]
RAW = [0, 1, 252, 253, 254, 255, 256, 65534, 65535, 65536, 65537, 2 ** 32 - 1, 2 ** 32, 2 ** 32 + 1,
       MAX_SIZE - 1, MAX_SIZE, MAX_SIZE + 1, 2 ** 63 - 1, 2 ** 63, 2 ** 64 - 1]
INT_KINDS = {"u8": (1, False), "u16": (2, False), "u32": (4, False), "u64": (8, False),
             "i8": (1, True), "i16": (2, True), "i32": (4, True), "i64": (8, True)}


# ---------------------------------------------------------------------------
# helpers that only BUILD inputs (byte strings fed to both sides); never used as an oracle
# ---------------------------------------------------------------------------
def hx(b):
    b = bytes(b)
    return b.hex() if b else "-"


def num(v):
    return "%x" % v if v >= 0 else "-%x" % (-v)


def le(v, k):
    return (v % (1 << (8 * k))).to_bytes(k, "little")


def cs(n):
    if n < 253:
        return bytes([n])
    if n <= 0xffff:
        return b"\xfd" + le(n, 2)
    if n <= 0xffffffff:
        return b"\xfe" + le(n, 4)
    return b"\xff" + le(n, 8)


def cs_forms(n):
    """every prefix form that can carry n (the wider ones are non-canonical)"""
    f = []
    if n < 256:
        f.append(bytes([n]))
    if n <= 0xffff:
        f.append(b"\xfd" + le(n, 2))
    if n <= 0xffffffff:
        f.append(b"\xfe" + le(n, 4))
    f.append(b"\xff" + le(n, 8))
    return f


def b_bytes(b):
    return cs(len(b)) + bytes(b)


def b_outpoint(o):
    return o[0] + le(o[1], 4)


def b_txin(i):
    return b_outpoint(i[0]) + b_bytes(i[1]) + le(i[2], 4)


def b_txout(o):
    return le(o[0], 8) + b_bytes(o[1])


def b_wit(w):
    return cs(len(w)) + b"".join(b_bytes(x) for x in w)


def b_tx(t, allow=True, marker=None, flags=None, witness=None):
    """t = (version, locktime, vin, vout); marker/flags/witness override the canonical choice (hostile forms)"""
    ver, lt, vin, vout = t
    has = any(i[3] for i in vin)
    ext = (allow and has) if marker is None else marker
    fl = 1 if flags is None else flags
    wit = ext if witness is None else witness
    out = le(ver, 4)
    if ext:
        out += b"\x00" + bytes([fl])
    out += cs(len(vin)) + b"".join(b_txin(i) for i in vin)
    out += cs(len(vout)) + b"".join(b_txout(o) for o in vout)
    if wit:
        out += b"".join(b_wit(i[3]) for i in vin)
    return out + le(lt, 4)


def b_header(h):
    return le(h[0], 4) + h[1] + h[2] + le(h[3], 4) + le(h[4], 4) + le(h[5], 4)


# value tokens
def t_outpoint(o):
    return [hx(o[0]), num(o[1])]


def t_txin(i):
    return t_outpoint(i[0]) + [hx(i[1]), num(i[2]), num(len(i[3]))] + [hx(x) for x in i[3]]


def t_txout(o):
    return [num(o[0]), hx(o[1])]


def t_tx(t):
    r = [num(t[0]), num(t[1]), num(len(t[2]))]
    for i in t[2]:
        r += t_txin(i)
    r.append(num(len(t[3])))
    for o in t[3]:
        r += t_txout(o)
    return r


def t_header(h):
    return [num(h[0]), hx(h[1]), hx(h[2]), num(h[3]), num(h[4]), num(h[5])]


class Gen:
    def __init__(self, rng, quick):
        self.r = rng
        self.quick = quick
        self.cases = []
        self.hits = {}
        self.pyenc = {}

    def hit(self, k, n=1):
        self.hits[k] = self.hits.get(k, 0) + n

    def add(self, op, args, py=None):
        cid = "b%d" % len(self.cases)
        self.cases.append((cid, op, list(args)))
        if py is not None:
            self.pyenc[cid] = py
        return cid

    def dec(self, ty, data, kind):
        if len(data) <= 200000:
            self.add("dec", [ty, hx(data)])
            self.hit("dec:" + kind)

    def tail(self):
        return self.r.bytes(self.r.below(4))

    # ---------------- raw compact size ----------------
    def compact(self):
        r = self.r
        vals = set(range(0, 300)) | set(RAW)
        for b in range(0, 65):
            vals |= {max(0, (1 << b) - 1), (1 << b) % (1 << 64), ((1 << b) + 1) % (1 << 64)}
        for _ in range(40 if self.quick else 2000):
            vals.add(r.bits(r.range(0, 64)))
        for v in sorted(vals):
            self.add("cs_w", [num(v)])
            self.hit("cs_w")
        for v in sorted(vals):
            for f in cs_forms(v):
                self.add("cs_r", [hx(f + self.tail())])
                self.hit("cs_r:form-%d%s" % (len(f), "" if f == cs(v) else "-noncanonical"))
                if len(f) > 1 and (v in RAW or v < 4 or r.chance(1, 8)):
                    for cut in range(0, len(f)):
                        self.add("cs_r", [hx(f[:cut])])
                        self.hit("cs_r:truncated")
        for _ in range(60 if self.quick else 3000):
            self.add("cs_r", [hx(r.bytes(r.range(0, 10)))])
            self.hit("cs_r:random")

    # ---------------- fixed-width integers ----------------
    def ints(self):
        r = self.r
        for kind, (k, signed) in INT_KINDS.items():
            bits = 8 * k
            if signed:
                vs = {0, 1, -1, 2, -2, (1 << (bits - 1)) - 1, -(1 << (bits - 1)), -(1 << (bits - 1)) + 1, 0x7f, -0x80, 0xff % (1 << (bits - 1))}
                vs = {v for v in vs if -(1 << (bits - 1)) <= v < (1 << (bits - 1))}
                for _ in range(6):
                    vs.add(r.bits(bits) - (1 << (bits - 1)))
            else:
                vs = {0, 1, 0x7f, 0x80, 0xff, (1 << bits) - 1, (1 << bits) - 2, 1 << (bits - 1), (1 << (bits - 1)) - 1}
                for _ in range(6):
                    vs.add(r.bits(bits))
            for v in sorted(vs):
                self.add("enc", [kind, num(v)], le(v, k))
                self.dec(kind, le(v, k) + self.tail(), "int")
                self.hit("int:" + kind)
            for cut in range(0, k):
                self.dec(kind, r.bytes(cut), "int-truncated")

    # ---------------- byte vectors and strings ----------------
    def bytevecs(self):
        r = self.r
        for ty in ("bytes", "str"):
            for n in LENS:
                if ty == "str" and n > 300 and n not in (65535, 65536):
                    continue
                b = r.bytes(n)
                self.add("enc", [ty, hx(b)], b_bytes(b))
                self.dec(ty, b_bytes(b) + self.tail(), "bytes")
                self.hit("%s:len=%d" % (ty, n))
                if n <= 300 or n == 65536:
                    for f in cs_forms(n):
                        if f != cs(n):
                            self.dec(ty, f + b, "bytes-noncanonical-count")
                    if n > 0:
                        self.dec(ty, cs(n) + b[:-1], "bytes-one-short")
                    self.dec(ty, cs(n + 1) + b, "bytes-count+1")
            for c in (MAX_SIZE - 1, MAX_SIZE, MAX_SIZE + 1, 2 ** 32 - 1, 2 ** 32, 2 ** 64 - 1):
                self.dec(ty, cs(c) + r.bytes(r.range(0, 40)), "bytes-oversized-count")
            for _ in range(10 if self.quick else 500):
                self.dec(ty, r.bytes(r.range(0, 300)), "bytes-random")

    # ---------------- vectors of T ----------------
    def elem(self, ty):
        r = self.r
        if ty in INT_KINDS:
            k, signed = INT_KINDS[ty]
            v = r.bits(8 * k) - ((1 << (8 * k - 1)) if signed else 0)
            if r.chance(1, 4):
                v = r.choice([0, -1 if signed else (1 << (8 * k)) - 1, (1 << (8 * k - 1)) - 1])
            return [num(v)], le(v, k)
        if ty in ("bytes", "str"):
            b = r.bytes(r.choice([0, 0, 1, 2, 5, 20]))
            return [hx(b)], b_bytes(b)
        if ty == "u256":
            b = r.bytes(32)
            return [hx(b)], b
        if ty == "outpoint":
            o = self.outpoint()
            return t_outpoint(o), b_outpoint(o)
        if ty == "txin":
            i = self.txin(wit=False)
            return t_txin(i), b_txin(i)
        if ty == "txout":
            o = self.txout()
            return t_txout(o), b_txout(o)
        if ty == "vec:u16":
            n = r.choice([0, 1, 2, 3])
            es = [r.bits(16) for _ in range(n)]
            return [num(n)] + [num(e) for e in es], cs(n) + b"".join(le(e, 2) for e in es)
        raise ValueError(ty)

    def vectors(self):
        r = self.r
        plan = {"i8": LENS, "u16": [0, 1, 252, 253, 254, 255, 256, 65535, 65536], "u32": [0, 1, 252, 253, 254, 256],
                "u64": [0, 1, 253, 254], "i32": [0, 3, 253], "i64": [0, 3, 253, 254],
                "bytes": [0, 1, 252, 253, 254, 256], "str": [0, 2, 253], "u256": [0, 1, 252, 253, 254],
                "vec:u16": [0, 1, 253, 254], "outpoint": [0, 1, 253], "txin": [0, 1, 252, 253, 254], "txout": [0, 1, 253, 254]}
        for ety, counts in plan.items():
            ty = "vec:" + ety
            for n in counts:
                toks, body = [num(n)], b""
                for _ in range(n):
                    t, b = self.elem(ety)
                    toks += t
                    body += b
                enc = cs(n) + body
                self.add("enc", [ty] + toks, enc)
                self.dec(ty, enc + self.tail(), "vec")
                self.hit("%s:count=%d" % (ty, n))
                if n <= 300:
                    for f in cs_forms(n):
                        if f != cs(n):
                            self.dec(ty, f + body, "vec-noncanonical-count")
                    self.dec(ty, cs(n + 1) + body, "vec-count+1")
                    if n > 0:
                        self.dec(ty, cs(n - 1) + body, "vec-count-1")
                        self.dec(ty, enc[:-1], "vec-one-byte-short")
            for c in (MAX_SIZE - 1, MAX_SIZE, MAX_SIZE + 1, 2 ** 32 - 1, 2 ** 32, 2 ** 64 - 1):
                _, b = self.elem(ety)
                self.dec(ty, cs(c) + b + b, "vec-oversized-count")
        # byte vectors of boundary length inside a vector
        for n in (252, 253, 254):
            items = [r.bytes(n), b"", r.bytes(1)]
            enc = cs(3) + b"".join(b_bytes(x) for x in items)
            self.add("enc", ["vec:bytes", "3"] + [hx(x) for x in items], enc)
            self.dec("vec:bytes", enc + self.tail(), "vec")

    # ---------------- wire types ----------------
    def script(self, boundary=False):
        r = self.r
        if boundary:
            return r.bytes(r.choice([252, 253, 254, 255, 256]))
        return r.bytes(r.choice([0, 1, 2, 25, 71, 107]))

    def outpoint(self):
        r = self.r
        h = r.choice([bytes(32), b"\xff" * 32, r.bytes(32), r.bytes(32)])
        return (h, r.choice([0, 1, 0xffffffff, 0x80000000, r.bits(32)]))

    def txin(self, wit, boundary=False):
        r = self.r
        w = []
        if wit:
            if boundary and r.chance(1, 2):
                w = [r.bytes(r.choice([0, 1, 3])) for _ in range(r.choice([252, 253, 254]))]
            elif boundary:
                w = [r.bytes(r.choice([252, 253, 254]))]
            else:
                w = [r.bytes(r.choice([0, 1, 33, 72])) for _ in range(r.range(0, 3))]
        return (self.outpoint(), self.script(boundary and r.chance(1, 2)), r.choice([0, 0xffffffff, 0xfffffffe, r.bits(32)]), w)

    def txout(self, boundary=False):
        r = self.r
        v = r.choice([0, 1, -1, 4999990000, (1 << 63) - 1, -(1 << 63), r.bits(64) - (1 << 63), 21000000 * 10 ** 8])
        return (v, self.script(boundary and r.chance(1, 2)))

    def tx(self, wit, nin=None, nout=None, boundary=False):
        r = self.r
        nin = r.range(1, 3) if nin is None else nin
        nout = r.range(0, 3) if nout is None else nout
        vin = [self.txin(wit and (j == 0 or r.chance(1, 2)), boundary and j == 0) for j in range(nin)]
        vout = [self.txout(boundary and j == 0) for j in range(nout)]
        ver = r.choice([1, 2, -1, 0, 0x7fffffff, -0x80000000, r.bits(32) - (1 << 31)])
        return (ver, r.choice([0, 1, 0xffffffff, 499999999, 500000000, r.bits(32)]), vin, vout)

    def header(self):
        r = self.r
        return (r.choice([1, 2, 0x20000000, -1, -0x80000000, 0x7fffffff, r.bits(32) - (1 << 31)]),
                r.choice([bytes(32), r.bytes(32)]), r.choice([b"\xff" * 32, r.bytes(32)]),
                r.choice([0, 0xffffffff, r.bits(32)]), r.choice([0x1d00ffff, 0, 0xffffffff, r.bits(32)]), r.bits(32))

    def wire(self):
        r = self.r
        n = 12 if self.quick else 300
        for _ in range(n):
            o = self.outpoint()
            self.add("enc", ["outpoint"] + t_outpoint(o), b_outpoint(o))
            self.dec("outpoint", b_outpoint(o) + self.tail(), "outpoint")
            i = self.txin(wit=False, boundary=r.chance(1, 3))
            self.add("enc", ["txin"] + t_txin(i), b_txin(i))
            self.dec("txin", b_txin(i) + self.tail(), "txin")
            iw = self.txin(wit=True)
            self.add("encx", ["txin"] + t_txin(iw), b_txin(iw))       # the witness is not serialized by TxIn itself
            self.hit("txin-with-witness-standalone")
            x = self.txout(boundary=r.chance(1, 3))
            self.add("enc", ["txout"] + t_txout(x), b_txout(x))
            self.dec("txout", b_txout(x) + self.tail(), "txout")
            h = self.header()
            self.add("enc", ["header"] + t_header(h), b_header(h))
            self.dec("header", b_header(h) + self.tail(), "header")
            self.dec("header", b_header(h)[:r.range(0, 79)], "header-truncated")
        txs = []
        for k in range(30 if self.quick else 1200):
            wit = k % 2 == 0
            t = self.tx(wit, boundary=(k % 5 == 0))
            txs.append(t)
        # the scripts of seeded C11-6: exactly 253 bytes
        txs.append((1, 0, [((bytes(32), 0), r.bytes(253), 0xffffffff, [])], [(4999990000, r.bytes(347))]))
        txs.append((1, 0, [((bytes(32), 0), r.bytes(347), 0xffffffff, [])], [(4999990000, r.bytes(253))]))
        txs.append((2, 0, [((r.bytes(32), 1), b"", 0xfffffffe, [r.bytes(253), r.bytes(33)])], [(1, r.bytes(22))]))
        txs.append((2, 7, [self.txin(False) for _ in range(253)], [self.txout() for _ in range(2)]))
        txs.append((2, 7, [self.txin(False)], [self.txout() for _ in range(253)]))
        txs.append((2, 7, [self.txin(j == 200) for j in range(254)], []))
        txs.append((1, 0, [], []))
        for t in txs:
            e = b_tx(t)
            self.add("enc", ["tx"] + t_tx(t), e)
            self.dec("tx", e + self.tail(), "tx")
            self.hit("tx:%s" % ("witness" if any(i[3] for i in t[2]) else "plain"))
            # no-witness stream version: identical bytes when there is no witness, stripped otherwise
            if any(i[3] for i in t[2]):
                self.add("encx", ["txnw"] + t_tx(t), b_tx(t, allow=False))
                self.hit("txnw:witness-dropped")
            else:
                self.add("enc", ["txnw"] + t_tx(t), b_tx(t, allow=False))
            self.dec("txnw", e + self.tail(), "txnw-of-tx-bytes")
        # outside the round-trip premise: no inputs but outputs (read back as the extended-format marker)
        for _ in range(4 if self.quick else 60):
            t = self.tx(False, nin=0, nout=r.range(1, 3))
            self.add("encx", ["tx"] + t_tx(t), b_tx(t))
            self.dec("tx", b_tx(t) + self.tail(), "tx-empty-vin-with-outputs")
            self.add("enc", ["txnw"] + t_tx(t), b_tx(t, allow=False))
        # hostile transaction streams
        for k in range(16 if self.quick else 400):
            t = self.tx(k % 2 == 0, nin=r.range(0, 2), nout=r.range(0, 2))
            for fl in (0, 1, 2, 3, 0x80, 0xff):
                for w in (False, True):
                    self.dec("tx", b_tx(t, marker=True, flags=fl, witness=w) + self.tail(), "tx-flags=%x%s" % (fl, "+wit" if w else ""))
            e = b_tx(t)
            if k < (6 if self.quick else 40):
                for cut in range(len(e)):
                    self.dec("tx", e[:cut], "tx-truncated")
            for _ in range(3):
                if e:
                    p = r.below(len(e))
                    m = bytearray(e)
                    m[p] = r.choice([0, 1, 0xfc, 0xfd, 0xfe, 0xff, r.below(256)])
                    self.dec("tx", bytes(m), "tx-byte-mutation")
                    self.dec("txnw", bytes(m), "tx-byte-mutation")
        # blocks
        for k in range(4 if self.quick else 80):
            h = self.header()
            bt = [self.tx(j % 2 == 0) for j in range(r.choice([0, 1, 3]))]
            e = b_header(h) + cs(len(bt)) + b"".join(b_tx(t) for t in bt)
            toks = t_header(h) + [num(len(bt))]
            for t in bt:
                toks += t_tx(t)
            self.add("enc", ["block"] + toks, e)
            self.dec("block", e + self.tail(), "block")
            self.dec("blocknw", e, "block")
            if len(e) > 81:
                self.dec("block", e[:r.range(80, len(e) - 1)], "block-truncated")
        bt = [self.tx(False, nin=1, nout=1) for _ in range(253)]
        h = self.header()
        toks = t_header(h) + [num(253)]
        for t in bt:
            toks += t_tx(t)
        self.add("enc", ["block"] + toks, b_header(h) + cs(253) + b"".join(b_tx(t) for t in bt))


def write_cases(path, cases):
    with open(path, "w") as f:
        for cid, op, args in cases:
            f.write(" ".join([cid, op] + list(args)) + "\n")


def run_model(model, path):
    # the extracted functions recurse once per byte/element: give the driver a large stack
    return vlib.run_lines(["bash", "-c", "ulimit -s 4000000 2>/dev/null || ulimit -s unlimited 2>/dev/null; exec %s" % model],
                          path, timeout=1200)


def short(case):
    cid, op, args = case
    return [cid, op, [a if len(a) <= 400 else a[:200] + "...(%d chars)" % len(a) for a in args]]


def run(ctx):
    t0 = time.time()
    okm, model, mlog = vlib.build_model("Bfi")
    okh, hs, hlog = vlib.build_harness(["h_bfi"], "rel")
    if not okm:
        ctx.broken.append("model-build: Bfi: " + mlog[-300:])
    if not okh:
        ctx.broken.append("harness-build: h_bfi: " + hlog[-300:])
    if not (okm and okh):
        return 0
    H = hs["h_bfi"]
    quick = ctx.tier == "quick"
    replaying = bool(ctx.replay and ctx.replay.get("stage") == "bfi")
    if replaying:
        cases = [(c[0], c[1], list(c[2])) for c in ctx.replay["cases"]]
        g = None
    else:
        g = Gen(vlib.Rng((ctx.seed * 0x9E3779B1 + 0xBF1) & ((1 << 64) - 1)), quick)   # own stream: the serde stage keeps its cases
        g.add("consts", [])
        cdir = os.path.join(vlib.VERIF, "corpus", "C11")
        if os.path.isdir(cdir):
            for f in sorted(os.listdir(cdir)):
                if f.startswith("bfi_"):
                    for line in open(os.path.join(cdir, f)):
                        t = line.split()
                        if len(t) >= 2:
                            g.add(t[0], t[1:])
                            g.hit("corpus")
        g.compact()
        g.ints()
        g.bytevecs()
        g.vectors()
        g.wire()
        cases = g.cases
    p = os.path.join(ctx.work, "bfi.txt")
    write_cases(p, cases)
    rc1, mres, _, merr = run_model(model, p)
    rc2, ires, orc, ierr = vlib.run_lines([H], p, timeout=1200)
    byid = {c[0]: c for c in cases}
    stats = {"cases": len(cases), "model_rc": rc1, "impl_rc": rc2}
    if rc1 != 0 or any(c[0] not in mres for c in cases) or any(v.startswith("MODEL-ERROR") for v in mres.values()):
        bad = [c[0] for c in cases if c[0] not in mres or mres[c[0]].startswith("MODEL-ERROR")]
        ctx.broken.append("runner: bfi model driver rc=%d, %d cases without a result (first %s: %s) %s"
                          % (rc1, len(bad), bad[:1], mres.get(bad[0], "")[:100] if bad else "", merr[-200:]))
    if rc2 != 0:
        first = next((c for c in cases if c[0] not in ires), None)
        ctx.violation({"kind": "input", "stage": "bfi", "cases": [list(first)] if first else [], "rc": rc2,
                       "stderr": ierr[-1500:], "what": "BFI harness process died on this input"})
    # constants of the model against the compiled header
    for c in cases:
        if c[1] == "consts" and c[0] in ires and mres.get(c[0]) != ires[c[0]]:
            ctx.broken.append("corr:bfi MAX_SIZE: header has %s, model has %s (coq/Bfi/BfiDefs.v MAX_SIZE is stale)"
                              % (ires[c[0]], mres.get(c[0])))
    # generator self-check (input builder only): python encoder against the model
    if g is not None:
        pydiff = [i for i, b in g.pyenc.items() if i in mres and mres[i].split()[0] != hx(b)]
        if pydiff:
            ctx.broken.append("generator: bfi python input builder differs from the model on %d values, e.g. %s"
                              % (len(pydiff), short(byid[pydiff[0]])))
    cmp_ids = [c[0] for c in cases if c[1] != "consts" and c[0] in mres and c[0] in ires]
    diff = [i for i in cmp_ids if mres[i] != ires[i]]
    # re-run once to exclude flakiness
    if diff or orc:
        again = [byid[i] for i in sorted(set(diff) | {i for i, _ in orc if i in byid})]
        p2 = os.path.join(ctx.work, "bfi-again.txt")
        write_cases(p2, again)
        _, ires2, orc2, _ = vlib.run_lines([H], p2, timeout=600)
        diff = [i for i in diff if ires2.get(i) == ires[i]]
        orc = [(i, t) for i, t in orc if (i, t) in orc2]
    size = lambda i: sum(len(a) for a in byid[i][2])
    reported = 0
    seen = set()
    for i, text in sorted(orc, key=lambda x: size(x[0]) if x[0] in byid else 0):
        if i in seen or reported >= 3 or i not in byid:
            continue
        seen.add(i)
        reported += 1
        ctx.violation({"kind": "input", "stage": "bfi", "cases": [list(byid[i])],
                       "oracle": [t for j, t in orc if j == i], "model": mres.get(i, "")[:600], "impl": ires.get(i, "")[:600],
                       "what": "BFI wire type: the implementation's own oracle fails (decode(encode x) = x, "
                               "GetSerializeSize = bytes written, re-encode of a decoded value = consumed bytes)"})
    for i in sorted(diff, key=size):
        if i in seen or reported >= 4:
            continue
        seen.add(i)
        reported += 1
        ctx.violation({"kind": "input", "stage": "bfi", "cases": [list(byid[i])], "model": mres[i][:2000], "impl": ires[i][:2000],
                       "what": "BFI wire type: implementation differs from the proved wire-format specification "
                               "(coq/Bfi/BfiDefs.v, theorems C11_bfi_*)"})
    hist = {}
    for c in cases:
        k = c[1] + (":" + c[2][0] if c[1] in ("enc", "encx", "dec") else "")
        hist[k] = hist.get(k, 0) + 1
    decoded = sum(1 for c in cases if c[1] in ("dec", "cs_r") and ires.get(c[0], "").startswith("OK"))
    errs = {}
    for c in cases:
        v = ires.get(c[0], "")
        if v.startswith("ERR"):
            errs[v] = errs.get(v, 0) + 1
    stats.update({"compared": len(cmp_ids), "disagreements": len(diff), "oracle_failures": len(orc),
                  "op_histogram": hist, "byte_strings_that_decoded": decoded, "error_kinds": errs,
                  "boundary_hits": dict(sorted(g.hits.items())) if g else {}, "wall_s": round(time.time() - t0, 2),
                  "rule": "raw compact sizes 0..299, 2^k-1/2^k/2^k+1, MAX_SIZE-1/MAX_SIZE/MAX_SIZE+1, every prefix form "
                          "(canonical and wider) with truncations; integers at 0/max/sign boundaries; byte vectors, strings "
                          "and vectors of T with lengths/counts 0,1,252..257,65534..65537 and overridden/oversized counts; "
                          "transactions with and without witnesses, scripts/stacks of 252..256 bytes/items, every flags "
                          "byte in {0,1,2,3,80,ff} with and without a witness section, all prefixes, byte mutations"})
    ctx.cov["bfi"] = stats
    if not replaying and g is not None:
        for c in (cases[1], cases[-1]):
            ctx.sample({"case": short(c), "model": (mres.get(c[0]) or "")[:160], "impl": (ires.get(c[0]) or "")[:160]})
    ctx.cov["trusted_base"] = list(ctx.cov.get("trusted_base", [])) + [
        "BFI: ocaml/Bfi_driver.ml + harness/h_bfi.cpp value-token glue and error-text -> kind mapping; "
        "props/_bfi.py input builders (never used as an oracle)"]
    return len(cmp_ids)
