"""C11 — serialization round-trips exactly and estimateSize equals the encoded size."""
import os
import vlib
from props import _serde as S
from props import _bfi

LEVEL = "proof"
HARNESSES = [("h_serde", "rel"), ("h_bfi", "rel")]
ASSUMPTIONS = [
    "Address values are modelled as (type byte, base58/base59-decoded bytes); that the C++ text form and these bytes "
    "determine each other (DecodeBase58(EncodeBase58 b) = b on valid addresses) belongs to property C18 and is only "
    "exercised, not proved, here; address validation/normalisation (base58/59 + sha256 checksum; the type is derived from the text) is the Section "
    "variable addr_norm; the general theorems about codecs containing addresses carry the premise addr_norm_sound (result is a type "
    "byte, at most VBK_ADDRESS_SIZE bytes, normalisation idempotent); the premise is discharged for the concrete "
    "addr_norm_c18 (C18 base58/base59/Address::fromString model) for every sha256 (C11_addr_norm_sound_discharged), and the "
    "*_concrete theorems carry no premise; that the driver/C++ address path corresponds to addr_norm_c18 is tested, not proved",
    "MerklePath::subject (not serialised) and the memoised hash_ fields are outside the model value; the hash "
    "functions themselves (sha256, progpow) are abstract in the theorems; the real memoised paths are compared by the "
    "implementation's own oracle (memo sequences, VBK heights below 8000 so that one ethash epoch cache is reused)",
]
META = {
    "text": "Theorems (Coq, all values / all byte strings, no size bound): for the serde primitives (single-BE int64 with "
            "trimmedArray incl. negatives, single-byte-length and var-length values with range checks, readArrayOf) and "
            "for 27 codecs — Address, Coin, Output, BtcTx, BtcBlock (raw + vbk), VbkBlock (raw + vbk), AltBlock, "
            "KeystoneContainer, ContextInfoContainer, AuthenticatedContextInfoContainer, MerklePath, VbkMerklePath, "
            "PublicationData, VbkTx, VbkPopTx, ATV, VTB, PopData, VbkEndorsement, AltEndorsement, "
            "StoredBlockIndex<Btc|Vbk|Alt> with their stored addons and PopState: decode(encode x ++ rest) = (x, rest) for "
            "every well-formed x; whatever decodes is well-formed; estimateSize x = |encode x|; re-encoding a decoded value "
            "decodes to the same value (value stability, not byte equality: the decoders accept non-canonical encodings); "
            "canonical encodings are injective. Unconditional (c11_full) for 18 of them; for VbkTx, VbkPopTx, "
            "ATV, VTB, PopData under the explicit premise `fits` (see note). The executable model is extracted and compared "
            "with the rebuilt library on boundary-aimed values (encodings byte-identical, estimateSize equal) and on byte "
            "strings incl. hostile variants (decoded values identical); the implementation's own round-trip/size/hash "
            "oracle runs on every case.",
    "note": "Trusted: Coq kernel, extraction (ExtrOcamlBasic), OCaml driver incl. its sha256/base58 address check and the "
            "id-order canonicalisation of PopState, C++ harness, value text format, generators, tools/gen_consts.py "
            "(cross-checked against the compiled headers on every run). _partial: for VbkTx/VbkPopTx/ATV/VTB/"
            "PopData round trip and stability need `fits` (canonical size of each nested buffer within the limit of its "
            "length prefix); it is not implied by decodability (the decoder accepts shorter non-canonical encodings; "
            "MAX_PUBLICATIONDATA_SIZE is 6 bytes smaller than the largest canonical PublicationData). Two boundary "
            "statements are REFUTED for the code as it is (C11_VbkTx_pubdata_max_size_refuted, "
            "C11_reencode_at_size_limit_refuted) and replayed on the implementation under the keys "
            "C11:pubdata-max-size-6-short (quick+thorough) and C11:noncanonical-at-size-limit (thorough, 5.5 MB inputs); any "
            "other failure in those ranges is a plain violation. C11_ids_of_content: ids/hashes are functions of the raw "
            "encodings only (abstract hash functions); C11_id_memo_transparent: every sequence of setters and getHash calls on "
            "a memoised block answers hash(raw current content). The real memo code is exercised by API sequences (op memo: "
            "hash; mutate one field through every public setter of VbkBlock/BtcBlock and the public members of ATV/VTB; hash) "
            "compared with a fresh object decoded from the same encoding, incl. progpow hashes. C11_counting_*: the container arithmetic of CountingContext (C12's CountDefs) is the "
            "overhead of the PopData codec (prefix = singleBEValueSize, estimate = esize PopData, running figure = encoded "
            "size); the real CountingContext is driven by op count against PopData::estimateSize/toVbkEncoding().size() with "
            "limits at the exact boundary +-1 around the 255->256 prefix growth of each kind. BFI bitcoin wire types (C11_bfi_*, "
            "coq/Bfi): compact size (round trip, size, canonical decoding incl. the non-canonical and MAX_SIZE rejections), "
            "little-endian integers, Blob<N>, byte vectors/strings, vectors of T, field sequences, OutPoint, TxIn, TxOut, "
            "ScriptWitness, Transaction (both stream versions; witness marker/flags format with its Superfluous/Unknown "
            "rejections; premise: with witnesses allowed an input-less transaction has no outputs, refuted otherwise), "
            "BlockHeader and Block are modelled, proved "
            "(codec_ok: round trip with tail, GetSerializeSize = bytes written, whatever decodes is the canonical encoding of "
            "its value) and compared with the real Serialize/Unserialize/GetSerializeSize templates (harness/h_bfi.cpp) "
            "on boundary lengths 0,1,252..257,65534..65537, MAX_SIZE+-1 and hostile streams (non-canonical and oversized "
            "counts, every flags byte, all prefixes, byte mutations; exceptions mapped to error kinds that must agree). "
            "Transaction/Block have no GetSerializeSize (CSizeComputer lacks getVersion()): their size figure is the encoded "
            "length by definition. Not modelled: VarInt, bool (decodes any non-zero byte as true), float/double, map/set/pair/shared_ptr, "
            "LimitedString, BlockLocator, bfi/bitcoin/net messages, the PopData blob inside a wire block, "
            "PopPayouts. Stored "
            "indices are decoded from bytes only (no enc op).",
    "technique": "Coq proof (codec combinators, structural induction) + extraction-based differential correspondence",
}


def gen_cases(ctx, n_per_type):
    g = S.Gen(ctx.rng, big=(ctx.tier != "quick"))
    vals = []
    c = S.consts()
    for t in S.TYPES:
        k = n_per_type if t not in ("popdata", "vtb", "vbkpoptx") else max(8, n_per_type // 4)
        for _ in range(k):
            v = g.value(t)
            if len(S.py_encode(c, t, v)[0]) <= 90000:    # the 65536-byte prefix boundary still fits
                vals.append((t, v))
    return g, vals


def run(ctx):
    ctx.prove()
    if ctx.replay and ctx.replay.get("stage") == "bfi":
        ctx.cov["evaluations"] = _bfi.run(ctx)
        return
    bfi_cases = _bfi.run(ctx) if not ctx.replay else 0
    okm, model, mlog = vlib.build_model("Serde")
    okh, hs, hlog = vlib.build_harness(["h_serde"], "rel")
    if not okm:
        ctx.broken.append("model-build: " + mlog[-300:])
    if not okh:
        ctx.broken.append("harness-build: " + hlog[-300:])
    if not (okm and okh):
        return
    H = hs["h_serde"]
    c = S.consts()
    quick = ctx.tier == "quick"
    if ctx.replay and ctx.replay.get("key") in (S.KEY_PUBDATA, S.KEY_LIMIT):
        return replay_boundary(ctx, H, c)
    if ctx.replay and "cases" in ctx.replay and ctx.replay["cases"] and ctx.replay["cases"][0][1] == "count":
        return counting_context(ctx, H, ctx.rng, [tuple(x) for x in ctx.replay["cases"]])
    if ctx.replay and "cases" in ctx.replay and ctx.replay["cases"] and ctx.replay["cases"][0][1] == "memo":
        return memo_sequences(ctx, H, ctx.rng, [tuple(x) for x in ctx.replay["cases"]])
    if ctx.replay and "cases" in ctx.replay:
        cases = [tuple(x) for x in ctx.replay["cases"]]
        return compare(ctx, model, H, cases, {}, replaying=True)
    g, vals = gen_cases(ctx, 60 if quick else 600)
    # corpus first
    cases = [("k0", "consts", [])]
    cdir = os.path.join(vlib.VERIF, "corpus", "C11")
    if os.path.isdir(cdir):
        for i, f in enumerate(sorted(os.listdir(cdir))):
            t = f.split("_")[0]
            if t in S.TYPES:
                cases.append(("q%d" % i, "dec", [t, open(os.path.join(cdir, f)).read().strip()]))
    # 1. encode every generated value with model and implementation: bytes identical, estimateSize identical
    enc_cases = []
    pyenc = {}
    stored_only = set()
    for i, (t, v) in enumerate(vals):
        cid = "e%d" % i
        enc_cases.append((cid, "enc", [t, S.show(v)]))
        pyenc[cid] = S.py_encode(c, t, v)[0]
        if t in S.NO_ENC:
            stored_only.add(cid)
    p = os.path.join(ctx.work, "enc.txt")
    S.write_cases(p, enc_cases)
    S.write_cases(p, [x for x in enc_cases if x[0] not in stored_only])
    rc, menc, _, merr = S.run_model(model, p)
    for cid in stored_only:
        menc[cid] = S.hb(pyenc[cid]) + " -"
    notwf = [cid for cid, r in menc.items() if r == "NOTWF"]
    ctx.cov["generated_values_rejected_by_model_wf"] = len(notwf)
    enc_ok = [x for x in enc_cases if menc.get(x[0]) not in (None, "NOTWF") and not menc[x[0]].startswith("MODEL-ERROR")]
    for x in enc_cases:
        if menc.get(x[0], "").startswith("MODEL-ERROR") or x[0] not in menc:
            ctx.broken.append("runner: model failed on %s: %s" % (x[0], menc.get(x[0])))
            break
    # generator self-check: the independent Python encoder agrees with the model
    pydiff = [cid for cid, _, _ in enc_ok if menc[cid].split()[0] != S.hb(pyenc[cid])]
    if pydiff:
        ctx.broken.append("generator: python encoder differs from the model on %d values, e.g. %s" % (len(pydiff), pydiff[0]))
    cases += [x for x in enc_ok if x[0] not in stored_only]
    # 2. decode: canonical encodings with a random tail, non-canonical and hostile variants, random bytes
    r = ctx.rng
    j = 0
    for (cid, _, (t, txt)), (t2, v) in zip(enc_cases, vals):
        if cid in notwf:
            continue
        b = pyenc[cid]
        if len(b) > 40000 and not r.chance(1, 4):
            continue
        tail = r.bytes(r.below(4))
        cases.append(("d%d" % j, "dec", [t, S.hb(b + tail)]))
        j += 1
        nh = 3 if quick else 6
        for kind, hb_ in S.hostile_variants(r, c, t, v, nh) + S.byte_mutations(r, b, 2):
            if len(hb_) > 80000:
                continue
            cases.append(("d%d" % j, "dec", [t, S.hb(hb_)]))
            g.hit("mut=" + kind)
            j += 1
    for _ in range(8 if quick else 100):
        cases.append(("d%d" % j, "dec", ["address", S.hb(S.standard_address_as_type3_wire(S.address_from_pubkey(r.bytes(r.range(0, 40)))))]))
        g.hit("mut=type3-wire-of-standard-address")
        j += 1
    gov = S.Gen(r.fork(), big=False, over=True)
    for t in S.TYPES:
        for _ in range(6 if quick else 100):
            try:
                b = S.py_encode(c, t, gov.value(t))[0]
            except (OverflowError, ValueError):
                continue
            if len(b) <= 80000:
                cases.append(("d%d" % j, "dec", [t, S.hb(b)]))
                g.hit("mut=overlimit")
                j += 1
    ctx.cov["boundary_hits"] = dict(sorted(g.hits.items()))
    compare(ctx, model, H, cases, {"types": len(S.TYPES)})
    boundary_findings(ctx, model, H, c, r)
    memo_sequences(ctx, H, r)
    counting_context(ctx, H, r)
    ctx.cov["evaluations"] += bfi_cases


def counting_context(ctx, H, r, cases=None):
    """CountingContext::canFit/update (the figure that enforces the PopData size limit while a block is filled) against
    the real PopData::estimateSize / toVbkEncoding().size(), with the limits exactly at, below and above the sizes and
    counts reached around the 255 -> 256 length-prefix boundary of each kind (implementation oracle)"""
    allorc, allcr = [], []

    def run(cs):
        res, orc, crashes = S.run_impl_bisect(ctx, H, cs, timeout=900, tag="count")
        allorc.extend(orc)
        allcr.extend(crashes)
        return res
    if cases is not None:
        p1, res1, p2 = cases, run(cases), []
    else:
        p1, res1, p2 = S.counting_cases(r, run, ctx.tier == "quick")
    res2 = run(p2) if p2 else {}
    byid = {x[0]: x for x in p1 + p2}
    for i, text in allorc[:5]:
        ctx.violation({"kind": "input", "cases": [list(byid[i])] if i in byid else [], "oracle": text,
                       "what": "CountingContext disagrees with PopData::estimateSize / the encoded size"})
    for x in p1 + p2:
        v = (res1 if x in p1 else res2).get(x[0], "")
        if not v.startswith("OK"):
            ctx.violation({"kind": "input", "cases": [list(x)], "impl": v[:300], "what": "count sequence did not complete"})
            break
    for case, rc, err in allcr[:2]:
        ctx.violation({"kind": "input", "cases": [list(case)] if case else [], "rc": rc, "stderr": err,
                       "what": "harness process died on a count sequence"})
    steps = sum(int(v.split()[1]) for v in list(res1.values()) + list(res2.values()) if v.startswith("OK"))
    ctx.cov["counting_context"] = {"sequences": len(p1) + len(p2), "canFit_steps_compared": steps,
                                   "limits": "maxsize = size reached after a token -1/0/+1; per-kind count limit 255/256/257"}
    ctx.cov["evaluations"] += len(p1) + len(p2)


def memo_sequences(ctx, H, r, cases=None):
    """ids/hashes must be a function of the content in EVERY memo state: hash; mutate one field through the public API;
    hash — compared by the harness with a fresh object decoded from the same encoding (implementation oracle only)"""
    mc = cases if cases is not None else S.memo_cases(r, ctx.tier == "quick")
    res, orc, crashes = S.run_impl_bisect(ctx, H, mc, timeout=900, tag="memo")
    byid = {x[0]: x for x in mc}
    for i, text in orc[:5]:
        ctx.violation({"kind": "input", "cases": [list(byid[i])] if i in byid else [], "oracle": text,
                       "what": "memoised hash/id is not a function of the current content"})
    for x in mc:
        v = res.get(x[0], "")
        if not v.startswith("OK") and not any(i == x[0] for i, _ in orc):
            ctx.violation({"kind": "input", "cases": [list(x)], "impl": v[:300],
                           "what": "memo sequence did not complete (throw / bad value)"})
            break
    for case, rc, err in crashes[:2]:
        ctx.violation({"kind": "input", "cases": [list(case)] if case else [], "rc": rc, "stderr": err,
                       "what": "harness process died on a memo sequence"})
    ctx.cov["memo_sequences"] = {"run": len(mc), "entities": dict(S.MEMO_SETTERS),
                                 "hash_reads": sum(int(v.split()[1]) for v in res.values() if v.startswith("OK"))}
    ctx.cov["evaluations"] += len(mc)


def replay_boundary(ctx, H, c):
    """replay of one of the two keyed boundary findings: the implementation's own oracle must fail again"""
    rp = ctx.replay
    if rp["key"] == S.KEY_PUBDATA:
        cases = [tuple(x) for x in rp["cases"]]
    else:
        ent = rp["construct"]["entity"]
        cases = [("L" + ent, "dec", [ent, S.size_limit_witness(c, ent).hex()])]
    p = os.path.join(ctx.work, "replay.txt")
    S.write_cases(p, cases)
    rc, res, orc, err = vlib.run_lines([H], p, timeout=900)
    ctx.cov["evaluations"] = len(cases)
    bad = [t for _, t in orc if t.startswith("re-encoding does not decode")]
    if bad:
        obj = {k: v for k, v in rp.items() if k not in ("seed",)}
        obj["oracle"] = bad[0]
        ctx.violation(obj, key=rp["key"])
    elif rc != 0:
        ctx.violation({"kind": "input", "rc": rc, "stderr": err[-1500:], "what": "harness died on the replayed input"})


def boundary_findings(ctx, model, H, c, r):
    """the two boundary statements of C11 that are false for the code as it is (Coq: C11_*_refuted), replayed on the
    implementation and reported under stable keys; anything ELSE that goes wrong in the same range is a plain violation"""
    # (a) PublicationData of canonical size MAX-2 .. MAX+6 inside VbkTx / ATV
    pc = S.pubdata_limit_cases(r, c)
    mx = c["MAX_PUBLICATIONDATA_SIZE"]
    p = os.path.join(ctx.work, "pubdata-limit.txt")
    S.write_cases(p, [x[:3] for x in pc])
    _, mres, _, _ = S.run_model(model, p)
    ires, orc, crashes = S.run_impl_bisect(ctx, H, [x[:3] for x in pc], timeout=600, tag="pub")
    byid = {x[0]: x for x in pc}
    failed = {}
    for i, text in orc:
        failed.setdefault(i, []).append(text)
    hit = 0
    known_hits, first_known = [], None
    for cid, op, args, size in pc:
        m, im, f = mres.get(cid), ires.get(cid), failed.get(cid, [])
        expected_bad = size > mx
        if expected_bad:
            known = (m == "NOTWF" and len(f) == 1 and f[0].startswith("re-encoding does not decode") and
                     "vbktx-publication-bytes+readvarlen-bad-range+range-above" in f[0])
            if known:
                hit += 1
                known_hits.append((size, args[0]))
                if first_known is None:
                    first_known = {"kind": "input", "cases": [[cid, op, args]], "pubdata_canonical_size": size, "limit": mx,
                                   "oracle": f[0],
                                   "what": "a VbkTx whose PublicationData fields are all within their declared limits encodes, "
                                           "but its own encoding does not decode (MAX_PUBLICATIONDATA_SIZE too small)"}
            elif f or m != "NOTWF" or im is None or im.startswith("THROW"):
                ctx.violation({"kind": "input", "cases": [[cid, op, args]], "pubdata_canonical_size": size, "oracle": f,
                               "model": m, "impl": (im or "")[:300],
                               "what": "unexpected behaviour just above MAX_PUBLICATIONDATA_SIZE"})
        else:
            if f or m != im:
                ctx.violation({"kind": "input", "cases": [[cid, op, args]], "pubdata_canonical_size": size, "oracle": f,
                               "model": (m or "")[:300], "impl": (im or "")[:300],
                               "what": "round trip / size / model agreement fails at or below MAX_PUBLICATIONDATA_SIZE"})
    if first_known is not None:
        first_known["all_failing_sizes_and_entities"] = known_hits
        ctx.violation(first_known, key=S.KEY_PUBDATA)
    for case, rc, err in crashes[:2]:
        ctx.violation({"kind": "input", "cases": [list(case[:3])] if case else [], "rc": rc, "stderr": err,
                       "what": "harness process died on a PublicationData-limit case"})
    ctx.cov["pubdata_limit_cases"] = {"run": len(pc), "range": [mx - 2, mx + 6], "known_finding_hits": hit}
    ctx.cov["evaluations"] += len(pc)
    # (b) re-encode stability at MAX_POPDATA_SIZE: multi-megabyte inputs, thorough tier only
    if ctx.tier != "thorough":
        ctx.cov["size_limit_witnesses"] = ("not run in quick (3 inputs of 5.5 MB); thorough replays them under key " + S.KEY_LIMIT)
        return
    res = {}
    for ent in ("vbkpoptx", "vtb", "popdata"):
        b = S.size_limit_witness(c, ent)
        pth = os.path.join(ctx.work, "limit-%s.txt" % ent)
        S.write_cases(pth, [("L" + ent, "dec", [ent, b.hex()])])
        rc, r1, o1, err = vlib.run_lines([H], pth, timeout=900)
        line = r1.get("L" + ent, "")
        texts = [t for _, t in o1]
        construction = {"entity": ent, "bytes": len(b), "sha256": __import__("hashlib").sha256(b).hexdigest(),
                        "how": "props/_serde.py size_limit_witness(consts, '%s'): VbkPopTx, 18600 context blocks, btctx sized so "
                               "that the raw tx buffer has exactly MAX_POPDATA_SIZE bytes with MerklePath index 0 written as 00" % ent}
        res[ent] = {"decoded": line.startswith("V "), "oracle": texts[:2], "bytes": len(b)}
        if rc != 0 or not line:
            ctx.violation({"kind": "input", "construct": construction, "rc": rc, "stderr": err[-1500:],
                           "what": "harness died on the size-limit witness"})
        elif line.startswith("V ") and len(texts) == 1 and texts[0].startswith("re-encoding does not decode") and \
                "readvarlen-bad-range+range-above" in texts[0]:
            ctx.violation({"kind": "input", "construct": construction, "oracle": texts[0],
                           "what": "a byte string that decodes re-encodes canonically into more bytes than the enclosing "
                                   "length prefix allows: decode(encode(decode bs)) fails"}, key=S.KEY_LIMIT)
        elif line.startswith("V ") and not texts:
            ctx.broken.append("corr:size-limit witness %s: the implementation no longer shows the instability the model predicts "
                              "(C11_reencode_at_size_limit_refuted)" % ent)
        else:
            ctx.violation({"kind": "input", "construct": construction, "impl": line[:300], "oracle": texts[:3],
                           "what": "unexpected behaviour on the size-limit witness"})
    ctx.cov["size_limit_witnesses"] = res
    ctx.cov["evaluations"] += 3


def compare(ctx, model, H, cases, info, replaying=False):
    p = os.path.join(ctx.work, "cases.txt")
    S.write_cases(p, cases)
    rc1, mres, _, merr = S.run_model(model, p)
    ires, orc, crashes = S.run_impl_bisect(ctx, H, cases, timeout=1500)
    if "k0" in ires:
        S.check_consts(ctx, ires)
    byid = {x[0]: x for x in cases}
    cmpcases = [x for x in cases if x[1] != "consts"]
    bad = [i for i in vlib.diff_results({k: v for k, v in mres.items() if k != "k0"},
                                        {k: v for k, v in ires.items() if k != "k0"}) if i in mres and i in ires]
    nomodel = [x[0] for x in cmpcases if x[0] not in mres]
    if nomodel:
        ctx.broken.append("runner: the model driver produced no result for %d cases (first %s)" % (len(nomodel), nomodel[0]))
    ctx.cov["evaluations"] = len(cmpcases)
    ctx.cov["distinct_nontrivial"] = len({(x[1], tuple(x[2])) for x in cmpcases})
    ctx.cov["rule"] = ("enc: structurally valid values of 14 entity types aimed at length-prefix boundaries "
                       "(0,1,255,256,65535,65536, declared max), int64 zero/negative/min/max, empty and maximal containers; "
                       "dec: their encodings + random tail, structure-aware hostile variants (one length/count field "
                       "overridden or re-encoded non-minimally) and byte mutations; distinct = distinct (op,type,arg)")
    hist = {}
    decoded = 0
    for x in cmpcases:
        hist[x[1] + ":" + x[2][0]] = hist.get(x[1] + ":" + x[2][0], 0) + 1
        if x[1] == "dec" and ires.get(x[0], "").startswith("V "):
            decoded += 1
    ctx.cov["op_histogram"] = hist
    ctx.cov["byte_strings_that_decoded"] = decoded
    ctx.cov["disagreements_checked"] = len(cmpcases)
    ctx.cov["traces_validated_against_impl"] = len(cmpcases) - len(bad)
    for x in cmpcases[:2] + cmpcases[-2:]:
        ctx.sample({"case": [x[0], x[1], x[2][0], x[2][1][:120]], "model": (mres.get(x[0]) or "")[:160],
                    "impl": (ires.get(x[0]) or "")[:160]})
    # direct oracle of the implementation
    for i, text in orc[:5]:
        ctx.violation({"kind": "input", "cases": [byid[i]] if i in byid else [], "oracle": text,
                       "what": "implementation's own round-trip/size oracle failed"})
    for case, rc, err in crashes[:3]:
        ctx.violation({"kind": "input", "cases": [case] if case else [], "rc": rc, "stderr": err,
                       "what": "harness process died on this input"})
    for i in ires:
        if ires[i].startswith("THROW") and i in byid:
            ctx.violation({"kind": "input", "cases": [byid[i]], "impl": ires[i], "what": "exception escaped the serde API"})
    # model = proved specification of the wire format: a disagreement is a concrete failing input
    for i in bad[:5]:
        if i in byid and not (ires.get(i, "").startswith("THROW")):
            ctx.violation({"kind": "input", "cases": [byid[i]], "model": (mres.get(i) or "")[:2000],
                           "impl": (ires.get(i) or "")[:2000],
                           "what": "implementation differs from the proved wire-format specification"})
    if rc1 != 0:
        ctx.broken.append("runner: model rc=%d %s" % (rc1, merr[-300:]))
