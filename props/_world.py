"""Abstract, id-level generator of histories for harness/world.hpp (the World).

Mirrors the Registry's id assignment (a<n>, v<n>, b<n>, t<n>, w<n>) so scripts can
be written without seeing a hash. Tracks, per ALT block, which VBK/BTC blocks an
instance knows after honestly applying the block's ancestry, so that honest
PopData (connecting context) can be built for ANY parent on ANY fork.

Everything random comes from the Rng passed in.
"""


class WorldGen:
    def __init__(self, rng, cfg=None):
        self.r = rng
        self.cfg = dict(cfg or {})
        self.lines = []            # script lines without case ids
        self.expect = []           # expected registry answer per line (None = don't care)
        self.alt = {"a0": dict(parent=None, height=0, ctx=[], vtbs=[], atvs=[], kv={"v0"}, kb={"b0"}, haspd=True)}
        self.vbk = {"v0": dict(parent=None, height=0)}
        self.btc = {"b0": dict(parent=None, height=0)}
        self.atv = {}
        self.vtb = {}
        self.na = 1
        self.nv = 1
        self.nb = 1
        self.nt = 1
        self.nw = 1
        self.vtip = "v0"
        self.btip = "b0"
        self.emit("begin " + " ".join("%s=%d" % kv for kv in sorted(self.cfg.items())), "ok")

    # ------------------------------------------------------------ basics
    def emit(self, line, expect=None):
        self.lines.append(line)
        self.expect.append(expect)

    def settle(self):
        return self.cfg.get("alt_settle", 50)

    def ancestry(self, a):
        out = []
        while a is not None:
            out.append(a)
            a = self.alt[a]["parent"]
        return out[::-1]

    def is_ancestor(self, anc, a):
        return anc in self.ancestry(a)

    def vpath(self, known, to):
        """vbk ids from (exclusive) the nearest known ancestor of `to` up to `to`"""
        out = []
        c = to
        while c is not None and c not in known:
            out.append(c)
            c = self.vbk[c]["parent"]
        return out[::-1]

    def bpath(self, frm, to):
        """btc ids after `frm` up to `to` (to's ancestry; frm should be an ancestor)"""
        out = []
        c = to
        while c is not None and c != frm:
            out.append(c)
            c = self.btc[c]["parent"]
        return out[::-1]

    # ------------------------------------------------------------ miner
    def mine_vbk(self, parent=None):
        parent = parent or self.vtip
        vid = "v%d" % self.nv
        self.nv += 1
        self.vbk[vid] = dict(parent=parent, height=self.vbk[parent]["height"] + 1)
        self.emit("mv %s" % parent, vid)
        if self.vbk[vid]["height"] > self.vbk[self.vtip]["height"]:
            self.vtip = vid
        return vid

    def mine_btc(self, parent=None):
        parent = parent or self.btip
        bid = "b%d" % self.nb
        self.nb += 1
        self.btc[bid] = dict(parent=parent, height=self.btc[parent]["height"] + 1)
        self.emit("mb %s" % parent, bid)
        if self.btc[bid]["height"] > self.btc[self.btip]["height"]:
            self.btip = bid
        return bid

    def make_atv(self, endorsed, vparent=None, payout=None):
        vparent = vparent or self.vtip
        tid = "t%d" % self.nt
        self.nt += 1
        vid = "v%d" % self.nv
        self.nv += 1
        self.vbk[vid] = dict(parent=vparent, height=self.vbk[vparent]["height"] + 1)
        self.atv[tid] = dict(endorsed=endorsed, bop=vid, payout=payout or "010203")
        self.emit("atv %s %s %s %s" % (tid, endorsed, vparent, payout or "010203"), vid)
        if self.vbk[vid]["height"] > self.vbk[self.vtip]["height"]:
            self.vtip = vid
        return tid

    def make_vtb(self, endorsed, last_known_btc, vparent=None, bparent=None):
        vparent = vparent or self.vtip
        bparent = bparent or self.btip
        wid = "w%d" % self.nw
        self.nw += 1
        vid = "v%d" % self.nv
        self.nv += 1
        bid = "b%d" % self.nb
        self.nb += 1
        self.vbk[vid] = dict(parent=vparent, height=self.vbk[vparent]["height"] + 1)
        self.btc[bid] = dict(parent=bparent, height=self.btc[bparent]["height"] + 1)
        self.vtb[wid] = dict(endorsed=endorsed, containing=vid, bop=bid, last=last_known_btc,
                             bctx=self.bpath(last_known_btc, bid))
        self.emit("vtb %s %s %s %s %s" % (wid, endorsed, vparent, bparent, last_known_btc), "%s %s" % (vid, bid))
        if self.vbk[vid]["height"] > self.vbk[self.vtip]["height"]:
            self.vtip = vid
        if self.btc[bid]["height"] > self.btc[self.btip]["height"]:
            self.btip = bid
        return wid

    # ------------------------------------------------------------ ALT blocks
    def new_alt(self, parent):
        aid = "a%d" % self.na
        self.na += 1
        p = self.alt[parent]
        self.alt[aid] = dict(parent=parent, height=p["height"] + 1, ctx=[], vtbs=[], atvs=[],
                             kv=set(p["kv"]), kb=set(p["kb"]), haspd=False)
        self.emit("alt %s %s" % (aid, parent), "ok")
        return aid

    def best_known_btc(self, a):
        kb = self.alt[a]["kb"]
        return max(kb, key=lambda b: (self.btc[b]["height"], -int(b[1:])))

    def set_pd(self, aid, atvs=(), vtbs=(), extra_ctx=(), ctx=None):
        """honest body: context = every VBK block needed (blocks of proof of the ATVs,
        containing blocks of the VTBs, extra) that the parent's ancestry does not know yet,
        parents before children. `ctx` overrides (for deliberately broken bodies)."""
        a = self.alt[aid]
        known = set(self.alt[a["parent"]]["kv"])
        need = []
        for w in vtbs:
            need.append(self.vtb[w]["containing"])
        for t in atvs:
            need.append(self.atv[t]["bop"])
        need += list(extra_ctx)
        c = []
        if ctx is None:
            for n in need:
                for v in self.vpath(known | set(c), n):
                    if v not in c:
                        c.append(v)
            c.sort(key=lambda v: (self.vbk[v]["height"], int(v[1:])))
        else:
            c = list(ctx)
        a["ctx"], a["vtbs"], a["atvs"] = c, list(vtbs), list(atvs)
        a["kv"] = known | set(c)
        kb = set(self.alt[a["parent"]]["kb"])
        for w in vtbs:
            kb |= set(self.vtb[w]["bctx"])
        a["kb"] = kb
        a["haspd"] = True
        self.emit("pd %s ctx=%s vtbs=%s atvs=%s" % (aid, ",".join(c), ",".join(vtbs), ",".join(atvs)), "ok")

    def honest_block(self, parent, n_atv=None, n_vtb=None, empty_chance=(1, 3)):
        """a new ALT block on `parent` with an honest random body"""
        r = self.r
        aid = self.new_alt(parent)
        if r.chance(*empty_chance):
            self.set_pd(aid)
            return aid
        anc = self.ancestry(aid)[:-1]
        h = self.alt[aid]["height"]
        cands = [x for x in anc if x != "a0" and h - self.alt[x]["height"] <= self.settle()]
        atvs = []
        k = n_atv if n_atv is not None else r.below(3)
        for _ in range(k):
            if not cands:
                break
            atvs.append(self.make_atv(r.choice(cands), payout=r.choice(["010203", "aabb", "cc"])))
        vtbs = []
        k = n_vtb if n_vtb is not None else r.below(2)
        for _ in range(k):
            # endorse a VBK block known to the parent's ancestry or about to be in this block's context
            known = sorted(self.alt[parent]["kv"], key=lambda v: int(v[1:]))
            pool = [v for v in known if self.vbk[v]["height"] >= self.vbk[self.vtip]["height"] - 8]
            e = r.choice(pool or known)
            # the VTB's BTC context starts after the newest BTC block this chain knows (incl. earlier VTBs of this block)
            kb = set(self.alt[parent]["kb"])
            for w in vtbs:
                kb |= set(self.vtb[w]["bctx"])
            last = max(kb, key=lambda b: (self.btc[b]["height"], -int(b[1:])))
            vtbs.append(self.make_vtb(e, last))
        self.set_pd(aid, atvs=atvs, vtbs=vtbs)
        return aid

    def script(self, prefix="c"):
        return ["%s%d %s" % (prefix, i + 1, l) for i, l in enumerate(self.lines)]


def check_expect(gen, results, prefix="c"):
    """ids the registry answered differently from the generator's prediction"""
    bad = []
    for i, e in enumerate(gen.expect):
        if e is None:
            continue
        got = results.get("%s%d" % (prefix, i + 1))
        if got != e:
            bad.append((i + 1, gen.lines[i], e, got))
    return bad


class History:
    """random operation history on one instance (default "A") over a WorldGen.
    The generator is sloppy on purpose: the harness answers SKIP when a documented
    precondition of the call is not met, so every emitted call is within the API contract."""

    def __init__(self, gen, inst="A"):
        self.g = gen
        self.r = gen.r
        self.inst = inst
        self.hdr = {"a0"}
        self.body = {"a0"}
        self.ops = {}

    def on(self, *words):
        self.g.emit("on %s %s" % (self.inst, " ".join(words)))
        self.ops[words[0]] = self.ops.get(words[0], 0) + 1

    def pick_parent(self):
        r = self.r
        ids = sorted(self.g.alt, key=lambda a: int(a[1:]))
        if r.chance(3, 5):
            # extend one of the highest blocks
            top = sorted(ids, key=lambda a: -self.g.alt[a]["height"])[:3]
            return r.choice(top)
        return r.choice(ids)

    def show(self, aid, order="random"):
        """make the instance see header and body of aid's ancestry (headers first when needed)"""
        for x in self.g.ancestry(aid):
            if x not in self.hdr:
                self.on("hdr", x)
                self.hdr.add(x)
        anc = [x for x in self.g.ancestry(aid) if x not in self.body]
        if order == "random":
            self.r.shuffle(anc)
        for x in anc:
            self.on("body", x)
            self.body.add(x)

    def step(self):
        r = self.r
        k = r.below(100)
        ids = sorted(self.g.alt, key=lambda a: int(a[1:]))
        if k < 35:
            a = self.g.honest_block(self.pick_parent())
            if r.chance(3, 4):
                self.show(a)
                if r.chance(2, 3):
                    self.on("set", a)
            return
        if k < 50:
            self.show(r.choice(ids))
            return
        if k < 65:
            self.on("set", r.choice(ids))
            return
        if k < 80:
            self.on("cmp", r.choice(ids))
            return
        if k < 88:
            x = r.choice(ids)
            self.on("inv", x)
            if r.chance(1, 2):
                self.on("set", r.choice(ids))
            self.on("reval", x)
            return
        if k < 93:
            x = r.choice(ids)
            if x != "a0":
                self.on("rm", x)
                # the instance forgot the subtree; it may be shown again later
                gone = [y for y in ids if x in self.g.ancestry(y)]
                for y in gone:
                    self.hdr.discard(y)
                    self.body.discard(y)
            return
        self.on("rmpl", r.choice(ids))
        # the body may be delivered again later
        return
