"""helpers shared by the C16 and C17 plugins"""
import os
import re

SAN_ENV = {
    "ASAN_OPTIONS": "detect_leaks=0:abort_on_error=0:exitcode=23:allocator_may_return_null=1",
    "UBSAN_OPTIONS": "print_stacktrace=1",
    "TSAN_OPTIONS": "halt_on_error=1:exitcode=66:second_deadlock_stack=1",
}


def san_summary(stderr):
    """(kind, key, excerpt) of the first sanitizer report in stderr, or None"""
    m = re.search(r"(ERROR: AddressSanitizer: [^\n]*|WARNING: ThreadSanitizer: [^\n]*|[^\n]*runtime error: [^\n]*|"
                  r"ERROR: LeakSanitizer[^\n]*|ThreadSanitizer: [^\n]*)", stderr)
    if not m:
        return None
    head = m.group(1).strip()
    kind = "ubsan" if "runtime error" in head else ("tsan" if "ThreadSanitizer" in head else "asan")
    what = re.sub(r"\s+on address.*| \(pid=.*|0x[0-9a-f]+", "", head.split(": ", 2)[-1] if kind != "ubsan" else
                  head.split("runtime error: ")[1])
    what = re.sub(r"-?\d+", "N", what)
    fn = None
    for fm in re.finditer(r"#\d+ (?:0x[0-9a-f]+ in )?(\S+).*?(/src/pop/\S+|/include/veriblock/\S+)", stderr[m.start():]):
        fn = fm.group(1).split("(")[0] + "@" + os.path.basename(fm.group(2)).split(":")[0]
        break
    if kind == "ubsan":
        loc = re.match(r"(\S+?):(\d+)", head)
        fn = os.path.basename(loc.group(1)) + ":" + loc.group(2) if loc else fn
    key = "%s:%s:%s" % (kind, re.sub(r"[^A-Za-z0-9]+", "-", what).strip("-")[:40], fn or "?")
    return kind, key, stderr[m.start():m.start() + 2500]


