"""C17 — proof-of-work hashing is a pure function despite its caches."""
import os
import vlib
from props._conc import san_summary, SAN_ENV

LEVEL = "proof"
HARNESSES = [("h_cache", "rel"), ("h_cache", "tsan"), ("h_cache", "asan")]
ASSUMPTIONS = [
    "the vProgPoW kernel, ethash_make_cache/createDagCache, the epoch function and sha256twice are pure functions "
    "(Section variables hash, mk, ep, hk); sha256twice is collision-free on 65-byte headers (hk injective)",
    "critical sections guarded by the two mutexes are atomic steps; SmallLFRUCache is only reached under the ethash mutex",
    "whoever calls insertHeaderCacheEntry / setPrecalculatedHash / deserialises with a hash supplies the true hash "
    "(explicit premise sop_ok / bops_ok of the theorems)",
    "data-race freedom of the compiled C++ is observed by TSan on the executed schedules, not proved",
]
META = {
    "text": "Theorems (Coq): for every number of threads and every interleaving of the lock-granular steps of progPowHash "
            "(header-cache lookup, epoch-cache getOrDefault + kernel, header-cache insert), with cache clears and "
            "precomputed insertions at any point and arbitrary clock readings, every returned value is f(header) "
            "(C17_lookup_transparent, includes the precomputed path under its premise); capacity and no-duplicate-key "
            "invariants of both caches (C17_capacity); SmallLFRUCache alone answers the factory value for every "
            "getOrDefault/clear sequence with the eviction rule exactly as coded (C17_lfru_transparent - the proof "
            "does not depend on which slot is evicted); lru11 hits are sound (C17_lru_hit_sound); VbkBlock::getHash "
            "answers f(current content) for every sequence of setters/getHash/precalculated hashes/deserialisation into "
            "the same object/copy-move assignment; every setter empties the memo and deserialisation overwrites it with "
            "the supplied hash or empties it (C17_memo_transparent, C17_setter_invalidates_memo, C17_deser_resets_memo). Tie to the code: the real "
            "SmallLFRUCache/lru11 templates are driven by generated op sequences and compared with the extracted model "
            "(values gate; hit/miss and victim slot are recorded as policy agreement), and the real progPowHash / "
            "VbkBlock::getHash over several epochs with tiny injected caches (forced evictions), clears, precomputed "
            "entries, several threads, every single-field flip, and one VbkBlock object reused as target of setters / "
            "DeserializeFromRaw / DeserializeFromVbkEncoding (with and without precalculated hash) / copy and move "
            "assignment is compared with a cache-free recomputation after every step. That the ethash mutex really "
            "serialises getOrDefault (one atomic step in the model; C17_unlocked_getOrDefault_refuted shows what breaks "
            "otherwise) is probed deterministically with an instrumented EthashCacheI: a second thread is released "
            "while the first is inside the factory and must not get in (rel and tsan variants). "
            "Round 2: the hashed byte string is modelled concretely (HeaderDefs: VbkBlock::toRaw, and the height / epoch / "
            "nonce / 60-byte prefix progPowHashImpl reads back): toRaw is 65 bytes and injective in all nine fields on the "
            "field types' ranges with nonce < 2^40, so is the cache key under a collision-free sha256twice, and "
            "(height, nonce, prefix) determine every byte (C17_header_raw_length/_injective/_field_sensitive/_key_injective, "
            "C17_raw_height_epoch_nonce, C17_kernel_inputs_injective/_field_sensitive); without the 40-bit premise it is "
            "false (C17_header_raw_injective_all_nonces_refuted: uint64_t nonce, 5 bytes written). lru11 with ARBITRARY "
            "values refines the unbounded map for every insert/tryGet/clear sequence - a hit is the latest value bound to "
            "exactly that key, capacity and key uniqueness in every reachable state (C17_lru_refines_map, "
            "C17_lru_key_confinement). Tie: ops hdr (real toRaw bytes and the epoch the real progPowHashImpl asks the "
            "epoch cache for, via probing cache objects, vs the extracted model; key == sha256twice(toRaw) and "
            "DeserializeFromRaw(toRaw(b)) == b iff nonce < 2^40 as direct oracles; single-field-change pairs) and lrum "
            "(real lru11 with re-bound keys vs the extracted model), both gating.",
    "note": "Observation (not gating): setNonce(n) with n >= 2^40 serialises like n mod 2^40, so two blocks that differ "
            "under operator== hash alike; deserialised blocks never have such a nonce. "
            "Honest limit: vProgPoW itself is an oracle (Section variable), only its caching is proved; data races are "
            "observed by TSan (header-cache hit path and lru11 under contention in quick; real hashing under TSan only in "
            "thorough, ~100 s per epoch), not proved. A changed eviction policy is not a purity violation: policy "
            "disagreements with the model are reported in the evidence only. Finding on the unchanged tree: UBSan "
            "reports 'left shift of negative value' in keccak_f800 (progpow.cpp:176, signed int rotations) - UB before "
            "C++20, benign with GCC; the asan variant is built with -fno-sanitize=shift-base for that reason and is "
            "used by C17 in the thorough tier only (vProgPoW at -O0 under ASan is slow).",
    "technique": "Coq proof (invariant: every cache entry is in the graph of f; all interleavings) + extraction-based "
                 "differential run of the real templates + cache-free recomputation oracle on the real progPowHash",
}


def gen_template_cases(ctx, tier):
    r = ctx.rng
    cases = []
    nseq = 8 if tier == "quick" else 120
    for size in (1, 2, 3, 6):
        for tw in (5, 600):
            for s in range(nseq):
                n = r.range(10, 60)
                keys = list(range(1, size + r.range(1, 4) + 1))
                mode = r.below(5)
                now = r.choice([1, 3, 100, 1000, 4294967000])
                ops = []
                for _ in range(n):
                    if r.chance(1, 25):
                        ops.append("c")
                        continue
                    if mode == 0:
                        now += r.below(3)
                    elif mode == 1:
                        now += r.choice([0, 0, 1, tw - 1, tw, tw + 1, 3 * tw])
                    elif mode == 2:
                        now = 1 + r.below(2 * tw + 3)                    # non-monotone, around the window (size_t wrap of now - TW)
                    elif mode == 3:
                        pass                                           # frozen clock: pure LFU with ties
                    else:
                        now = r.choice([1, tw - 1, tw, tw + 1, 4294967295, 1 + r.below(1 << 32)])
                    now = (now & 0xffffffff) or 1                      # setMockTime(0) would switch the mock clock off
                    k = r.choice(keys) if r.chance(4, 5) else keys[0]
                    ops.append("g%d@%d" % (k, now))
                cases.append(("f%d" % (len(cases) + 1), "lfru", [str(size), str(tw)] + ops))
    nl = 0
    for maxsize in (0, 1, 2, 4):
        for elast in (0, 1, 3):
            for s in range(3 if tier == "quick" else 40):
                n = r.range(10, 60)
                keys = list(range(1, maxsize + elast + r.range(1, 4) + 1))
                ops = []
                for _ in range(n):
                    x = r.below(20)
                    ops.append("c" if x == 0 else ("i%d" if x < 9 else "t%d") % r.choice(keys))
                nl += 1
                cases.append(("l%d" % nl, "lru", [str(maxsize), str(elast)] + ops))
    return cases


def gen_pow_cases(ctx, tier, variant):
    r = ctx.rng
    sd = r.below(1 << 30)
    cases = []
    if variant == "rel":
        # epoch cache of one entry, two epochs: every change of epoch evicts; header cache of 4(+1) entries
        cases.append(("p1", "pow", ["1", "1", "4", str(sd)] +
                      "h0.1 h1.1 h0.2 h0.1 C h0.1 P0.9 h0.9 E h0.3 h0.4 h0.5 h0.6 h0.7 h0.1 F1.2".split()))
        # four threads, default-size epoch cache, precomputed entries and clears in between
        cases.append(("p2", "pow", ["4", "6", "100", str(sd + 1)] +
                      ("h0.1 h0.2 h1.1 h0.3 h1.2 P0.7 h0.7 h1.3 C h0.1 h1.1 h0.4 P1.9 h1.9 h0.2 h1.2".split())))
        # one VbkBlock object reused as setter / deserialisation / assignment target (memo state machine)
        kinds = ["g", "g", "s", "s", "p", "d", "d", "D", "v", "V", "a", "A", "m"]
        for bi in range(2 if tier == "quick" else 12):
            ops = []
            for _ in range(40 if tier == "quick" else 120):
                k = r.choice(kinds)
                if k == "s":
                    ops.append("s%d" % r.below(9))
                elif k in ("g", "p"):
                    ops.append(k)
                else:
                    ops.append("%s%d.%d" % (k, r.below(2), r.below(5)))
            cases.append(("b%d" % (bi + 1), "blk", [str(sd + 20 + bi)] + ops))
        cases.append(("b0", "blk", [str(sd + 19)] + "g d0.2 g d0.3 D1.1 d0.4 p v1.2 A0.1 d1.3 m1.4 v0.1 V0.2 d0.2 s8 d0.2 a1.1 g".split()))
        cases.append(("p3", "powhit", ["4", str(sd + 2), "60"]))
        cases.append(("p7", "serial", [str(sd + 30), "3" if tier == "quick" else "10"]))
        cases.append(("p4", "lrumt", ["4", str(sd + 3), "3000"]))
        if tier == "thorough":
            eps = [0, 1, 2, 3]
            ops = []
            for i in range(60):
                e = r.choice(eps)
                x = r.below(12)
                ops.append("C" if x == 0 else "E" if x == 1 else ("P%d.%d" if x == 2 else "F%d.%d" if x == 3 else "h%d.%d") % (e, r.below(6)))
            cases.append(("p5", "pow", ["1", "2", "3", str(sd + 4)] + ops))
            cases.append(("p6", "pow", ["6", "2", "3", str(sd + 5)] + [o for o in ops if o[0] in "hPC"]))
    else:
        cases.append(("q0", "serial", [str(sd + 31), "3" if tier == "quick" else "10"]))
        cases.append(("q1", "powhit", ["4", str(sd + 6), "40" if tier == "quick" else "400"]))
        cases.append(("q2", "powhit", ["8", str(sd + 7), "20" if tier == "quick" else "200"]))
        cases.append(("q3", "lrumt", ["4", str(sd + 8), "2000" if tier == "quick" else "20000"]))
        cases.append(("q4", "lrumt", ["8", str(sd + 9), "1000" if tier == "quick" else "10000"]))
        if tier == "thorough":
            cases.append(("q5", "pow", ["3", "6", "100", str(sd + 10)] + "h0.1 h0.2 h0.1 P0.3 h0.3 C h0.1 h0.2".split()))
    return cases

R2_OPS = ("hdr", "lrum")


def _hx(v):
    return ("-%x" % -v) if v < 0 else ("%x" % v)


def gen_r2_cases(ctx, tier):
    """round 2: VbkBlock::toRaw / epoch read-back (HeaderDefs) and lru11 with arbitrary values (LruMapDefs)"""
    r = ctx.rng
    cases, pairs = [], []
    heights = [-(1 << 31), (1 << 31) - 1, -1, 0, 1, 7999, 8000, 8001, -7999, -8000, -8001, 15999, 16000, 255, 256, 65536, 1 << 24]
    nonces = [0, 1, (1 << 40) - 1, 1 << 40, (1 << 40) + 1, (1 << 64) - 1, 1 << 63, 255, 256]

    def rnd_hdr():
        return [r.choice(heights) if r.chance(1, 2) else r.range(-(1 << 31), (1 << 31) - 1),
                r.choice([-32768, 32767, -1, 0, 2, 255, 256]) if r.chance(1, 2) else r.range(-32768, 32767),
                r.bytes(12), r.bytes(9), r.bytes(9), r.bytes(16),
                r.choice([0, (1 << 32) - 1, 1 << 31, 1600000000]) if r.chance(1, 2) else r.below(1 << 32),
                r.choice([-(1 << 31), (1 << 31) - 1, -1, 0]) if r.chance(1, 2) else r.range(-(1 << 31), (1 << 31) - 1),
                r.choice(nonces) if r.chance(1, 2) else (r.below(1 << 40) if r.chance(2, 3) else r.below(1 << 64))]

    def fmt(h):
        return [_hx(h[0]), _hx(h[1]), h[2].hex(), h[3].hex(), h[4].hex(), h[5].hex(), _hx(h[6]), _hx(h[7]), _hx(h[8])]

    nh = 300 if tier == "quick" else 3000
    for i in range(nh):
        h = rnd_hdr()
        cases.append(("H%d" % i, "hdr", fmt(h)))
        # one field changed, everything else kept (nonce changes stay inside / cross the 40 written bits)
        for fld in ([r.below(9)] if tier == "quick" else range(9)):
            g = list(h)
            if fld in (2, 3, 4, 5):
                b = bytearray(g[fld]); b[r.below(len(b))] ^= 1 << r.below(8); g[fld] = bytes(b)
            elif fld == 8:
                g[8] = h[8] ^ (1 << r.below(64))
            else:
                w = (32, 16, 0, 0, 0, 0, 32, 32)[fld]
                lo = 0 if fld == 6 else -(1 << (w - 1))
                g[fld] = (((h[fld] - lo) ^ (1 << r.below(w))) & ((1 << w) - 1)) + lo
            cid = "H%d.%d" % (i, fld)
            cases.append((cid, "hdr", fmt(g)))
            pairs.append(("H%d" % i, cid, fld, (h[8] ^ g[8]) >> 40 == 0 if fld != 8 else (h[8] ^ g[8]) & ((1 << 40) - 1) != 0))
    nl = 0
    for maxsize in (0, 1, 2, 4):
        for elast in (0, 1, 3):
            for s_ in range(12 if tier == "quick" else 150):
                keys = list(range(1, maxsize + elast + r.range(1, 4) + 1))
                ops = []
                for _ in range(r.range(10, 70)):
                    x = r.below(20)
                    ops.append("c" if x == 0 else ("i%d.%d" % (r.choice(keys), r.below(5))) if x < 10 else "t%d" % r.choice(keys))
                nl += 1
                cases.append(("M%d" % nl, "lrum", [str(maxsize), str(elast)] + ops))
    return cases, pairs


def run_r2(ctx, harness_bin, cases, pairs):
    """model = proved specification (C17_header_*, C17_lru_refines_map): a difference on input x is a violation"""
    okh, hmodel, hlog = vlib.build_model("Hdr")
    if not okh:
        ctx.broken.append("model-build(Hdr): " + hlog[-300:])
        return
    inp = os.path.join(ctx.work, "cases-r2.txt")
    with open(inp, "w") as f:
        for c in cases:
            f.write(line(c) + "\n")
    rc, res, orc, err = vlib.run_lines([harness_bin], inp, timeout=1500, env=SAN_ENV)
    rcm, mres, _, merr = vlib.run_lines([hmodel], inp)
    if rcm != 0:
        ctx.broken.append("runner: Hdr model rc=%d %s" % (rcm, merr[-300:]))
    if rc != 0:
        ctx.broken.append("runner: h_cache rc=%d on the round-2 cases %s" % (rc, err[-300:]))
    byid = {c[0]: c for c in cases}
    for i, t in orc:
        if i in byid:
            ctx.violation({"kind": "input", "cases": [list(byid[i])], "variant": "rel", "what": t})
    n = {"hdr": 0, "lrum": 0}
    epochs, hits, miss, neg = set(), 0, 0, 0
    for c in cases:
        i = c[0]
        if mres.get(i, "").startswith("MODEL-ERROR"):
            ctx.broken.append("model(Hdr): %s on %s" % (mres.get(i), line(c)[:200]))
            continue
        if i not in res:
            continue
        n[c[1]] += 1
        if mres.get(i) != res.get(i):
            ctx.violation({"kind": "input", "cases": [list(c)], "variant": "rel", "model": mres.get(i), "impl": res.get(i),
                           "what": ("toRaw bytes / epoch requested by progPowHashImpl differ from the model (HeaderDefs)" if c[1] == "hdr"
                                    else "lru11 answers differ from the model that refines the unbounded map (LruMapDefs)")})
        if c[1] == "hdr":
            epochs.add(res[i].split()[-1])
            neg += c[2][0].startswith("-")
        else:
            hits += sum(1 for t in res[i].split() if t.startswith("v"))
            miss += res[i].split().count("m")
    sens = coll = 0
    for a, b, fld, must_differ in pairs:
        if a in res and b in res:
            differ = res[a].split()[0] != res[b].split()[0]
            if must_differ and not differ:
                ctx.violation({"kind": "input", "cases": [list(byid[a]), list(byid[b])], "variant": "rel",
                               "what": "two headers differing in field %d serialise to the same bytes" % fld})
            sens += differ
            coll += (not differ)
    ctx.cov["r2_header_cases"] = n["hdr"]
    ctx.cov["r2_header_distinct_epochs"] = len(epochs)
    ctx.cov["r2_header_negative_heights"] = neg
    ctx.cov["r2_single_field_pairs_distinct_bytes"] = sens
    ctx.cov["r2_nonce_pairs_same_bytes_beyond_40_bits"] = coll
    ctx.cov["r2_lru_map_sequences"] = n["lrum"]
    ctx.cov["r2_lru_map_hits_misses"] = [hits, miss]
    ctx.cov["evaluations"] = ctx.cov.get("evaluations", 0) + n["hdr"] + n["lrum"]
    ctx.cov["disagreements_checked"] = ctx.cov.get("disagreements_checked", 0) + n["hdr"] + n["lrum"]
    ctx.cov["distinct_nontrivial"] = ctx.cov.get("distinct_nontrivial", 0) + len({(c[1], tuple(c[2])) for c in cases if c[0] in res})
    ctx.cov.setdefault("op_histogram", {}).update(n)
    for c in cases[:1] + cases[-1:]:
        ctx.sample({"variant": "rel", "case": line(c)[:200], "impl": (res.get(c[0]) or "")[:200], "model": (mres.get(c[0]) or "")[:200]})


def line(c):
    return "%s %s %s" % (c[0], c[1], " ".join(c[2]))


def run(ctx):
    ctx.prove()
    okm, model, mlog = vlib.build_model("Conc")
    if not okm:
        ctx.broken.append("model-build: " + mlog[-300:])
    bins = {}
    for v in (("rel", "tsan", "asan") if ctx.tier == "thorough" else ("rel", "tsan")):
        ok, hs, hlog = vlib.build_harness(["h_cache"], v)
        if ok:
            bins[v] = hs["h_cache"]
        else:
            ctx.broken.append("harness-build(%s): %s" % (v, hlog[-300:]))
    if not okm or len(bins) < (3 if ctx.tier == "thorough" else 2):
        return
    if ctx.replay and "cases" in ctx.replay:
        rc_cases = [tuple(c) if not isinstance(c, dict) else (c["id"], c["op"], c["args"]) for c in ctx.replay["cases"]]
        rc_cases = [(c[0], c[1], list(c[2])) for c in rc_cases]
        r2_cases, r2_pairs = [c for c in rc_cases if c[1] in R2_OPS], []
        rc_cases = [c for c in rc_cases if c[1] not in R2_OPS]
        v = ctx.replay.get("variant", "rel")
        plan = [(v if v in bins else "rel", rc_cases)] if rc_cases else []
    else:
        templ = gen_template_cases(ctx, ctx.tier)
        plan = [("rel", templ + gen_pow_cases(ctx, ctx.tier, "rel")),
                ("tsan", templ[::7] + gen_pow_cases(ctx, ctx.tier, "tsan"))]
        if ctx.tier == "thorough":
            # ASan+UBSan (-O0): templates, hit path and one real single-epoch sequence (slow)
            plan.append(("asan", templ[::11] + [("s1", "powhit", ["4", "77", "50"]),
                                                 ("s2", "pow", ["2", "6", "100", "78"] + "h0.1 h0.2 h0.1 P0.3 h0.3 C h0.1 F0.4".split())]))
        r2_cases, r2_pairs = gen_r2_cases(ctx, ctx.tier)      # after the round-1 generators: their sequences per seed are unchanged
    total = 0
    policy_same = 0
    policy_diff = []
    ophist = {}
    seen = set()
    for variant, cases in plan:
        inp = os.path.join(ctx.work, "cases-%s.txt" % variant)
        with open(inp, "w") as f:
            for c in cases:
                f.write(line(c) + "\n")
        rc, res, orc, err = vlib.run_lines([bins[variant]], inp, timeout=3000, env=SAN_ENV)
        rcm, mres, _, merr = vlib.run_lines([model], inp)
        byid = {c[0]: c for c in cases}
        if rcm != 0:
            ctx.broken.append("runner: model rc=%d %s" % (rcm, merr[-300:]))
        san = san_summary(err)
        if rc != 0 or san:
            missing = [c for c in cases if c[0] not in res]
            culprit = missing[0] if missing else None
            rc2, text = rc, err
            if culprit is not None and not san:
                # no sanitizer report: an abnormal exit / timeout counts only if it reproduces (loaded machine)
                one = os.path.join(ctx.work, "confirm-%s.txt" % variant)
                with open(one, "w") as f:
                    f.write(line(culprit) + "\n")
                rc2, _, orc2, text = vlib.run_lines([bins[variant]], one, timeout=3000, env=SAN_ENV)
                san = san_summary(text)
                if rc2 == 0 and not san:
                    ctx.cov.setdefault("unreproduced_abnormal_exits", []).append({"variant": variant, "rc": rc, "case": line(culprit)[:200]})
                    culprit = None
                    rc2 = 0
            if culprit is not None and not san and rc2 == 124:
                ctx.broken.append("runner:%s reproducible timeout on %s" % (variant, line(culprit)[:200]))
            elif culprit is not None:
                kind, key, excerpt = san if san else ("crash", "crash:rc%d" % rc2, text[-1500:])
                ctx.violation({"kind": "input", "cases": [list(culprit)], "variant": variant, "report": excerpt,
                               "what": "sanitizer report / abnormal exit while running this case (rc=%d)" % rc}, key=key)
            elif rc2 != 0:
                ctx.broken.append("runner:%s rc=%d %s" % (variant, rc, err[-300:]))
        for i, t in orc:
            if i in byid:
                ctx.violation({"kind": "input", "cases": [list(byid[i])], "variant": variant,
                               "what": "a returned value differs from the pure function: " + t})
        for c in cases:
            i = c[0]
            if i not in res:
                continue
            total += 1
            ophist[c[1]] = ophist.get(c[1], 0) + 1
            seen.add((c[1], tuple(c[2])))
            if mres.get(i, "").startswith("MODEL-ERROR"):
                ctx.broken.append("model: %s on %s" % (mres.get(i), line(c)[:200]))
            elif mres.get(i) != res.get(i):
                # values: the model answers f(key), which is the proved specification
                ctx.violation({"kind": "input", "cases": [list(c)], "variant": variant, "model": mres.get(i),
                               "impl": res.get(i), "what": "values returned by the real cache differ from f(key)"})
            if i + ".p" in res or i + ".p" in mres:
                if res.get(i + ".p") == mres.get(i + ".p"):
                    policy_same += 1
                elif len(policy_diff) < 5:
                    policy_diff.append({"case": line(c)[:300], "impl": res.get(i + ".p"), "model": mres.get(i + ".p")})
        for c in cases[:1] + cases[-2:]:
            ctx.sample({"variant": variant, "case": line(c)[:160], "impl": res.get(c[0]), "model": mres.get(c[0]),
                        "policy_impl": (res.get(c[0] + ".p") or "")[:120]})
    ctx.cov["evaluations"] = total
    ctx.cov["distinct_nontrivial"] = len(seen)
    ctx.cov["rule"] = ("one evaluation = one op sequence on one library variant; distinct = distinct (op kind, full op list)")
    ctx.cov["disagreements_checked"] = total
    ctx.cov["traces_validated_against_impl"] = policy_same
    ctx.cov["policy_traces_agreeing"] = policy_same
    ctx.cov["policy_disagreements_not_gating"] = policy_diff
    ctx.cov["op_histogram"] = ophist
    ctx.cov["variants"] = [v for v, _ in plan]
    if r2_cases:
        run_r2(ctx, bins["rel"], r2_cases, r2_pairs)
    ctx.cov["trusted_base"] = [
        "Section variables assumed pure: hash (vProgPoW kernel), mk (ethash light cache + DAG), ep, hk (sha256twice, injective)",
        "cache-free reference in the harness: progPowHash(header, light) with a light cache built by the harness",
        "TSan build of the whole library observes data races on the executed schedules only",
    ]
