"""C05 generators: Bitcoin-transaction layouts around the 80 publication bytes.

The split descriptor format (derived from containsSplit, cross-checked by the
harness' independent decoder): magic 92 7a 59, descriptor byte
  bits 0..1 -> section (length) field width s = 4 + b0 + 2*b1
  bits 2..3 -> offset field width        o = 4 + 4*b2 + 8*b3
  bits 4..7 -> number of chunks n
then a big-endian bit field of n*o + (n-1)*s bits, padded at the LOW end to
bitlen//8 + 1 bytes. Chunk index n-1 is read first. Field of chunk i: offset
(relative to the end of the previously read chunk, the first one relative to
byte 0 of the transaction) at bit waste + i*(o+s); for i >= 1 its length in
the s bits below. The last chunk read (i = 0) takes the rest of the 80 bytes.
"""

MAGIC = bytes([0x92, 0x7a, 0x59])


def descriptor(n, o, s):
    assert 0 <= n <= 15 and o in (4, 8, 12, 16) and 4 <= s <= 7
    d = (n << 4) | ((s - 4) & 3)
    if o in (8, 16):
        d |= 4
    if o in (12, 16):
        d |= 8
    return d


def encode_table(chunks, o, s):
    """chunks: [(relative offset, length)] in reading order (first chunk of the data first);
    the length of the last one is implicit. Returns descriptor byte + table bytes."""
    n = len(chunks)
    bitlen = n * o + (n - 1) * s
    nbytes = bitlen // 8 + 1
    waste = nbytes * 8 - bitlen
    v = 0
    for k, (off, ln) in enumerate(chunks):
        i = n - 1 - k
        base = waste + i * (o + s)
        assert 0 <= off < (1 << o)
        v |= off << base
        if i >= 1:
            assert 0 <= ln < (1 << s)
            v |= ln << (base - s)
    return bytes([descriptor(n, o, s)]) + v.to_bytes(nbytes, "big")


def filler(rng, n, avoid=(0x92,)):
    out = bytearray()
    while len(out) < n:
        b = rng.below(256)
        if b not in avoid:
            out.append(b)
    return bytes(out)


def compositions(rng, total, n, maxpart):
    """random composition of total into n positive parts each <= maxpart (None if impossible)"""
    if n * maxpart < total or n > total:
        return None
    for _ in range(200):
        cuts = sorted(rng.below(total - 1) + 1 for _ in range(n - 1))
        if len(set(cuts)) != n - 1:
            continue
        parts = [b - a for a, b in zip([0] + cuts, cuts + [total])]
        if all(p <= maxpart for p in parts[:-1]):
            return parts
    return None


def split_tx(rng, data, parts, gaps, o, s, table_first, tail=2, lead=0, honest=True):
    """lay the data out as len(parts) chunks separated by gaps[k] foreign bytes
    (gaps[0] = bytes before the first chunk), put magic+descriptor+table before
    or after the chunks. Returns tx bytes (or None if a field does not fit)."""
    n = len(parts)
    body = bytearray()
    chunks = []
    pos = 0
    for k in range(n):
        body += filler(rng, gaps[k])
        chunks.append([gaps[k], parts[k]])
        body += data[pos:pos + parts[k]]
        pos += parts[k]
    head = filler(rng, lead)
    if table_first:
        # the table itself precedes the chunks: the first offset must skip it
        bitlen = n * o + (n - 1) * s
        chunks[0][0] += lead + 3 + 1 + bitlen // 8 + 1
    else:
        # offsets are relative to byte 0 of the transaction
        chunks[0][0] += lead
    if any(off >= (1 << o) for off, _ in chunks) or any(ln >= (1 << s) for _, ln in chunks[:-1]):
        return None
    tab = encode_table([tuple(c) for c in chunks], o, s)
    if table_first:
        return bytes(head + MAGIC + tab + body + filler(rng, tail))
    return bytes(head + body + MAGIC + tab + filler(rng, tail))
