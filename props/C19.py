"""C19 — honestly produced endorsements are always accepted while still timely."""
import vlib
from props import _rules as R

LEVEL = "proof"
HARNESSES = [("h_rules", "rel")]
ASSUMPTIONS = [
    "honest = produced by the library's MockMiner from publication data built with createFromPrevious on the reference "
    "tree, context chosen relative to the chain the payload is delivered on (VBK context connects; a VTB's BTC context "
    "starts after a BTC block referenced by the containing VBK block or one of its ancestors)",
    "configuration relations asserted by the library hold (payout delay >= settlement, maxReorg > settlement)",
    "cryptographic and proof-of-work validity of honest payloads is observed through the stateless checks, not proved",
]
META = {
    "text": "Theorems (Coq): publication data generated for block e (context info = createFromPrevious of e's parent) "
            "delivered with a connecting block of proof into any block having e on its own chain within the settlement "
            "interval satisfies the contextual rules (both sides are the same function); an honest body is accepted by "
            "the checks as coded; a chain of valid blocks is never refused. Honest VTBs are a construction (model of "
            "MockMiner: endorsed block = getAncestor of the containing block, BTC context = getBlocks down to the "
            "nearest BTC block the chain references) proved valid (C19_honest_vtbs_valid, C19_honest_vtbs_buildable, "
            "C19_known_vbk_parent_closed), so C19_honest_block_accepted_full / _on_any_chain have no validity premise "
            "about payloads; the settlement windows are exact and non-strict, height difference <= interval as in "
            "AddEndorsement::Execute (C19_atv_accepted_iff_timely, C19_atv_window_exact, C19_vtb_window_exact, four "
            "off-by-one _refuted), fork independent (C19_honest_atv_any_fork, C19_honest_atv_two_forks) and monotone "
            "until the window closes (C19_atv_accept_transfers, C19_atv_accept_monotone_along_chain, "
            "C19_atv_window_closes); C19_full_premises_satisfiable; the honest BTC context is the shortest connecting one "
            "(C19_honest_vtb_context_minimal). The construction itself is executed against the code: the extracted "
            "honest_vtbs rebuilds every VTB from (containing block, endorsed height, block of proof); it is compared with the "
            "payload MockMiner::createVTB built (VBK/BTC forks, unreferenced context gaps, distances settlement-1/0/+1; "
            "differences are counted in the evidence: a longer context chosen by the generator is still honest), "
            "and the chain with the model-built VTBs must get the library's verdict (the alarm of this stage). Tie to the code: always-accept oracle on "
            "generated honest histories (every endorsable block incl. side forks, window boundaries, VBK/BTC forking, "
            "delivery through blocks and through the mempool), stateless checks, endorsement visible in "
            "containing/endorsedBy/blockOfProof lists, abort handler; extracted model vs library on every verdict. "
            "'Counts in payouts': 2-3 accepted endorsements of one block with blocks of proof 0, 1, n-2, n-1, n VBK blocks "
            "above the earliest publication (n = size of the reward table read from the params object at run time) are "
            "paid > 0 at the payout height exactly when the table weight is non-zero. 'Counts in fork resolution': a "
            "chain backed only by an endorsement of its block at keystone K + {0, 1, ki-1, ki, ki+1} (K = ki, 2ki; forks "
            "from below K; tips below / at / above K+ki+1) beats an equally long chain without endorsement and one whose "
            "only endorsement for K was published later in VBK, in both directions of comparePopScore (strictness "
            "decided by the fork resolution table the library reports).",
    "note": "Trusted: as C04. The stateless part (C05) and payouts (C14) are observed only. 'Counts in fork resolution' is "
            "proved for the comparator as coded (C19_endorsement_counts_in_comparator, _vbk_and_alt_params: one compared "
            "keystone, published vs never published, both argument orders, on the C03 model of comparePopScoreImpl) and "
            "observed end to end on the ALT tree only; that an accepted VTB reaches the VBK tree's publication view is "
            "not modelled and the VBK-side comparator has no end-to-end oracle here. 'Counts in payouts' is checked on "
            "the implementation, not proved here.",
    "technique": "Coq proof + extraction-based differential correspondence + always-accept oracle with abort handler",
}


def cases_for(ctx):
    r = ctx.rng
    quick = ctx.tier == "quick"
    cases = []
    k = 0
    for _ in range(6 if quick else 80):
        for m in R.BOUNDARIES:
            g = R.case_c04(r.fork(), m)
            if g is not None:
                k += 1
                cases.append(("b%d" % k, g))
    for _ in range(30 if quick else 600):
        k += 1
        cases.append(("h%d" % k, R.case_c19(r.fork(), steps=r.range(8, 18))))
    for _ in range(20 if quick else 300):
        k += 1
        cases.append(("m%d" % k, R.case_mempool(r.fork())))
    for _ in range(10 if quick else 150):
        k += 1
        cases.append(("s%d" % k, R.case_mempool_stale(r.fork())))
    for _ in range(10 if quick else 150):
        k += 1
        cases.append(("p%d" % k, R.case_pubdata(r.fork())))
    # "... and then counts in payouts": 2-3 endorsements of one block at the distances 0, 1, n-2, n-1, n of the reward
    # table (n read from the library's params by the harness); every non-zero weight must be paid
    for _ in range(2 if quick else 40):
        for d in R.PAYOUT_DISTANCES:
            k += 1
            cases.append(("y%d" % k, R.case_payout(r.fork(), d)))
    # "... counts in fork resolution": a chain backed only by an endorsement of the block at keystone K + offset beats
    # an equally long fork without endorsement / with a later published one (both directions of comparePopScore)
    for _ in range(1 if quick else 20):
        for kmul in (1, 2):
            for o in R.FORKRES_OFFSETS:
                for later in (False, True):
                    k += 1
                    cases.append(("f%d" % k, R.case_forkres(r.fork(), kmul, o, later)))
    return cases


# ---------------------------------------------------------------------------------------------
# honest VTB construction: the extracted honest_vtbs (Rules/C19HonestDefs.v) against MockMiner
# ---------------------------------------------------------------------------------------------
HV_WINDOW = ["settle-1", "settle", "settle+1", "near", "any"]


def _nearest_known(g, ref, b, vpar):
    """the miner's input lastKnownBtcBlock: nearest block at or below b that the chain references (b0 always is)"""
    while not g.btc_ok(ref, b, vpar):
        b = g.btc[b]["parent"]
    return b


def case_hvtb(rng, window):
    """ALT chain with a side fork; every block carries 1-3 VTBs built by the library's MockMiner (registry op `vtb`)
    from (endorsed block, containing parent on a random VBK fork, BTC parent anywhere in the BTC tree incl. forks and
    unreferenced gaps, last known BTC block = nearest referenced one); distance containing - endorsed aimed at the VBK
    settlement interval -1 / 0 / +1.  The model rebuilds the VTBs from (containing, endorsed height, block of proof)."""
    r = rng
    cfg = R.small_cfg(r)
    cfg["vbk_settle"] = r.range(3, 5)
    g = R.RulesGen(r, cfg)
    vs = g.vsettle
    for _ in range(vs + 2):
        g.mine_vbk()
    blocks = ["a0"]
    g.hv = []                       # (alt block, [vtb ids], expired?)
    n = r.range(3, 5)
    for step in range(n):
        if r.chance(1, 3):
            g.mine_vbk(g.pick_vparent((1, 2)))
        if r.chance(1, 2):
            g.mine_btc(r.choice(sorted(g.btc, key=lambda b: int(b[1:]))))
        last_step = step == n - 1
        P = blocks[-1] if r.chance(3, 4) else r.choice(blocks)
        a = g.new_alt(P)
        ref = dict(g.alt[P]["kbref"])
        ws = []
        expired = False
        for j in range(r.range(1, 3)):
            vpar = g.pick_vparent((1, 3))
            hc = g.vbk[vpar]["height"] + 1
            anc = g.v_anc(vpar, vs + 2)
            k = window if j == 0 else r.choice(["near", "any"])
            if k == "settle+1" and not last_step:
                k = "settle"
            d = {"settle-1": vs - 1, "settle": vs, "settle+1": vs + 1, "near": 1}.get(k) or r.range(1, vs)
            d = max(1, min(d, len(anc)))
            e = anc[d - 1]            # height hc - d
            bpar = r.choice(sorted(g.btc, key=lambda b: int(b[1:])))
            for _ in range(r.below(3)):
                bpar = g.mine_btc(bpar)              # unreferenced BTC blocks between the known block and the proof
            last = _nearest_known(g, ref, bpar, vpar)
            if hc - g.vbk[e]["height"] > vs:
                w = g.make_xvtb(e, last, vparent=vpar, bparent=bpar)     # the miner's own validation would refuse
                expired = True
            else:
                w = g.make_vtb(e, last, vparent=vpar, bparent=bpar)
            ws.append(w)
            g.ref_add(ref, w)
            if expired:
                break
        g.set_pd(a, vtbs=ws)
        g.decl("hvtbs", a)
        g.decl("hverdict", a)
        g.show(a, headers_first=r.chance(1, 2))
        if expired:
            g.verdict(a)
        else:
            g.verdict(a, tag=("accept", a))
            blocks.append(a)
        g.hv.append((a, ws, expired))
    g.on("audit", tag=("audit",))
    g.meta = dict(mutation="honest_vtb_" + window, planted=False, depth=len(blocks), desc=0)
    return g


def honest_vtb_stage(ctx):
    """model's honest construction vs MockMiner's payloads, and the verdict of the chain with the MODEL-built VTBs vs
    the library's verdict on the MockMiner-built ones"""
    okm, model, _ = vlib.build_model("Rules")
    okh, hs, _ = vlib.build_harness(["h_rules"])
    if not (okm and okh):
        ctx.broken.append("honest-vtb stage: build failed")
        return
    reps = 3 if ctx.tier == "quick" else 40
    cases = []
    for i in range(reps):
        for wdw in HV_WINDOW:
            cases.append(("hv%d" % len(cases), case_hvtb(ctx.rng.fork(), wdw)))
    ires, mres, orc, aborted = R.run_histories(vlib, ctx, hs["h_rules"], model, cases)
    st = dict(histories=len(cases), vtbs_compared=0, vtbs_equal=0, blocks=0, verdicts_compared=0, accepted=0,
              expired_refused=0, with_context_gap=0, on_vbk_fork=0, on_btc_fork=0, window={})
    for p, g in cases:
        idx = {}
        for i, l in enumerate(g.lines):
            w = l.split()
            if w[0] == "on" and w[2] in ("vtbinfo", "verdict"):
                idx[(w[2], w[3])] = "%s.%d" % (p, i + 1)
            if w[0] == "decl" and w[1] in ("hvtbs", "hverdict"):
                idx[(w[1], w[2])] = "%s.%d" % (p, i + 1)
        if [a for a in aborted if a[0] == p]:
            ctx.violation(R.to_replay(g, {"what": "the harness process died on an honest VTB history"}))
            continue
        f04, f19, mirror = R.evaluate(g, ires, p)
        if mirror:
            ctx.broken.append("generator-mirror (honest VTB stage): %s %s" % (p, mirror[0][1:]))
            continue
        if f19:
            ctx.violation(R.to_replay(g, {"what": "direct oracle failed (honest VTBs built by MockMiner)", "failed": f19[:6]}))
            continue
        for a, ws, expired in g.hv:
            st["blocks"] += 1
            impl = ";".join(ires.get(idx[("vtbinfo", w)], "?") for w in ws)
            mod = mres.get(idx[("hvtbs", a)], "?")
            st["vtbs_compared"] += len(ws)
            iv, mv = ires.get(idx[("verdict", a)], "?"), mres.get(idx[("hverdict", a)], "?")
            st["verdicts_compared"] += 1
            for w in ws:
                d = g.vtb[w]
                if len(d["bctx"]) > 1:
                    st["with_context_gap"] += 1
                if not g.v_is_anc(d["containing"], g.vtip):
                    st["on_vbk_fork"] += 1
                if not g.b_is_anc(d["bop"], g.btip):
                    st["on_btc_fork"] += 1
                k = g.vbk[d["containing"]]["height"] - g.vbk[d["endorsed"]]["height"] - g.vsettle
                st["window"][str(k)] = st["window"].get(str(k), 0) + 1
            if impl == mod:
                st["vtbs_equal"] += len(ws)
            else:
                pth = ctx.replay_path(R.to_replay(g, {"what": "extracted honest_vtbs differs from the VTBs MockMiner built",
                                                      "block": a, "model": mod, "mockminer": impl}))
                # informational, not an alarm: which already-referenced BTC block MockMiner starts the context after is the
                # generator's choice of `lastKnownBtc` (a longer context that re-sends a referenced block is still an honest
                # VTB); the property-relevant comparison is the verdict below (seed 4242 met such a history on the
                # unchanged tree: DESIGN 12.4)
                st["construction_differs"] = st.get("construction_differs", 0) + 1
                st.setdefault("construction_differs_first", "%s: block %s model %s / MockMiner %s" % (pth, a, mod, impl))
            if iv.startswith("SKIP"):
                continue
            mt, it = mv.split(), iv.split()
            same = mt[:1] == it[:1] and (mt[0] == "true" or (mt[1:2] == it[1:2] and (it[2:3] == ["marked"] or mt[2:3] == it[2:3])))
            if mv == "true" and not expired:
                st["accepted"] += 1
            if expired and mt[:1] == ["false"] and mt[2:3] == ["vexpired"]:
                st["expired_refused"] += 1
            if not same:
                if mv == "true":
                    ctx.violation(R.to_replay(g, {"what": "the proved rule set accepts the honestly built VTBs, the library refuses them",
                                                  "block": a, "model": mv, "library": iv}))
                else:
                    pth = ctx.replay_path(R.to_replay(g, {"what": "verdict with model-built VTBs differs", "block": a, "model": mv, "library": iv}))
                    ctx.broken.append("corr:C19HonestDefs.honest_vtbs+apply_chain: first disagreeing input %s: %s vs %s" % (pth, mv, iv))
    ctx.cov["honest_vtb_construction"] = st
    ctx.cov["disagreements_checked"] = ctx.cov.get("disagreements_checked", 0) + st["vtbs_compared"] + st["verdicts_compared"]


def run(ctx):
    ctx.prove()
    if ctx.replay and "lines" in ctx.replay:
        cases = [("r1", R.gen_from_replay(ctx.replay))]
    else:
        cases = R.load_corpus(vlib, "C19") + cases_for(ctx)
    ctx.cov["rule"] = ("honest histories (8-18 steps: honest blocks on random parents incl. side forks, endorsing the "
                       "oldest timely block and the direct parent, VBK/BTC forks by the miner), the boundary "
                       "non-violations of the rule set, mempool deliveries, payout-distance scenarios and fork resolution "
                       "pairs; distinct = distinct (kind, depth, length)")
    R.check(vlib, ctx, "C19", cases)
    if not ctx.replay:
        honest_vtb_stage(ctx)
