"""C19 — honestly produced endorsements are always accepted while still timely."""
import vlib
from props import _rules as R

LEVEL = "proof"
HARNESSES = [("h_rules", "rel")]
ASSUMPTIONS = [
    "honest = produced by the library's MockMiner from publication data built with createFromPrevious on the reference "
    "tree, context chosen relative to the chain the payload is delivered on (VBK context connects; a VTB's BTC context "
    "starts after a BTC block referenced by the containing VBK block or one of its ancestors)",
    "configuration relations asserted by the library hold (payout delay >= settlement, maxReorg > settlement)",
    "cryptographic and proof-of-work validity of honest payloads is observed through the stateless checks, not proved",
]
META = {
    "text": "Theorems (Coq): publication data generated for block e (context info = createFromPrevious of e's parent) "
            "delivered with a connecting block of proof into any block having e on its own chain within the settlement "
            "interval satisfies the contextual rules (both sides are the same function); an honest body is accepted by "
            "the checks as coded; a chain of valid blocks is never refused. Honest VTBs are a construction (model of "
            "MockMiner: endorsed block = getAncestor of the containing block, BTC context = getBlocks down to the "
            "nearest BTC block the chain references) proved valid (C19_honest_vtbs_valid, C19_honest_vtbs_buildable, "
            "C19_known_vbk_parent_closed), so C19_honest_block_accepted_full / _on_any_chain have no validity premise "
            "about payloads; the settlement windows are exact and non-strict, height difference <= interval as in "
            "AddEndorsement::Execute (C19_atv_accepted_iff_timely, C19_atv_window_exact, C19_vtb_window_exact, four "
            "off-by-one _refuted), fork independent (C19_honest_atv_any_fork, C19_honest_atv_two_forks) and monotone "
            "until the window closes (C19_atv_accept_transfers, C19_atv_accept_monotone_along_chain, "
            "C19_atv_window_closes); C19_full_premises_satisfiable. Tie to the code: always-accept oracle on "
            "generated honest histories (every endorsable block incl. side forks, window boundaries, VBK/BTC forking, "
            "delivery through blocks and through the mempool), stateless checks, endorsement visible in "
            "containing/endorsedBy/blockOfProof lists, abort handler; extracted model vs library on every verdict. "
            "'Counts in payouts': 2-3 accepted endorsements of one block with blocks of proof 0, 1, n-2, n-1, n VBK blocks "
            "above the earliest publication (n = size of the reward table read from the params object at run time) are "
            "paid > 0 at the payout height exactly when the table weight is non-zero. 'Counts in fork resolution': a "
            "chain backed only by an endorsement of its block at keystone K + {0, 1, ki-1, ki, ki+1} (K = ki, 2ki; forks "
            "from below K; tips below / at / above K+ki+1) beats an equally long chain without endorsement and one whose "
            "only endorsement for K was published later in VBK, in both directions of comparePopScore (strictness "
            "decided by the fork resolution table the library reports).",
    "note": "Trusted: as C04. The stateless part (C05) and payouts (C14) are observed only. _partial in the sense that "
            "'counts in fork resolution and payouts' is checked on the implementation, not proved here.",
    "technique": "Coq proof + extraction-based differential correspondence + always-accept oracle with abort handler",
}


def cases_for(ctx):
    r = ctx.rng
    quick = ctx.tier == "quick"
    cases = []
    k = 0
    for _ in range(6 if quick else 80):
        for m in R.BOUNDARIES:
            g = R.case_c04(r.fork(), m)
            if g is not None:
                k += 1
                cases.append(("b%d" % k, g))
    for _ in range(30 if quick else 600):
        k += 1
        cases.append(("h%d" % k, R.case_c19(r.fork(), steps=r.range(8, 18))))
    for _ in range(20 if quick else 300):
        k += 1
        cases.append(("m%d" % k, R.case_mempool(r.fork())))
    for _ in range(10 if quick else 150):
        k += 1
        cases.append(("s%d" % k, R.case_mempool_stale(r.fork())))
    for _ in range(10 if quick else 150):
        k += 1
        cases.append(("p%d" % k, R.case_pubdata(r.fork())))
    # "... and then counts in payouts": 2-3 endorsements of one block at the distances 0, 1, n-2, n-1, n of the reward
    # table (n read from the library's params by the harness); every non-zero weight must be paid
    for _ in range(2 if quick else 40):
        for d in R.PAYOUT_DISTANCES:
            k += 1
            cases.append(("y%d" % k, R.case_payout(r.fork(), d)))
    # "... counts in fork resolution": a chain backed only by an endorsement of the block at keystone K + offset beats
    # an equally long fork without endorsement / with a later published one (both directions of comparePopScore)
    for _ in range(1 if quick else 20):
        for kmul in (1, 2):
            for o in R.FORKRES_OFFSETS:
                for later in (False, True):
                    k += 1
                    cases.append(("f%d" % k, R.case_forkres(r.fork(), kmul, o, later)))
    return cases


def run(ctx):
    ctx.prove()
    if ctx.replay and "lines" in ctx.replay:
        cases = [("r1", R.gen_from_replay(ctx.replay))]
    else:
        cases = R.load_corpus(vlib, "C19") + cases_for(ctx)
    ctx.cov["rule"] = ("honest histories (8-18 steps: honest blocks on random parents incl. side forks, endorsing the "
                       "oldest timely block and the direct parent, VBK/BTC forks by the miner), the boundary "
                       "non-violations of the rule set, mempool deliveries, payout-distance scenarios and fork resolution "
                       "pairs; distinct = distinct (kind, depth, length)")
    R.check(vlib, ctx, "C19", cases)
