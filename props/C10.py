"""C10 — saved trees reload to an equivalent state, including incremental saves; a crash
between two saves loses only the unsaved tail."""
import json
import os
import time
from collections import Counter

import vlib
from props import _store as S
from props import _c10obs as O

LEVEL = "proof"
HARNESSES = [("h_store", "rel")]
ASSUMPTIONS = [
    "histories are API-conformant: the harness answers SKIP when a documented precondition of a call is not met",
    "InmemStorageImpl stands for the key-value store (a batch is applied as a whole; a crash is modelled between batches)",
    "the random histories (every save placement) run with the default (huge) max-reorg settings; finalizing instances "
    "are covered by the `late` (VBK window 12, preserve 6) and `btcfin` (BTC window 2016 = the asserted floor, preserve "
    "0) histories, whose ALT tree does not finalize (transparency of ALT finalization is C09)",
    "late payloads are delivered while everything they need is still in memory (a VTB whose endorsed block / BTC "
    "connecting block has been deallocated is invalid on a finalizing instance but valid on a freshly loaded one that "
    "has not finalized yet: finalization state is memory-only; that difference is C09 territory and not generated here)",
]
META = {
    "text": "Theorems (Coq, ALL operation histories with saves at ALL positions; model coq/Store/SaveLoadDefs.v of the "
            "BlockIndex/addon mutators with exactly the setDirty() calls of the code, saveTree and loadTree): "
            "C10_dirty_complete - a block that is not dirty is on disk with exactly its current persisted projection "
            "(every change since the last write marks the block, also through the composite paths whose primitives do "
            "not mark: clearPayloads+unsetFlag, setNull+raw status in deleteTemporarily); C10_save_load_roundtrip - "
            "after the last save the storage accumulated by the incremental saves IS the full dump of the state, so "
            "loading it equals loading a complete snapshot; C10_crash_loses_only_tail - nothing but a save writes, a "
            "crash after a completed save loads exactly that save. C10_dirty_complete_v0_refuted documents repaired "
            "defect F9 (raiseValidity without setDirty: stored 257 vs live 258). C10_load_blocks_topological - "
            "loadBlockForward + recoverEndorsements over any parent-before-child order restore exactly the stored "
            "fields; C10_recovery_window_iff_live_rule - the endorsement-recovery window of loadBlockInner (explicit "
            "parameter of the model) accepts exactly the endorsements the live settlement rule accepts, with "
            "C10_recovery_window_short_refuted for the window shortened by one; C10_reload_equiv_partial - for any history and any placement of saves, load of the accumulated "
            "storage succeeds and yields the tip and every live block's persisted projection (status, payload ids, "
            "containing endorsements, refcount, parent, height) as of the last save, under premises about the saved state (structural consistency of the stored block "
            "set - from which the parent-before-child order of the height sort IS proved - and a stored active chain "
            "that is ACTIVE and fully valid so that loadTip changes nothing persisted). These premises are now PROVED for "
            "the saved state of every guarded history: C10_reload_wf_inductive - the well-formedness invariant wf "
            "(Store/ReloadEquiv.v: unique ids, every tree index at least VALID_TREE and every ACTIVE one fully valid, "
            "parent index one below / parent of a tree block is a tree block / parent of an ACTIVE block is ACTIVE, "
            "endorsed blocks are tree blocks strictly below, endorsedBy = multiset of the containing endorsements pointing "
            "to the block, removed indices exactly as deleteTemporarily leaves them, the tip is an ACTIVE tree block) holds "
            "initially and is preserved by every operation that meets its caller guarantees pre; C10_load_of_wf / "
            "C10_reload_equiv - for every guarded history with saves at any positions load of the accumulated storage "
            "SUCCEEDS (each failure branch of load - bad-prev, bad-height, no-endorsed, missing tip - is excluded by a "
            "named clause of wf) and the loaded state is equivalent to the live one: same tip, same blocks with equal "
            "persisted projection, finalized mark and endorsedBy multiset (rebuilt by recoverEndorsements), all loaded "
            "blocks clean; ignored are only the dirty bit, the map order and BLOCK_DELETED indices (never loaded); "
            "C10_reload_obs / C10_crash_obs - the executable observation load_obs (Store/ReloadObsDefs.v: load the storage "
            "image and show per tree block parent, height, status word, payload ids, containing endorsements, refcount, "
            "finalized mark, endorsedBy) of the storage of any completed save of any guarded history succeeds and agrees "
            "entry by entry with the observation of the live state at that save (endorsedBy up to order), whatever ran "
            "after the save; this observation is what the correspondence stage compares field by field with a fresh "
            "library instance loaded from the real storage (ALT tree; VBK/BTC reload is covered by the oracle only); "
            "C10_reload_chainwork - the chain work recomputed from that storage is the parent-path sum in the live tree; "
            "C10_reload_step_equiv / C10_reload_continues - every operation on equivalent states has the same outcome "
            "(Done or the same Abort code) and equivalent results, hence the reloaded instance follows the live one op "
            "for op over every guarded follow-up history; C10_reload_example - a history with forks, invalidation, "
            "removal/re-adding, payload changes, endorsements, reorgs and saves meets the premises (executable guard "
            "Store/ReloadGuardB.v). NOT proved / restrictions: the operations of the model take block lists, "
            "endorsements and the tip as free arguments, so the theorems are stated for guarded histories (pre = what "
            "the C++ callers guarantee; C10_reload_unguarded_refuted shows the statement is false without: an "
            "endorsement of a missing block makes load fail, a save between unapply and setTip reloads an ACTIVE tip); "
            "two guarantees restrict the API rather than describe the callers: a removed block that carried "
            "FAILED_BLOCK or a stale FAILED_CHILD is not re-added, and ACTIVE/tip change in the order "
            "setTip-then-unapply / apply-then-setTip. That the real traversals (descendant lists, removed subtrees, "
            "endorsement validation) satisfy pre is NOT proved in Coq; block-of-proof back pointers, payload index, "
            "tips_ sets and finalization of the reloaded tree are not modelled - those parts are checked by the direct "
            "oracle and by the model/implementation comparison of load. Direct oracle on the rebuilt "
            "library: for generated histories under small settlement intervals (ATV and VTB endorsements at every "
            "distance up to and including the boundary; forks, reorgs, invalid payloads, invalidate/revalidate, remove, "
            "body-before-parent-body) and EVERY placement of up to 3 save points (sampled for long histories) a fresh "
            "instance loaded from a copy of the storage taken at each save equals the live instance (full observation "
            "of all three trees) and answers every later operation identically; with a save after every operation "
            "every block whose persisted projection changed is dirty before the save. "
            "Memory-only fields that load RECOMPUTES are part of the comparison: the accumulated chain work of every "
            "VBK/BTC block (C10_chainwork_restored: load rebuilds it for every block of every consistent tree whatever the "
            "bootstrap flags and insertion order; C10_chainwork_restart_at_bootstrap_refuted: the variant that restarts "
            "the sum at BLOCK_BOOTSTRAP blocks, 2-block bootstrap chain). Histories run under bootstrap configurations "
            "genesis-only and bootstrapWithChain (2-4 blocks) for VBK, BTC and both, with stale VBK/BTC forks branching "
            "off interior bootstrap blocks. Finalizing (loaded) instances: C10_finalize_keeps_dirty_chain_blocks - for ANY "
            "set of dirty blocks finalizeBlockImpl retains every dirty active-chain block, dirty, with its payload ids "
            "(premise: no unsaved block on an outdated fork), C10_finalize_stop_at_first_clean_refuted for the walk that "
            "stops at the first clean block; oracle: interleaved saves with LATE VTBs that re-dirty old saved VBK blocks "
            "(new VTB id / containing endorsement) resp. old BTC blocks (new reference) just before they leave memory, in "
            "the setState whose finalization moves the root; after every save nothing in memory is dirty, a fresh load "
            "holds every block the live instance holds with identical lines, is cross-tree consistent (every VTB of an "
            "active ALT block sits in a VBK block, its BTC block of proof is referenced at that height), and follows the "
            "live instance (roll-back of the late block included); no unsaved block disappears between two operations.",
    "note": "Trusted: Coq kernel, extraction, OCaml driver (ocaml/Store_driver.ml), C++ harness (harness/h_store.cpp "
            "over harness/world.hpp), generators, the micro-op synthesis in props/_store.py (the model is driven by "
            "the observed per-op change of each ALT block; compared: status words and tip after every op, model dirty "
            "set within isDirty(), load result vs reloaded instance; ocaml/StoreObs_driver.ml + props/_c10obs.py: every "
            "field of every reloaded ALT block vs load_obs of the model's storage image, a difference already present "
            "between the live model state and the live instance counts as a synthesis desync, not as a load finding). Exclusions of the oracle are listed in the "
            "evidence (persisted_equivalence). Deleted blocks are not persisted state: a reloaded instance forgets the "
            "FAILED_BLOCK/FAILED_CHILD marks that deleteTemporarily keeps on removed blocks.",
    "technique": "Coq proof (invariant over op histories; chain-work recovery; finalization vs dirty blocks) + "
                 "extraction-based differential correspondence + save-point enumeration with reload/crash oracle over "
                 "bootstrap configurations and finalizing instances with late payloads",
}

# small settlement intervals: endorsements at every distance up to and including the boundary are generated
CFG = {"alt_ki": 5, "alt_settle": 5, "payout_delay": 5, "payout_avg": 3, "vbk_settle": 6, "vbk_preserve": 6}

# finalizing instance: small VBK reorg window and preserved window (VbkChainParams has no floor on either; BTC's floor
# is the difficulty adjustment interval 2016, see the thorough tier), huge ALT window
# (vbk_ki 3: the contextual check of a new VBK block needs the previous keystones, they must lie inside the preserved
# window)
CFG_LATE = {"alt_ki": 5, "alt_settle": 5, "payout_delay": 5, "payout_avg": 3, "vbk_settle": 6, "vbk_preserve": 6,
            "vbk_maxreorg": 12, "vbk_ki": 3}

# BTC finalization: BtcChainParams::getMaxReorgBlocks asserts >= difficulty adjustment interval (2016 on regtest)
CFG_BTCFIN = {"alt_ki": 5, "alt_settle": 5, "payout_delay": 5, "payout_avg": 3, "btc_maxreorg": 2016}

# bootstrap configurations (blocks after genesis in the VBK / BTC bootstrap chain; 0 = bootstrapWithGenesis)
BOOTS = [(0, 0), (3, 0), (0, 2), (2, 3), (4, 2)]

EQUIV = (
    "persisted-equivalence used by the oracle: the sorted observation of ALL three trees through public getters "
    "(per non-deleted block: height, full status word, payload ids in order, containing endorsements, endorsedBy, "
    "block-of-proof back pointers, VBK refcount, BTC refs, finalized mark; tips_ sets, roots, active tips, "
    "appliedBlockCount, payload index, finalized payload index) must be IDENTICAL between the live instance right "
    "after saveTrees and a fresh instance loaded from a copy of the storage. Only exclusion: the memory-only dirty "
    "bit (BlockIndex::dirty; loadBlockInner ends with unsetDirty() and loadTip's setFlag(BLOCK_ACTIVE)/raiseValidity "
    "may set it again). Nothing else had to be excluded: loadTip re-derives BLOCK_ACTIVE and BLOCK_CAN_BE_APPLIED on "
    "the active chain, but the live active chain already carries both (setState/comparePopScore leave every active "
    "block fully valid), validity levels are stored in the status word and are not lowered by load, chainWork/"
    "endorsedBy/blockOfProof pointers/payload index are recomputed by loadBlockForward/recoverEndorsements to the "
    "same values, deleted blocks are skipped by both getBlocks() and loadBlocksAndTip. Generator-level exclusion: a "
    "block that carried BLOCK_FAILED_BLOCK/BLOCK_FAILED_CHILD when it was removed is never re-added (the live "
    "instance remembers these marks on the deleted index, a reloaded one cannot: deleted blocks are skipped by "
    "loadBlocksAndTip by design). The memory-only chainWork of every VBK/BTC block (rebuilt by loadBlockForward) is "
    "part of the observation. Finalizing instances (`xdump fin`, props/_store.py diff_dumps_fin): the live and the "
    "reloaded instance may hold different amounts of final history, so blocks both hold must have identical lines, "
    "right after the load the reloaded one must hold every block of the live one, best tips equal, a tree with the same "
    "root in both is compared completely; block-of-proof back pointers are not read (known finding "
    "dangling-endorsement-backpointers), the finalized mark is memory-only. Comparison of two RUNNING instances (after "
    "the follow-up operations; never right after the load): the validation level CONNECTED..CAN_BE_APPLIED of a valid "
    "VBK/BTC block off the best chain is not compared - BaseBlockTree::doUpdateTips() iterates the unordered_set tips_ "
    "(pointer order, different in any two instances) and applies a stale branch once iff it is visited before the "
    "eventual winner; best chains, flags, payloads and all answers are compared.")


# ---------------------------------------------------------------------------
def run_script(binary, sc, work, name):
    p = os.path.join(work, name)
    with open(p, "w") as f:
        f.write("\n".join(sc.lines) + "\n")
    return vlib.run_lines([binary], p, timeout=1500)


def judge(sc, res, stats=None):
    """-> list of failures: (tagbase, what, detail)"""
    fails = []
    fin_tags = getattr(sc, "fin_tags", set())
    for i, tag in sc.meta.items():
        kind = tag[1]
        r0 = res.get(i)
        if r0 is not None and (r0.startswith("ABORT") or r0.startswith("THROW")) and kind in ("live", "rel", "load"):
            # a failed VBK_ASSERT / exception inside the library on an API-conformant history
            fails.append((tag[0], "library-abort", {"line": kind, "op_pos": tag[3] if kind != "load" else tag[3],
                                                    "op": list(tag[4]) if kind == "rel" else (list(tag[3]) if kind == "live" else "load"),
                                                    "result": r0}))
            continue
        if kind == "load":
            r = res.get(i)
            if r != "ok":
                fails.append((tag[0], "load-failed", {"save_no": tag[2], "after_op": tag[3], "result": r}))
        elif kind == "rel":
            a = tag[5]
            if res.get(i) != res.get(a):
                fails.append((tag[0], "follow-up-answer-differs",
                              {"reloaded": tag[2], "op_pos": tag[3], "op": list(tag[4]),
                               "live": res.get(a), "reloaded_answer": res.get(i)}))
            if stats is not None:
                stats["followup_ops_compared"] += 1
        elif kind == "clean":
            # after saveTrees every block still in memory is clean
            r = res.get(i, "")
            left = sorted(S.parse_dirty(r)) if r and not r.startswith(("DEAD", "ABORT")) else []
            if left:
                fails.append((tag[0], "block-dirty-right-after-save", {"save_no": tag[2], "after_op": tag[3], "blocks": left[:8]}))
        elif kind in ("dumpR", "finalR"):
            a = tag[-1]
            if res.get(i) is None or res.get(a) is None:
                fails.append((tag[0], "no-dump", {"id": i}))
                continue
            if "DEAD" in (res[i], res[a]) or res[i].startswith("ABORT") or res[a].startswith("ABORT"):
                continue          # reported through the aborting line itself
            if tag[0] in fin_tags:
                d1, d2 = S.diff_dumps_fin(res[a], res[i], kind == "dumpR")
                if kind == "dumpR":
                    inc = S.reload_inconsistencies(res[i])
                    if inc:
                        fails.append((tag[0], "reloaded-instance-inconsistent", {"tag": [str(x) for x in tag[2:-1]], "what": inc[:4]}))
            else:
                # exact right after the load; after both instances have executed further operations the
                # validation-level memo of stale SP branches is not compared (see _store.canon_dump)
                d1, d2 = S.diff_dumps(res[a], res[i], relax_sp_level=(kind == "finalR"))
            if d1 or d2:
                fails.append((tag[0], "state-differs-after-reload" if kind == "dumpR" else "state-differs-after-follow-up",
                              {"tag": [str(x) for x in tag[2:-1]], "live_only": d1[:6], "reloaded_only": d2[:6]}))
            if stats is not None:
                stats["dumps_compared"] += 1
        elif kind == "live" and stats is not None:
            r = (res.get(i) or "?").split()
            key = tag[3][0] + ":" + (" ".join(r[:2]) if r and r[0] in ("SKIP", "false", "fail") else (r[0] if r else "?"))
            stats["op:" + key] += 1
        elif kind == "dirty" and stats is not None:
            r = res.get(i, "")
            n = sum(len([x for x in part.split(":")[1].split(",") if x != "-"]) for part in r.split() if ":" in part)
            stats["blocks_written"] += n
            if tag[2] > 0:
                stats["incremental_saves"] += 1
    return fails


def oracle_fails(sc, orc):
    """failures reported by the harness's direct oracles (`!id text` lines) -> [(tagbase, what, detail)]"""
    out = []
    for i, text in orc:
        tag = sc.meta.get(i)
        if tag is not None:
            out.append((tag[0], text.split()[0], {"line": tag[1], "op": list(tag[3]) if tag[1] == "live" else [str(x) for x in tag[2:5]],
                                                  "oracle": text[:400]}))
    return out


def one_case(binary, work, registry, ops, tail, saves, name="case", fin=False):
    """run a single placement in its own process; -> failures"""
    sc = S.Script()
    for l in registry:
        sc.add(l)
    S.emit_placement(sc, [tuple(o) for o in ops], [tuple(o) for o in tail], saves, 0, fin=fin)
    if not fin:
        S.emit_dirty_probe(sc, [tuple(o) for o in ops] + [tuple(o) for o in tail], 0)
    rc, res, orc, err = run_script(binary, sc, work, name + ".txt")
    f = oracle_fails(sc, orc) + judge(sc, res)
    if not fin:
        pbad, _ = S.judge_dirty_probe(sc, res)
        for tagbase, pos, w, miss, detail in pbad[:2]:
            f.append((tagbase, "persisted-projection-changed-but-block-not-dirty",
                      {"op_pos": pos, "op": list(w), "blocks": miss, "before_after": detail}))
    if rc != 0:
        f.append((0, "harness-crashed", {"rc": rc, "stderr": err[-400:]}))
    return f


def minimise(binary, work, registry, ops, tail, saves, budget=10, fin=False):
    """cheap delta debugging: drop saves, then chunks of ops (registry kept), a bounded number of runs"""
    runs = [0]

    def fails(o, t, s):
        runs[0] += 1
        return bool(one_case(binary, work, registry, o, t, s, "min%d" % runs[0], fin=fin))

    saves = list(saves)
    ops = list(ops)
    tail = list(tail)
    # 1. fewer saves
    for s in list(saves):
        if len(saves) > 1 and runs[0] < budget:
            cand = [x for x in saves if x != s]
            if fails(ops, tail, cand):
                saves = cand
    # 2. shorter tail
    if tail and runs[0] < budget and fails(ops, [], saves):
        tail = []
    # 3. drop chunks of ops after / before the saves (positions of saves shift accordingly)
    chunk = max(1, len(ops) // 2)
    while chunk >= 1 and runs[0] < budget:
        i = 0
        progressed = False
        while i < len(ops) and runs[0] < budget:
            cand_ops = ops[:i] + ops[i + chunk:]
            cand_saves = []
            for s in saves:
                if s <= i:
                    cand_saves.append(s)
                elif s > i + chunk:
                    cand_saves.append(s - chunk)
                else:
                    cand_saves.append(i)
            cand_saves = sorted({s for s in cand_saves if s >= 1})
            if cand_ops and cand_saves and fails(cand_ops, tail, cand_saves):
                ops, saves = cand_ops, cand_saves
                progressed = True
            else:
                i += chunk
        if not progressed:
            chunk //= 2
    return ops, tail, saves


def model_correspondence(ctx, model, sc, res, gens, stats):
    """drive the extracted SaveLoad model with micro-ops synthesised from the observed per-op changes (dirty probe
    instance) and compare status words/tip, dirty sets and load results. -> list of texts of genuine disagreements"""
    lines, exp = S.model_script_for_probe(sc, res, gens)
    if not lines:
        return []
    p = os.path.join(ctx.work, "model_c10.txt")
    with open(p, "w") as f:
        f.write("\n".join(lines) + "\n")
    rc, mres, _, merr = vlib.run_lines([model], p, timeout=900)
    if rc != 0:
        ctx.broken.append("model-runner rc=%d %s" % (rc, merr[-200:]))
    bad = []
    desynced = set()
    for (i, kind, tb, pos, w, want) in exp:
        if tb in desynced:
            continue
        got = mres.get(i)
        if kind == "mop":
            if got != "ok":
                desynced.add(tb)
                stats["corr_histories_desynced"] += 1
                stats["corr_desync:mop " + str(got)[:20]] += 1
        elif kind == "state":
            stats["corr_states_compared"] += 1
            if got != want:
                desynced.add(tb)
                stats["corr_histories_desynced"] += 1
                if len(ctx.cov["samples"]) < 6:
                    ctx.sample({"desync_after_op": list(w), "model": str(got)[:300], "impl": want[:300]})
        elif kind == "dirty":
            stats["corr_dirty_sets_compared"] += 1
            md = set() if got in (None, "-") else {int(x) for x in got.split(",") if x}
            if not md <= set(want):
                bad.append("corr:Store.SaveLoadDefs.step dirty set: model marks %s, isDirty() only %s after op %s (pos %d)"
                           % (sorted(md - set(want)), want, list(w), pos))
                desynced.add(tb)
        elif kind == "load":
            stats["corr_loads_compared"] += 1
            if got != want:
                bad.append("corr:Store.SaveLoadDefs.load model=%s impl=%s after op %s (pos %d)" % (str(got)[:300], want[:300], list(w), pos))
                desynced.add(tb)
    return bad


def corpus_cases():
    d = os.path.join(vlib.VERIF, "corpus", "C10")
    out = []
    if os.path.isdir(d):
        for f in sorted(os.listdir(d)):
            if f.endswith(".json"):
                out.append((f, json.load(open(os.path.join(d, f)))))
    return out


def report(ctx, binary, registry, ops, tail, saves, what, detail, do_min=True, fin=False):
    if do_min:
        try:
            ops, tail, saves = minimise(binary, ctx.work, registry, ops, tail, saves, fin=fin)
        except Exception:
            pass
    key = json.dumps([ops, saves], default=list)
    seen = ctx.__dict__.setdefault("_c10_seen", set())
    if key in seen:
        return
    seen.add(key)
    again = one_case(binary, ctx.work, registry, ops, tail, saves, "confirm", fin=fin)
    if again:
        what, detail = again[0][1], again[0][2]
    ctx.violation({"kind": "ops", "registry": list(registry), "ops": [list(o) for o in ops],
                   "tail": [list(o) for o in tail], "saves": list(saves), "fin": bool(fin), "what": what, "detail": detail,
                   "how": "replay: registry lines build the blocks (the `begin` line carries the configuration incl. the "
                          "bootstrap chains), ops run on a fresh instance with saveTrees after the listed op positions; "
                          "a copy of the storage is loaded after every save, compared, and follows the live instance; "
                          "fin: the instance itself is a loaded (finalizing) one, see props/_store.py emit_placement"})


def run(ctx):
    ctx.prove()
    okh, hs, hlog = vlib.build_harness(["h_store"])
    if not okh:
        ctx.broken.append("harness-build: " + hlog[-300:])
        return
    binary = hs["h_store"]
    okm, model, mlog = vlib.build_model("Store")
    if not okm:
        ctx.broken.append("model-build: " + mlog[-300:])
    oko, omodel, olog = vlib.build_model("StoreObs")
    if not oko:
        ctx.broken.append("model-build StoreObs: " + olog[-300:])
    if os.environ.get("VERIF_C10_OBS_MODEL"):      # self-test only: a mutated copy of the extracted model
        omodel = os.environ["VERIF_C10_OBS_MODEL"]
    stats = Counter()
    t0 = time.time()

    # ---- replay mode
    if ctx.replay and ctx.replay.get("kind") == "ops":
        rp = ctx.replay
        f = one_case(binary, ctx.work, rp["registry"], rp["ops"], rp.get("tail", []), rp["saves"], "replay", fin=rp.get("fin", False))
        ctx.cov["evaluations"] = 1
        if f:
            report(ctx, binary, rp["registry"], rp["ops"], rp.get("tail", []), rp["saves"], f[0][1], f[0][2], do_min=False,
                   fin=rp.get("fin", False))
        return

    # ---- corpus first (witnesses of repaired defects)
    ncorp = 0
    for fname, c in corpus_cases():
        ncorp += 1
        f = one_case(binary, ctx.work, c["registry"], c["ops"], c.get("tail", []), c["saves"], "corpus%d" % ncorp,
                     fin=c.get("fin", False))
        if f:
            report(ctx, binary, c["registry"], c["ops"], c.get("tail", []), c["saves"], f[0][1], f[0][2], do_min=False,
                   fin=c.get("fin", False))
    stats["corpus_cases"] = ncorp

    # ---- generated histories x save placements
    quick = ctx.tier == "quick"
    # ("hist", nsteps, kmax, limit, count): random histories x enumerated/sampled save placements, bootstrap
    #     configuration cycling through BOOTS (genesis only / bootstrapWithChain for VBK, BTC, both);
    # ("late", nblocks, count): loaded, finalizing instance (small VBK window), interleaved saves, late VTBs
    #     (VBK finalization);  ("btcfin", 0, count): the same for BTC (reorg window 2016, nothing preserved)
    if quick:
        plan = [("hist", 6, 3, 400, 6), ("hist", 9, 3, 400, 4), ("late", 34, 5), ("btcfin", 0, 2), ("hist", 22, 3, 70, 8),
                ("hist", 40, 2, 60, 4)]
    else:
        plan = [("hist", 6, 3, 2000, 40), ("hist", 10, 3, 2000, 25), ("late", 40, 40), ("btcfin", 0, 12),
                ("hist", 14, 3, 3000, 10), ("hist", 25, 3, 400, 60), ("late", 70, 30), ("hist", 45, 3, 300, 40),
                ("hist", 80, 2, 200, 10)]
    evaluations = 0
    distinct = set()
    exhaustive_hist = 0
    hist_no = 0
    first_fail = {}
    for entry in plan:
        # several histories per process (each `begin` starts a new registry)
        sc = S.Script()
        cases = {}
        gens = {}
        if entry[0] in ("late", "btcfin"):
            _, nblocks, count = entry
            for _ in range(count):
                hist_no += 1
                r = ctx.rng.fork()
                if entry[0] == "btcfin":
                    g, ops, saves = S.gen_btcfin(r, CFG_BTCFIN)
                    stats["btcfin_histories"] += 1
                else:
                    g, ops, saves = S.gen_late(r, CFG_LATE, nblocks)
                S.emit_registry(sc, g)
                S.emit_placement(sc, ops, [], saves, (hist_no, 0), fin=True)
                cases[(hist_no, 0)] = (list(g.lines), ops, [], saves, True)
                evaluations += 1
                distinct.add((hist_no, tuple(saves)))
                stats["late_histories"] += 1
                stats["late_ops"] += len(ops)
                stats["late_saves"] += len(saves)
                stats["late_vtbs_delivered_late"] += sum(1 for a in g.alt.values() if a["vtbs"] and any(
                    g.vbk[g.vtb[w]["containing"]]["height"] + 8 < max(g.vbk[v]["height"] for v in a["kv"]) for w in a["vtbs"]))
            nsteps = "%s%d" % (entry[0], nblocks)
        else:
            _, nsteps, kmax, limit, count = entry
            for _ in range(count):
                hist_no += 1
                r = ctx.rng.fork()
                kv, kb = BOOTS[hist_no % len(BOOTS)]
                cfg = dict(CFG)
                if kv:
                    cfg["vbk_bootstrap_chain"] = kv
                if kb:
                    cfg["btc_bootstrap_chain"] = kb
                stats["bootstrap_vbk%d_btc%d" % (kv, kb)] += 1
                g, ops = S.gen_history(r, cfg, nsteps, spfork_chance=(1, 5))
                tail = S.tail_ops(g, r)
                pl, exh = S.placements(len(ops), kmax, r, limit)
                exhaustive_hist += 1 if exh else 0
                S.emit_registry(sc, g)
                # direct dirty oracle on this history (save after every op)
                S.emit_dirty_probe(sc, ops + tail, (hist_no, "probe"))
                gens[(hist_no, "probe")] = g
                cases[(hist_no, "probe")] = (list(g.lines), ops, tail, list(range(1, len(ops) + len(tail) + 1)), False)
                for pi, p in enumerate(pl):
                    S.emit_placement(sc, ops, tail, p, (hist_no, pi))
                    cases[(hist_no, pi)] = (list(g.lines), ops, tail, p, False)
                    evaluations += 1
                    distinct.add((hist_no, p))
                stats["history_ops_%s" % ("short" if nsteps < 12 else "long")] += len(ops)
                stats["sp_fork_blocks"] += g.n_spfork
                stats["sp_fork_vtbs_on_btc_forks"] += g.n_spfork_vtb
        rc, res, orc, err = run_script(binary, sc, ctx.work, "gen%s.txt" % nsteps)
        fails = oracle_fails(sc, orc) + judge(sc, res, stats)
        pbad, pn = S.judge_dirty_probe(sc, res)
        stats["dirty_probe_steps"] += pn
        for tagbase, pos, w, miss, detail in pbad[:3]:
            fails.append((tagbase, "persisted-projection-changed-but-block-not-dirty",
                          {"op_pos": pos, "op": list(w), "blocks": miss, "before_after": detail}))
        mism = S.check_registries(sc, res)
        if mism:
            ctx.broken.append("generator/registry out of step: %s" % (mism[:2],))
        if okm and entry[0] == "hist":
            cbad = model_correspondence(ctx, model, sc, res, gens, stats)
            if cbad and not fails:
                # model and implementation disagree and no direct oracle failed on these histories:
                # name the correspondence (outcome rule 3)
                for t in cbad[:3]:
                    ctx.broken.append(t[:700])
        if oko and entry[0] == "hist":
            obad = O.reload_obs_correspondence(ctx, omodel, sc, res, gens, stats)
            if obad and not fails:
                for t in obad[:3]:
                    ctx.broken.append(t[:1000])
        if rc != 0:
            ctx.broken.append("runner: h_store rc=%d %s" % (rc, err[-300:]))
        for tagbase, what, detail in fails:
            if tagbase not in first_fail:
                first_fail[tagbase] = (what, detail)
        for tagbase, (what, detail) in sorted(first_fail.items(), key=lambda kv: str(kv[0]))[:3]:
            if len(ctx.violations) >= 3:
                break
            if tagbase in cases:
                reg, ops, tail, p, fin = cases[tagbase]
                report(ctx, binary, reg, ops, tail, list(p), what, detail, fin=fin)
        if first_fail:
            break
        if quick and time.time() - t0 > 130:
            stats["stopped_early_for_budget"] = 1
            break

    ctx.cov["evaluations"] = evaluations + ncorp
    ctx.cov["distinct_nontrivial"] = len(distinct)
    ctx.cov["rule"] = ("one evaluation = one (history, set of save positions); distinct = distinct pairs; every save is "
                       "followed by loading a copy of the storage into a fresh instance (crash model) that then follows "
                       "the live instance")
    ctx.cov["histories"] = hist_no
    ctx.cov["histories_with_all_placements_enumerated"] = exhaustive_hist
    ctx.cov["distribution"] = dict(sorted(stats.items()))
    ctx.cov["persisted_equivalence"] = EQUIV
    ctx.cov["disagreements_checked"] = stats["dumps_compared"] + stats["followup_ops_compared"]
    ctx.cov["traces_validated_against_impl"] = evaluations
    ctx.sample({"cfg": CFG, "plan(nsteps,kmax,limit,count)": plan})
