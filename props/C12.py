"""C12 — mempool-generated PopData is valid as-is for the next block, side-effect free."""
import os

import vlib
from props import _mempool as M
from props import C13 as B

LEVEL = "proof"
HARNESSES = [("h_mempool", "rel")]
ASSUMPTIONS = [
    "the configured maximum PopData size is at least the size of an empty PopData (10 bytes)",
    "the validity LEVEL memo of a block (low three status bits) may be raised by generatePopData (a VBK fork block that "
    "was applied while the temporary block's context was compared becomes BLOCK_CAN_BE_APPLIED); everything else in "
    "the three trees must be identical before and after the call",
]
META = {
    "text": "Theorems (Coq): the running figure of CountingContext equals the estimateSize of the PopData built so far "
            "as long as no count crosses a length-prefix boundary (counting_exact; the boundary case is exhibited), so "
            "the generated PopData fits without relying on the assertion; an add-temp-block / execute / remove machine "
            "with an inverse law returns to the state it started from (generate_pure). Tie to the code: after generated "
            "histories under small and default limits the real generatePopData is checked directly: limits, stateless "
            "check, nothing already on the active chain, all three trees identical before/after, and a next block "
            "carrying exactly the result connects and is activated on the same instance.",
    "note": "Trusted: Coq kernel, C++ harness and World interpreter. The stateful validity of the result is observed "
            "on the implementation (direct oracle), the Coq part covers size accounting and purity of the abstract "
            "machine.",
    "technique": "Coq proof (size accounting, inverse law) + direct oracle on generated histories",
}

CFGS = [
    dict(alt_ki=5, alt_settle=8, vbk_oldwin=12000, alt_maxvbk=3, alt_maxvtb=1, alt_maxatv=2),
    dict(alt_ki=4, alt_settle=4, vbk_oldwin=5, alt_maxreorg=6, alt_fd=3),
    dict(alt_ki=5, alt_settle=50, vbk_oldwin=12000),
    dict(alt_ki=3, alt_settle=4, vbk_oldwin=6, alt_maxsize=700, alt_maxreorg=5, alt_fd=4),
    dict(alt_ki=5, alt_settle=10, vbk_oldwin=12000, alt_maxsize=1300, alt_maxatv=3),
]


def run(ctx):
    if os.path.exists(os.path.join(vlib.VERIF, "coq", "Properties_C12.v")):
        ctx.prove()
    okr, hr, rlog = vlib.build_harness(["h_mempool"], "rel")
    if not okr:
        ctx.broken.append("harness-build(rel): " + rlog[-400:])
        return
    rel = hr["h_mempool"]
    runner = B.two_step(rel, None, ctx.work)
    if ctx.replay and ctx.replay.get("harness") == "h_mempool":
        B.replay(ctx, runner, "rel")
        return
    nc = B.run_corpus(ctx, "C12", runner, "rel")
    if ctx.tier == "quick":
        n_hist, n_steps, budget = 25, 60, 90
    else:
        n_hist, n_steps, budget = 400, 100, 1500
    tot, scripts = B.histories(ctx, "C12", rel, n_hist, n_steps, M.C12History, CFGS, budget, None, runner)
    ctx.cov["evaluations"] = tot["lines"] + nc
    ctx.cov["distinct_nontrivial"] = tot["gens"]
    ctx.cov["rule"] = ("non-trivial = generatePopData calls checked by the full oracle (limits, stateless check, not on "
                       "chain, trees identical, next block with exactly the result connects and activates); "
                       "applied = calls followed by the real next block on the same instance")
    ctx.cov["mempool_histories"] = tot
    ctx.cov["traces_validated_against_impl"] = tot["applied"]
    ctx.cov["disagreements_checked"] = tot["gens"]
    ctx.sample({"histories": tot["histories"], "gens": tot["gens"], "applied": tot["applied"], "stats": tot["stats"]})
