"""C12 — mempool-generated PopData is valid as-is for the next block, side-effect free."""
import glob
import os

import vlib
from props import _mempool as M
from props import C13 as B
from props import _gencorr as G

LEVEL = "proof"
HARNESSES = [("h_mempool", "rel"), ("h_count", "rel")]
ASSUMPTIONS = [
    "the configured maximum PopData size is at least the size of an empty PopData (10 bytes)",
    "the validity LEVEL memo of a block (low three status bits) may be raised by generatePopData (a VBK fork block that "
    "was applied while the temporary block's context was compared becomes BLOCK_CAN_BE_APPLIED; counted as "
    "`validity-level-raised-by-generate`); lowering it, and every other difference in the three trees, is a violation",
    "on a LOADED instance (save + reload) generatePopData advances finalization by one block (known finding "
    "F10-generate-advances-finalization): there the before/after comparison tolerates exactly what finalization does "
    "(F marks, deallocated blocks, dropped outdated tips) and does not read endorsement lists (deallocation leaves "
    "dangling AltEndorsement pointers in VbkBlockAddon::_blockOfProofEndorsements, observed as heap-use-after-free)",
]
META = {
    "text": "Theorems (Coq, closed under the global context): C12_counting_exact - the running figure of "
            "CountingContext equals estimateSize of the PopData kept so far, for every candidate sequence and mutator "
            "verdict; C12_generated_fits - with canFit as coded now (the growth of the kind's length prefix, "
            "singleBEValueSize(count+1) - singleBEValueSize(count), is priced) whatever filterInvalidPayloads keeps "
            "passes assertPopDataFits, no bound on the counts; C12_counting_prefix_refuted - documentation: canFit "
            "before the repair let the 256th payload that fits exactly overshoot by one byte (confirmed on the real "
            "library: estimate=16907, max=16906, witness corpus/C12/canfit_prefix_256.txt); C12_generated_applies - on "
            "the add-temp-block machine every kept payload was executed in the final order, so a block body carrying "
            "exactly the generated list executes completely on the same tip state and reaches the state the temporary "
            "block had; C12_generated_applies_ordered - the same with the application order explicit (filter order "
            "context, VTBs, ATVs = execution order of a block body), and C12_generated_applies_other_order_refuted - a "
            "filter applying ATVs before VTBs keeps a VTB whose containing block is known only as an ATV's block of "
            "proof, and the body fails; C12_generate_pure - add temporary block / execute / un-execute in reverse / remove returns to "
            "the initial state given the inverse laws. Tie to the code: direct oracle on the real generatePopData after "
            "generated histories under small and default limits (counts, estimateSize = encoded size <= limit, "
            "stateless checkPopData, nothing already on the active chain, all three trees identical before/after) and "
            "the REAL next block carrying exactly the result: header, body and setState succeed on the same "
            "instance, which then keeps going. Selection as coded, with payload ids, on the relations model "
            "(coq/Mempool/GenDefs.v, every height-sorted order of the relations, tree verdicts as oracles): "
            "C12_selection_from_pool (only connected payloads of the pool, after any operation sequence), "
            "C12_selection_valid (no id twice, context by ascending height with each block's predecessor in the tree or "
            "earlier in the context, every VTB/ATV with its containing block / block of proof in the tree or the "
            "returned context, nothing marked as on the active chain), C12_selection_replays (each payload was admitted in "
            "the state made by exactly the payloads before it in body order), C12_selection_fits, C12_sorted_order_exists, "
            "C12_generate_pool_effect (tryConnectPayloads + cleanUp: no assertion, no payload appears), "
            "C12_selection_example, and C12_selection_submission_order_refuted / C12_selection_equal_height_refuted "
            "(the result is NOT a function of pool content and tree: rel.vtbs keeps the submission order under the VTB "
            "limit; equal-height relations come in hash-map / std::sort order). The extracted counting model "
            "(can_fit / popsize / filter_fit / est_kept / fits; model `Gen`) runs against the REAL CountingContext and "
            "PopData::estimateSize on generated candidate sequences of real payloads of chosen sizes under generated "
            "limits (harness/h_count.cpp, props/_gencorr.py): canFit verdict, the figure compared with the size limit "
            "and the running size per candidate, estimateSize / assertPopDataFits conditions of the kept set; a "
            "difference is a violation. The extracted selection (GenDefs.generatePop) runs on every generatePopData "
            "call of the histories: relations in the order the implementation visited them and the verdicts of "
            "mutator.add as recorded through the callback overload, canFit and the duplicate test being the model's "
            "own; the returned context / VTB / ATV id lists must be equal in order (untranslatable calls are counted "
            "in gen_skipped).",
    "note": "Trusted: Coq kernel, C++ harness and World interpreter. Stateful validity of the result "
            "is proved on the abstract machine only (exec deterministic; that the real commands form such a machine "
            "is C01/C04's) and observed on the implementation; sizes are abstract numbers in the "
            "counting model (per-entity estimateSize = encoded length is C11's). Known finding F10 is exercised in "
            "every run (save/reload steps) and printed as KNOWN-FINDING.",
    "technique": "Coq proof (size accounting, inverse law) + direct oracle on generated histories",
}

CFGS = [
    dict(alt_ki=5, alt_settle=8, vbk_oldwin=12000, alt_maxvbk=3, alt_maxvtb=1, alt_maxatv=2),
    dict(alt_ki=4, alt_settle=4, vbk_oldwin=5, alt_maxreorg=6, alt_fd=3),
    dict(alt_ki=5, alt_settle=50, vbk_oldwin=12000),
    dict(alt_ki=3, alt_settle=4, vbk_oldwin=6, alt_maxsize=700, alt_maxreorg=5, alt_fd=4),
    dict(alt_ki=5, alt_settle=10, vbk_oldwin=12000, alt_maxsize=1300, alt_maxatv=3),
]


def run(ctx):
    if os.path.exists(os.path.join(vlib.VERIF, "coq", "Properties_C12.v")):
        ctx.prove()
    okr, hr, rlog = vlib.build_harness(["h_mempool"], "rel")
    if not okr:
        ctx.broken.append("harness-build(rel): " + rlog[-400:])
        return
    rel = hr["h_mempool"]
    okc, hc, clog = vlib.build_harness(["h_count"], "rel")
    okg, gen_model, glog = vlib.build_model("Gen")
    if not okc:
        ctx.broken.append("harness-build(h_count): " + clog[-400:])
    if not okg:
        ctx.broken.append("model-build(Gen): " + glog[-400:])
    if ctx.replay and ctx.replay.get("harness") == "h_count":
        if okc and okg:
            G.replay_count(ctx, hc["h_count"], gen_model)
        return
    runner = B.two_step(rel, None, ctx.work)
    if ctx.replay and ctx.replay.get("stage") == "gen-model":
        if okg:
            G.replay_gen(ctx, rel, gen_model)
        return
    if ctx.replay and ctx.replay.get("harness") == "h_mempool":
        B.replay(ctx, runner, "rel")
        return
    nc = B.run_corpus(ctx, "C12", runner, "rel")
    if okc and okg:
        G.count_stage(ctx, hc["h_count"], gen_model)
    if ctx.tier == "quick":
        n_hist, n_steps, budget = 36, 60, 90
    else:
        n_hist, n_steps, budget = 400, 100, 1500
    tracebase = os.path.join(ctx.work, "gentrace")
    os.environ["VERIF_GEN_TRACE"] = tracebase      # every gen of the histories leaves its selection trace there
    try:
        tot, scripts = B.histories(ctx, "C12", rel, n_hist, n_steps, M.C12History, CFGS, budget, None, runner)
    finally:
        os.environ.pop("VERIF_GEN_TRACE", None)
    ctx.cov["evaluations"] = tot["lines"] + nc
    ctx.cov["distinct_nontrivial"] = tot["gens"]
    ctx.cov["rule"] = ("non-trivial = generatePopData calls checked by the full oracle (limits, stateless check, not on "
                       "chain, trees identical, next block with exactly the result connects and activates); "
                       "applied = calls followed by the real next block on the same instance")
    ctx.cov["mempool_histories"] = tot
    ctx.cov["traces_validated_against_impl"] = tot["applied"]
    ctx.cov["disagreements_checked"] = tot["gens"] + ctx.cov.get("count_cases_compared", 0)
    ctx.sample({"histories": tot["histories"], "gens": tot["gens"], "applied": tot["applied"], "stats": tot["stats"]})
    if okg:
        G.gen_stage(ctx, gen_model, sorted(glob.glob(tracebase + ".*")), scripts)
