"""C07 — block trees stay structurally consistent after every operation."""
import os
import vlib
from props import _tree

LEVEL = "proof"
HARNESSES = [("h_tree", "rel")]
ASSUMPTIONS = [
    "the SP (VBK/BTC) trees of an instance are modified only through its ALT tree (documented precondition of the refcount invariant)",
    "histories are honest (props/_world.py History): header/body in arbitrary order, setState, comparePopScore, "
    "invalidate/revalidate (BLOCK_FAILED_BLOCK), removeSubtree, removePayloads, interleaved with mempool activity "
    "(MemPool::submit of ATVs/VTBs/VBK blocks that are in no block and endorse arbitrary blocks - many fail on the current "
    "tip -, generatePopData, removeAll, cleanUp); calls outside a documented precondition are answered SKIP by the harness "
    "(harness/world.hpp guards)",
    "no finalization in the generated histories (it runs only on a loaded tree); T1 is weakened to set inclusion once a "
    "non-root block is finalized",
]
META = {
    "text": "Coq theorems on coq/Tree/TreeDefs.v (ALT tree with empty payloads, PoW tree): Inv_flags (proper tree, heights follow "
            "parents, failed parent => FAILED_CHILD hence every descendant of a failed block is failed, live blocks >= VALID_TREE) "
            "and a non-failed best-chain tip hold initially and are preserved by EVERY operation of both trees (hdr/body/set/inv/"
            "reval/rm/rmpl), lifted over op lists; hence the best chain runs through non-failed blocks only. Inv_tree = Inv_flags "
            "+ S3 (a removed block is at VALID_UNKNOWN without ACTIVE/HAS_PAYLOADS and has only removed children) + the tips "
            "conjunct (tips = usable blocks without usable child) + level(block) <= level(parent) (connected => ancestors "
            "connected) is ONE invariant Inv_all preserved by EVERY operation of both trees (no _partial). ACTIVE <=> on the best "
            "chain and appliedBlockCount = |chain| (invariants C1, C2 of the checker) are proved on the as-coded POP state machine "
            "coq/Pop/SmDefs.v (applyBlock/unapplyBlock, the unapply/apply/rollback loops of PopStateMachine::setState, overrideTip, "
            "comparePopScore) for EVERY state reachable by any history of connectBlock / setState / comparePopScore with any scorer, "
            "failing and rolled-back walks included: a block is flagged applied iff it is on the chain root..tip - nothing off the "
            "chain stays applied (C07_active_iff_on_chain, C07_off_chain_not_applied), appliedBlockCount = |chain| = number of "
            "ACTIVE blocks (C07_applied_count_exact, C07_applied_set_is_chain), the chain is exactly the parent path root..tip "
            "(C07_chain_is_parent_path, C07_parent_path_unique), with a reachable forked state as witness (C07_active_nonvacuous). "
            "Not proved: the same two facts across invalidate/revalidate/removeSubtree/removePayloads/finalization, which the POP "
            "machine model does not have; invariants C1, C2 of the checker decide them on the implementation. The full "
            "invariant list of harness/invariants.hpp (S1-S3 V1-V3 F1 T1 C1 C2 P1 P2 R1; ALT, VBK and BTC trees) is evaluated on the "
            "implementation after EVERY step of general honest histories with payloads and mempool activity and of the ALT/PoW model histories, which are "
            "also compared with the model per step",
    "note": "Trusted: Coq kernel, extraction, OCaml driver, C++ harness and invariant checker (public getters only). F1 is one-"
            "directional: removeSubtree keeps FAILED_CHILD of descendants of a block whose FAILED_POP it drops (stale flag)",
    "technique": "Coq proof (invariant preserved by every step) + invariant checker after every step + differential correspondence",
}


def run(ctx):
    ctx.prove()
    okm, model, mlog = vlib.build_model("Tree")
    okh, hs, hlog = vlib.build_harness(["h_tree"])
    if not okm:
        ctx.broken.append("model-build: " + mlog[-300:])
    if not okh:
        ctx.broken.append("harness-build: " + hlog[-300:])
    if not (okm and okh):
        return
    harness = hs["h_tree"]
    quick = ctx.tier == "quick"
    if ctx.replay and "script" in ctx.replay:
        sc = _tree.Script()
        for l in ctx.replay["script"]:
            sc.add(l)
        sc.cases.append((0, len(sc.lines) - 1, "replay"))
        res = _tree.correspondence(ctx, model, harness, sc, "C07")
        return
    # 1. model histories (ALT with empty payloads, PoW): per-step comparison + invariant checker after every step
    sc = _tree.Script()
    stats = {}
    _tree.add_corpus("C07", sc)
    for i in range(40 if quick else 400):
        _tree.random_history("T" if i % 2 == 0 else "P", ctx.rng.fork(), 60 if quick else 150, 16, sc, stats)
    res = _tree.correspondence(ctx, model, harness, sc, "C07")
    ctx.cov["tree"].update(stats)
    # 2. general honest histories with payloads: the invariant checker after every step, ONE harness process
    hists = _tree.world_histories(ctx, 70 if quick else 500, 50 if quick else 90)
    lines = []
    bounds = []
    ops = {}
    for (ls, o) in hists:
        a = len(lines)
        lines += ls
        bounds.append((a, len(lines) - 1))
        for k, v in o.items():
            ops[k] = ops.get(k, 0) + v
    inp = os.path.join(ctx.work, "world.txt")
    with open(inp, "w") as f:
        for i, l in enumerate(lines):
            f.write("w%d %s\n" % (i + 1, l))
    rc, out, orc, err = vlib.run_lines([harness], inp, timeout=3000)
    steps = sum(1 for l in lines if l.startswith("on "))
    skipped = sum(1 for i, l in enumerate(lines) if l.startswith("on ") and out.get("w%d" % (i + 1), "").startswith("SKIP"))
    ctx.cov["evaluations"] += steps
    ctx.cov["world"] = {"histories": len(hists), "steps": steps, "skipped_by_precondition": skipped, "ops": ops,
                        "script_lines": len(lines)}
    ctx.cov["distinct_nontrivial"] = len(set(sc.lines)) + len(set(lines))
    ctx.cov["rule"] = "distinct script lines of the model histories + of the general histories (ids are history-local)"
    ctx.cov["invariants"] = "S1 S2 S3 V1 V2 V3 F1 T1 C1 C2 P1 P2 R1 (harness/invariants.hpp)"
    for l in lines[5:8]:
        ctx.sample({"line": l})
    if rc != 0:
        last = max([int(k[1:]) for k in out if k.startswith("w")] or [0])
        a, b = next(((a, b) for (a, b) in bounds if a <= last <= b), (0, len(lines) - 1))
        ctx.violation({"kind": "ops", "script": lines[a:min(last + 1, b) + 1],
                       "what": "C07: harness process died (rc=%d) after line %d: %s" % (rc, last, err[-400:])})
        return
    seen = set()
    for (i, text) in orc:
        idx = int(i[1:]) - 1
        a, b = next(((a, b) for (a, b) in bounds if a <= idx <= b), (0, len(lines) - 1))
        code = " ".join(text.split(" ")[0:4])
        if (a, code) in seen:
            continue
        seen.add((a, code))
        ctx.violation({"kind": "ops", "script": lines[a:idx + 1], "oracle": text,
                       "what": "C07: invariant violated on the implementation after this history"})
        if len(seen) >= 3:
            break
    if not orc:
        ctx.cov["traces_validated_against_impl"] += steps
