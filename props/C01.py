"""C01 — POP state and verdicts depend only on the active chain, not on history.

Direct oracle (model independent): after a random history (headers/bodies in random order, forks,
setState, comparePopScore, invalidate+revalidate, removeSubtree, removePayloads) on instance A a fresh
instance B is shown only A's active chain (`twin`); the history-independent projection of the ALT/VBK/BTC
views (`obs pop`: blocks, reference counts, endorsements on containing/endorsed/block-of-proof blocks,
payload ids of the active chain, best chains), the POP payouts and, for several candidates shown to both,
the comparePopScore verdict and the state after it must be equal.  SP chains of the quick generator are
linear, so the SP best chain is determined by the chain alone (the property's carve-out never applies).
Correspondence: honest op lists through the extracted model (Pop/SmDefs.v), state compared after every call.
"""
import vlib
from props import _sm

LEVEL = "proof"
HARNESSES = [("h_sm", "rel")]
ASSUMPTIONS = [
    "calls are made within the documented preconditions (target connected, no switch below a finalized block); "
    "the harness answers SKIP otherwise",
    "security-providing chains of the generated histories are linear (no VBK/BTC forks) so that the SP best chain "
    "is determined by the delivered blocks alone",
]
META = dict(_sm.META_C01)
META["text"] = META["text"] + (
    " Added by composition with the reward (C14) and score (C03) models over explicit adapters (payout info, SP best "
    "chain as a function of the reference counts, keystone interval, timestamps): C01_payouts_history_independent / "
    "C01_payouts_fresh_instance (calculator input and getPopPayout equal for equal active chains), "
    "C01_candidate_validation_history_independent, C01_score_input_history_independent, C01_revalidation_replay and "
    "C01_verdict_history_independent / C01_verdict_fresh_instance (the comparePopScore verdict of the POP machine run with "
    "the Score model's scorer is equal for equal active chains against a candidate with the same chain and no cached "
    "failed mark), C01_verdict_without_clean_premise_refuted (the listed cached-invalid finding reproduced on the model); "
    "finalization short-cuts and the real SP trees below the adapters remain covered by the twin oracle only.")


def run(ctx):
    _sm.run_check(ctx, "C01")
