"""C01 — POP state and verdicts depend only on the active chain, not on history.

Direct oracle (model independent): after a random history (headers/bodies in random order, forks,
setState, comparePopScore, invalidate+revalidate, removeSubtree, removePayloads) on instance A a fresh
instance B is shown only A's active chain (`twin`); the history-independent projection of the ALT/VBK/BTC
views (`obs pop`: blocks, reference counts, endorsements on containing/endorsed/block-of-proof blocks,
payload ids of the active chain, best chains), the POP payouts and, for several candidates shown to both,
the comparePopScore verdict and the state after it must be equal.  SP chains of the quick generator are
linear, so the SP best chain is determined by the chain alone (the property's carve-out never applies).
Correspondence: honest op lists through the extracted model (Pop/SmDefs.v), state compared after every call.
"""
import vlib
from props import _sm

LEVEL = "proof"
HARNESSES = [("h_sm", "rel")]
ASSUMPTIONS = [
    "calls are made within the documented preconditions (target connected, no switch below a finalized block); "
    "the harness answers SKIP otherwise",
    "security-providing chains of the generated histories are linear (no VBK/BTC forks) so that the SP best chain "
    "is determined by the delivered blocks alone",
]
META = _sm.META_C01


def run(ctx):
    _sm.run_check(ctx, "C01")
