"""C03 end-to-end stream: pairs of fully valid competing ALT branches with ATV
endorsements on real trees (harness/h_score_e2e.cpp = the shared World session
of harness/world.hpp plus the `duel` oracle op), and the abstract publication
view of every chain computed from the registry-level description only.

One pair = one World session:
    trunk a1..aT (fork point = aT), branch A (LA blocks), branch B (LB blocks);
    ATVs endorse blocks of either branch (keystones and non-keystones, inside and
    outside every keystone's window [k, min(k+ki+1, tip)]), are contained in a later
    block of the same branch within the settlement interval, and have their VBK block
    of proof at a controlled VBK height - on the VBK main chain, or on a losing VBK
    fork (known to the instance through the context, never on its best chain).
    Instance A: A active (`set tipA`), then `cmp tipB`.   Instance S: roles swapped.

The expected verdict is computed by the extracted Coq model:
    view of chain X  = per keystone k in (fork, tipX]: min VBK height of the blocks of
                       proof ON THE BEST VBK CHAIN of ATVs that endorse a block of X with
                       height in [k, min(k+ki+1, tipX)] (getProtoKeystoneContext /
                       getKeystoneContext), or "none" -> the real ReducedPublicationView
    core             = impl (as coded) on the two real views; spec (inf reading) gives the
                       proved sign
    verdict          = outer_cmp (short-cuts of the outer comparePopScore) around the core
"""
from props._world import WorldGen

MAXI = 2 ** 31 - 1
XLOG = []    # (id, op, args, answer) of every line run_pairs fed to the extracted model (sampled by the in-Coq cross-check)
BASE_TIME = 1700000000    # world.hpp: the registry's mocked clock starts here and ticks once per mining operation
TABLE = [100, 100, 95, 89, 80, 69, 56, 40, 21]    # AltChainParams default (checked against Gen/ScoreParams.v by C03.py)


def hx(v):
    return ("-%x" % -v) if v < 0 else "%x" % v


class Pair:
    """description of one generated pair, everything needed for prediction and replay"""

    def __init__(self):
        self.cfg = {}
        self.script = []       # World lines without ids
        self.expect = []
        self.fork = self.tipA = self.tipB = None
        self.fork_h = self.hA = self.hB = 0
        self.viewA = self.viewB = None
        self.kind = "duel"
        self.ktx = []          # (key, ta, chain timestamps, keystone time, block-of-proof heights, expected) per keystone
        self.marks = {}        # name -> line index of the interesting answers
        self.stats = {}


def gen_pair(rng, kind="duel", fixed=None):
    """fixed = {cfg, T, lens, plan: [(branch, endorsed height, containing height, target VBK height, losing)]}
    builds exactly that scenario (corpus witnesses); otherwise everything is drawn from rng"""
    r = rng
    ki = r.choice([2, 2, 3, 3, 4])
    fd = r.choice([2, 3, 4, 5])
    settle = r.choice([4, 5, 6, 8])
    cfg = {"alt_ki": ki, "alt_fd": fd, "alt_settle": settle, "payout_delay": settle, "payout_avg": 2}
    if kind == "final":
        # documented precondition of the configuration: maxReorgBlocks > endorsement settlement interval
        settle = 4
        cfg.update({"alt_settle": 4, "payout_delay": 4, "alt_maxreorg": r.choice([5, 6]),
                    "alt_preserve": settle + 2 * ki + 2})
    if fixed:
        cfg = dict(fixed["cfg"])
        ki, fd, settle = cfg["alt_ki"], cfg["alt_fd"], cfg["alt_settle"]
    ta = (not fixed) and kind == "duel" and r.chance(1, 2)
    if fixed:
        ta = bool(cfg.get("ta", 0))
    if ta:
        # the SP (VBK) parameters report EnableTimeAdjustment() == true; ALT blocks get explicit timestamps
        # around those of the VBK blocks (BASE_TIME + number of mining operations so far)
        cfg["ta"] = 1
        ts_c, ts_d = r.choice([1, 1, 2, 2, 3]), r.range(0, 12)    # ALT time = BASE_TIME + ts_d + ts_c * (height - fork height)
        if fixed:
            ts_c, ts_d = fixed.get("ts_c", 2), fixed.get("ts_d", 0)
    g = WorldGen(r, cfg)
    vts = {}                   # vbk id -> timestamp (mirror of the miner: max(parent time, mocked clock))
    ticks = [0]

    def new_alt(parent):
        if not ta:
            return g.new_alt(parent)
        aid = "a%d" % g.na
        g.na += 1
        p_ = g.alt[parent]
        h_ = p_["height"] + 1
        g.alt[aid] = dict(parent=parent, height=h_, ctx=[], vtbs=[], atvs=[], kv=set(p_["kv"]), kb=set(p_["kb"]),
                          haspd=False, ts=BASE_TIME + ts_d + ts_c * (h_ - T))
        g.emit("altts %s %s %x" % (aid, parent, g.alt[aid]["ts"]), "ok")
        return aid

    def mine_vbk(parent):
        ticks[0] += 1
        v = g.mine_vbk(parent)
        vts[v] = max(vts.get(parent, 0), BASE_TIME + ticks[0])
        return v

    def make_atv(e, vparent):
        ticks[0] += 1
        t_ = g.make_atv(e, vparent=vparent)
        vts[g.atv[t_]["bop"]] = max(vts.get(vparent, 0), BASE_TIME + ticks[0])
        return t_
    P = Pair()
    P.cfg = cfg
    P.kind = kind
    # ---- ALT blocks ----
    T = r.range(1, 2 * ki + 1) if kind != "final" else r.range(1, ki + 1)
    if fixed:
        T = fixed["T"]
    trunk = []
    cur = "a0"
    for _ in range(T):
        cur = new_alt(cur)
        trunk.append(cur)
    fork = cur
    fh = g.alt[fork]["height"]
    crossings = [r.choice([0, 1, 1, 2, 2, 3, 4]), r.choice([0, 1, 1, 2, 2, 3, 4])]
    if kind == "final":
        crossings[0] = r.choice([2, 3, 4, 4])
    lens = []
    for c in crossings:
        # number of blocks so that exactly c keystone boundaries are crossed
        lo = (fh // ki + c) * ki - fh            # first height with c crossings, relative
        hi = (fh // ki + c + 1) * ki - 1 - fh    # last one
        lo = max(lo, 0)
        lens.append(r.range(lo, hi))
    lens = [max(1, x) for x in lens]
    fin_mode = 1
    if kind == "final":
        # the active chain is long enough to get finalized above the fork point; the candidate is shorter, equal or
        # TALLER (by up to ki+2) than the active tip, and better / equally / worse endorsed
        lens[0] = max(lens[0], cfg["alt_maxreorg"] + r.range(1, 3))
        lens[1] = max(1, lens[0] + r.choice([-3, -1, 0, 0, 1, 1, 2, 2, ki + 1, ki + 2]))
        fin_mode = r.below(4)    # 0: A unendorsed, 1: both endorsed at random, 2: B unendorsed, 3: neither endorsed
    if kind == "short":
        lens[r.below(2)] = 0      # one tip is the fork point itself: successor / part-of-active-chain short-cuts
    if fixed:
        lens = list(fixed["lens"])
    branches = []
    for L in lens:
        b = []
        cur = fork
        for _ in range(L):
            cur = new_alt(cur)
            b.append(cur)
        branches.append(b)
    A, B = branches
    # ---- endorsement plan: (branch index, endorsed block, containing block, target VBK height, on losing fork?) ----
    plan = []
    vh0 = 2
    if fixed:
        for bi, eh, ch, tgt, losing in fixed["plan"]:
            byh = {g.alt[x]["height"]: x for x in trunk + branches[bi]}
            plan.append((bi, byh[eh], byh[ch], tgt, bool(losing)))
    for bi, br in enumerate(branches if not fixed else []):
        if not br:
            continue
        tip_h = g.alt[br[-1]]["height"]
        byh = {g.alt[x]["height"]: x for x in br}
        t = vh0 + r.below(3)
        # keystones of this branch, in order; publication heights follow a random walk aimed at the
        # finality delay and the lookup-table boundaries
        k = (fh // ki + 1) * ki
        while k <= tip_h:
            mode = r.below(10)
            if kind == "final" and (fin_mode == 3 or (fin_mode == 0 and bi == 0) or (fin_mode == 2 and bi == 1)) \
                    and r.chance(4, 5):
                mode = 0                      # a mostly unendorsed chain: for the active one only its finality protects it
            if mode == 0:
                k += ki
                continue                      # unpublished keystone
            n_e = 1 if mode < 7 else 2        # duplicates: the earliest must count
            for j in range(n_e):
                t += r.choice([1, 1, 2, 3, fd - 1, fd, fd, fd + 1, fd + 2, len(TABLE) - 1, len(TABLE), len(TABLE) + 1])
                win_hi = min(k + ki + 1, tip_h)
                # endorsed block: the keystone itself, the upper end of its window (k+ki+1: also in the next
                # keystone's window), or anything in between
                w = r.below(6)
                eh = k if w < 2 else win_hi if w < 4 else r.range(k, win_hi)
                ch_lo, ch_hi = eh + 1, min(tip_h, eh + settle)
                if ch_lo > ch_hi:
                    continue
                plan.append((bi, byh[eh], byh[r.range(ch_lo, ch_hi)], max(1, t + r.choice([0, 0, 0, -2, -fd, 3])),
                             r.chance(1, 7)))
            k += ki
        # noise: endorsements of arbitrary blocks (trunk blocks too: outside every window)
        for _ in range(r.below(3)):
            pool = [x for x in trunk + br]
            e = r.choice(pool)
            eh = g.alt[e]["height"]
            ch_lo, ch_hi = max(eh + 1, fh + 1), min(tip_h, eh + settle)
            if ch_lo > ch_hi:
                continue
            plan.append((bi, e, byh[r.range(ch_lo, ch_hi)], vh0 + r.below(3 * fd + 12), r.chance(1, 7)))
    # ---- mine the blocks of proof in VBK-height order ----
    plan.sort(key=lambda p: p[3])
    main = ["v0"]                 # main VBK chain by height

    def grow(h):
        while len(main) - 1 < h:
            main.append(mine_vbk(main[-1]))
    atvs_of = {}
    nfork = 0
    for bi, e, c, tgt, losing in plan:
        if losing and tgt >= 2:
            # block of proof on a one-block side fork at height tgt; the main chain is (made) longer
            grow(tgt)
            tid = make_atv(e, main[tgt - 1])
            nfork += 1
        else:
            grow(max(tgt - 1, len(main) - 1))
            tid = make_atv(e, main[-1])
            main.append(g.atv[tid]["bop"])
        atvs_of.setdefault(c, []).append(tid)
    grow(len(main) + 1)           # the main chain ends strictly above every fork block
    final_v = main[-1]
    if ta:
        for v in sorted(vts, key=lambda x: int(x[1:])):
            g.emit("vts %s" % v, "%x" % vts[v])      # the mirror of the miner's timestamps is checked, not trusted
    chain_ts = [vts.get(v, 0) for v in main]         # best VBK chain of the instance at comparison time, by height
    # ---- bodies, parents first; the last block of either branch carries the context up to the main VBK tip ----
    for x in trunk:
        g.set_pd(x)
    for br in branches:
        for i, x in enumerate(br):
            g.set_pd(x, atvs=atvs_of.get(x, []), extra_ctx=[final_v] if i == len(br) - 1 else [])
    tipA = A[-1] if A else fork
    tipB = B[-1] if B else fork
    on_main = set(main)

    def view(br):
        if not br:
            return []
        tip_h = g.alt[br[-1]]["height"]
        inbr = set(br)
        out = []
        k = (fh // ki + 1) * ki
        byh = {g.alt[x]["height"]: x for x in br}
        while k <= tip_h:
            best = None
            hs = []
            T = g.alt[byh[k]].get("ts", 0)            # pkc.timestampOfEndorsedBlock = time of the keystone block
            for x in br:
                for tid in g.alt[x]["atvs"]:
                    a = g.atv[tid]
                    if a["endorsed"] not in inbr:
                        continue
                    eh = g.alt[a["endorsed"]]["height"]
                    if not (k <= eh <= min(k + ki + 1, tip_h)):
                        continue
                    if a["bop"] not in on_main:
                        continue
                    h = g.vbk[a["bop"]]["height"]
                    hs.append(h)
                    if ta and not (T < chain_ts[h]):
                        # time adjustment: the first later block of the best chain with a greater timestamp
                        adj = None
                        for j in range(h + 1, len(chain_ts)):
                            if T < chain_ts[j]:
                                adj = j
                                break
                        if adj is None:
                            continue
                        P.stats_adj[0] += 1
                        h = adj
                    best = h if best is None else min(best, h)
            if ta:
                P.ktx.append(["k%d" % len(P.ktx), 1, list(chain_ts), T, sorted(set(hs)), best])
            out.append(best)
            k += ki
        return out
    P.stats_adj = [0]
    P.fork, P.tipA, P.tipB = fork, tipA, tipB
    P.fork_h, P.hA, P.hB = fh, g.alt[tipA]["height"], g.alt[tipB]["height"]
    P.viewA, P.viewB = view(A), view(B)
    P.stats = {"ta": int(ta), "adjusted": P.stats_adj[0], "atvs": len(plan), "losing_fork_bops": nfork, "vbk_blocks": len(g.vbk), "crossA": len(P.viewA),
               "crossB": len(P.viewB), "lenA": len(A), "lenB": len(B), "ki": ki, "fd": fd}
    # ---- the two instances ----
    def mark(name):
        P.marks[name] = len(g.lines) - 1
    g.emit("show A %s" % tipA, "ok")
    g.emit("on A set %s" % tipA)
    mark("setA")
    if kind == "final":
        # the active chain gets finalized below its tip; a candidate forking below the finalized block never wins
        g.emit("on A save", "ok")
        g.emit("on A fin", "ok")
        g.emit("show A %s" % tipB, "ok")
        g.emit("on A cmp %s" % tipB)
        mark("cmpAB")
        g.emit("on A tip")
        mark("tipafter")
    elif kind == "invalid":
        g.emit("show A %s" % tipB, "ok")
        bad = r.choice(B) if B else None
        g.emit("on A inv %s" % bad)
        g.emit("on A cmp %s" % tipB)
        mark("cmpAB")
        g.emit("on A tip")
        mark("tipafter")
    else:
        g.emit("show A %s" % tipB, "ok")
        g.emit("inst S", "ok")
        g.emit("show S %s" % tipB, "ok")
        g.emit("on S set %s" % tipB)
        mark("setB")
        g.emit("show S %s" % tipA, "ok")
        g.emit("duel A S %s %s" % (tipA, tipB))
        mark("duel")
    P.script = list(g.lines)
    P.expect = list(g.expect)
    return P


def slots_real(view):
    return ",".join(hx(MAXI) if h is None else hx(h) for h in view) if view else "-"


def slots_prof(view):
    return ",".join("n" if h is None else hx(h) for h in view) if view else "-"


def model_lines(P, cid):
    """lines for the Score model: core as coded, proved spec sign (inf reading)"""
    fd, ki = P.cfg["alt_fd"], P.cfg["alt_ki"]
    tb = ",".join(hx(x) for x in TABLE)
    out = [
        "%s.core cmp %s %s %s %s %s %s" % (cid, hx(fd), tb, hx(ki), hx(ki), slots_real(P.viewA), slots_real(P.viewB)),
        "%s.spec spec inf %s %s %s %s" % (cid, hx(fd), tb, slots_prof(P.viewA), slots_prof(P.viewB)),
    ]
    # getKeystoneContext as coded (extracted Coq ktx / ktx_spec) must agree with the Python computation of each slot
    for key, ta, chain, T, hs, _ in P.ktx:
        out.append("%s.%s ktx %d %s %s %s" % (cid, key, ta, ",".join(hx(x) for x in chain) or "-", hx(T),
                                              ",".join(hx(h) for h in hs) or "-"))
    return out


def outer_line(P, cid, core):
    """outer_cmp of the model on the facts of this pair (candidate = tipB, fully valid, nothing finalized)"""
    fin = "n"
    if P.kind == "final" and P.hA >= P.cfg["alt_maxreorg"]:
        fin = hx(P.hA - P.cfg["alt_maxreorg"])      # finalizeBlocks(): the block maxReorgBlocks below the tip
    return "%s.outer outer 1 %d %s %s %s %s %d %d 1 %s %s 1" % (
        cid, 1 if P.tipA == P.tipB else 0, hx(P.hA), hx(P.hB), hx(P.fork_h), fin,
        1 if (P.tipB == P.fork and P.tipA != P.tipB) else 0,
        1 if (P.tipA == P.fork and P.tipA != P.tipB) else 0,
        hx(P.cfg["alt_ki"]), hx(core))


# --------------------------------------------------------------------------- running and judging pairs
def pair_to_dict(P):
    return dict(P.__dict__)


def pair_from_dict(d):
    P = Pair()
    P.__dict__.update(d)
    P.marks = {k: int(v) for k, v in P.marks.items()}
    return P


def sgn_hex(res):
    """'ok:<hex>' -> (sign, int) or None"""
    if not res or not res.startswith("ok:"):
        return None
    v = int(res[3:], 16)
    return ((v > 0) - (v < 0), v)


def plan_pairs(rng, n):
    """kinds of the generated pairs: mostly duels, some short-cut / invalid / finalized scenarios"""
    kinds = []
    for i in range(n):
        m = i % 10
        kinds.append("short" if m == 3 else "invalid" if m == 6 else "final" if m in (4, 9) else "duel")
    return [gen_pair(rng.fork(), k) for k in kinds]


def run_pairs(vlib, ctx, model, harness, pairs, tag, chunk=150, workers=4):
    """run every pair on the implementation (several harness processes for large counts) and on the model;
    returns the list of verdict records (one per pair)"""
    import os
    from concurrent.futures import ThreadPoolExecutor
    files = []
    for c0 in range(0, len(pairs), chunk):
        path = os.path.join(ctx.work, "%s-e2e-%d.txt" % (tag, c0))
        with open(path, "w") as f:
            for i in range(c0, min(len(pairs), c0 + chunk)):
                for j, l in enumerate(pairs[i].script):
                    f.write("p%d.%d %s\n" % (i, j, l))
        files.append(path)
    res, orc, errs, crashes = {}, [], [], []

    def one(path):
        return vlib.run_lines([harness], path, timeout=7200)
    with ThreadPoolExecutor(max_workers=min(workers, max(1, len(files)))) as ex:
        for rc, r, o, err in ex.map(one, files):
            res.update(r)
            orc += o
            if rc != 0:
                crashes.append("harness died rc=%d: %s" % (rc, " ".join(err[-400:].split())))
    # model: core as coded + proved spec sign, then the outer short-cuts around the core
    mpath = os.path.join(ctx.work, tag + "-e2e-model.txt")
    with open(mpath, "w") as f:
        for i, P in enumerate(pairs):
            f.write("\n".join(model_lines(P, "p%d" % i)) + "\n")
    _, mres, _, _ = vlib.run_lines([model], mpath)
    opath = os.path.join(ctx.work, tag + "-e2e-outer.txt")
    with open(opath, "w") as f:
        for i, P in enumerate(pairs):
            c = sgn_hex(mres.get("p%d.core" % i))
            if c is not None:
                f.write(outer_line(P, "p%d" % i, c[1]) + "\n")
    _, ores, _, _ = vlib.run_lines([model], opath)
    for path, rs in ((mpath, mres), (opath, ores)):
        for line in open(path):
            t = line.split()
            if len(t) >= 2 and t[0] in rs:
                XLOG.append((t[0], t[1], t[2:], rs[t[0]]))
    orc_by = {}
    for cid, text in orc:
        orc_by.setdefault(int(cid[1:].split(".")[0]), []).append(text)
    out = []
    for i, P in enumerate(pairs):
        def ans(j):
            return res.get("p%d.%d" % (i, j))

        def at(name):
            return ans(P.marks[name]) if name in P.marks else None
        rec = {"i": i, "kind": P.kind, "status": "ok", "why": "", "impl": None, "expected": None}
        out.append(rec)
        if crashes and ans(0) is not None and ans(len(P.script) - 1) is None:
            # the harness process died (assert / crash inside the library) while executing this history
            rec["status"] = "oracle"
            last = max(j for j in range(len(P.script)) if ans(j) is not None)
            rec["why"] = "%s -- while executing line %d `%s` of this history" % (
                crashes[0], last + 1, P.script[last + 1] if last + 1 < len(P.script) else "?")
            rec["expected"] = 0
            continue
        if crashes and ans(0) is None:
            rec["status"], rec["why"] = "skip", "not executed: the harness process died earlier"
            continue
        mism = [(j, P.script[j], e, ans(j)) for j, e in enumerate(P.expect) if e is not None and ans(j) != e]
        if mism:
            rec["status"], rec["why"] = "skip", "registry answered differently from the generator: %r" % (mism[0],)
            continue
        if at("setA") != "true" or ("setB" in P.marks and at("setB") != "true"):
            rec["status"], rec["why"] = "skip", "a generated chain was not accepted: setA=%r setB=%r" % (at("setA"), at("setB"))
            continue
        core = sgn_hex(mres.get("p%d.core" % i))
        spec = mres.get("p%d.spec" % i)
        outer = ores.get("p%d.outer" % i)
        if core is None or spec is None or outer is None:
            rec["status"], rec["why"] = "skip", "model undefined on this pair: %r %r %r" % (mres.get("p%d.core" % i), spec, outer)
            continue
        if str(core[0]) != spec:
            rec["status"], rec["why"] = "model", "extracted impl sign %d differs from extracted spec sign %s" % (core[0], spec)
            continue
        kbad = [(k[0], k[5], mres.get("p%d.%s" % (i, k[0]))) for k in P.ktx
                if mres.get("p%d.%s" % (i, k[0])) != "%s %s" % ((("n" if k[5] is None else hx(k[5])),) * 2)]
        if kbad:
            rec["status"], rec["why"] = "model", "publication slot computed by props/_score.py differs from the extracted ktx: %r" % (kbad[0],)
            continue
        ov = int(outer, 16)
        exp = (ov > 0) - (ov < 0)
        rec["expected"] = exp
        rec["core"] = core[1]
        if i in orc_by:
            rec["status"], rec["why"] = "oracle", "; ".join(orc_by[i])
        if P.kind in ("duel", "short"):
            d = (at("duel") or "").split()
            rec["impl"] = at("duel")
            if len(d) != 2 or d[0] not in ("-1", "0", "1"):
                if rec["status"] == "ok":
                    rec["status"], rec["why"] = "skip", "duel answered %r" % at("duel")
                continue
            if int(d[0]) != exp and rec["status"] == "ok":
                rec["status"] = "sign"
                rec["why"] = ("comparePopScore(A active, B candidate) = %s but the protocol scorer on the publication views "
                              "A=%r B=%r gives sign %d (core %d)" % (d[0], P.viewA, P.viewB, exp, core[1]))
        elif P.kind == "invalid":
            rec["impl"] = "%s tip=%s" % (at("cmpAB"), at("tipafter"))
            rec["expected"] = 1
            if (at("cmpAB") != "1" or at("tipafter") != P.tipA) and rec["status"] == "ok":
                rec["status"] = "sign"
                rec["why"] = "an invalidated candidate was not rejected: cmp=%r active tip afterwards %r" % (at("cmpAB"), at("tipafter"))
        elif P.kind == "final":
            mr = P.cfg["alt_maxreorg"]
            F = P.hA - mr if P.hA >= mr else None
            below = F is not None and P.fork_h < F
            rec["impl"] = "%s tip=%s" % (at("cmpAB"), at("tipafter"))
            rec["below_final"] = below
            rec["taller"] = P.hB > P.hA
            got = at("cmpAB")
            if got not in ("-1", "0", "1"):
                if rec["status"] == "ok":
                    rec["status"], rec["why"] = "skip", "cmp answered %r" % got
            elif (int(got) != exp or (below and at("tipafter") != P.tipA)) and rec["status"] == "ok":
                rec["status"] = "sign"
                rec["why"] = ("active tip at height %d, finalized block at height %r, candidate forks at height %d and has "
                              "height %d: comparePopScore = %s (active tip afterwards %r) but the short-cuts as coded + protocol "
                              "scorer give sign %d (views A=%r B=%r)"
                              % (P.hA, F, P.fork_h, P.hB, got, at("tipafter"), exp, P.viewA, P.viewB))
    return out, errs
