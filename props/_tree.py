"""Generators and the correspondence runner shared by C07 and C08 (harness/h_tree.cpp, ocaml/Tree_driver.ml).

Script lines (without the case id):
  begin k=v..                      new World session (ALT instance A)
  T hdr n p | T body n | T set n | T inv n b|p | T reval n b|p | T rm n | T rmpl n       ALT tree, empty PopData
  P begin | P hdr n p | P inv n b|p | P reval n b|p | P rm n                             standalone BTC PoW tree
  any World line (see harness/world.hpp)                                                  general histories (C07 oracle)
"""
import os
import vlib
from props import _world

REASONS = ("b", "p")


# ---------------------------------------------------------------- tree shapes
def canon(parents):
    """canonical form of the rooted tree given by parents[i] < i (parents[0] = None)"""
    n = len(parents)
    kids = [[] for _ in range(n)]
    for i in range(1, n):
        kids[parents[i]].append(i)

    def enc(v):
        return "(" + "".join(sorted(enc(c) for c in kids[v])) + ")"
    return enc(0)


def all_shapes(n):
    """one parent vector per unlabelled rooted tree with n nodes (node 0 = root)"""
    seen = {}

    def rec(p):
        if len(p) == n:
            c = canon(p)
            if c not in seen:
                seen[c] = list(p)
            return
        for q in range(len(p)):
            rec(p + [q])
    rec([None])
    return list(seen.values())


def depth(parents, i):
    d = 0
    while parents[i] is not None:
        i = parents[i]
        d += 1
    return d


# ---------------------------------------------------------------- script builders
class Script:
    def __init__(self):
        self.lines = []
        self.cases = []          # (first line index, last line index, description)

    def add(self, l):
        self.lines.append(l)

    def numbered(self):
        return ["s%d %s" % (i + 1, l) for i, l in enumerate(self.lines)]


def exhaustive(kind, nmax, seqlen, sc, stats):
    """every tree shape with <= nmax blocks x every sequence of `seqlen` inv/reval ops over (block, reason);
    after each sequence every invalidation is revalidated again (which must restore the base state)."""
    for n in range(2, nmax + 1):
        for parents in all_shapes(n):
            start = len(sc.lines)
            if kind == "T":
                sc.add("begin")
                for i in range(1, n):
                    sc.add("T hdr %d %d" % (i, parents[i]))
                for i in range(1, n):
                    sc.add("T body %d" % i)
                leaf = max(range(n), key=lambda i: (depth(parents, i), -i))
                sc.add("T set %d" % leaf)
            else:
                sc.add("P begin")
                for i in range(1, n):
                    sc.add("P hdr %d %d" % (i, parents[i]))
                leaf = None
            opts = [(o, b, r) for o in ("inv", "reval") for b in range(1, n) for r in REASONS]

            def rec(prefix):
                if len(prefix) == seqlen:
                    for (o, b, r) in prefix:
                        sc.add("%s %s %d %s" % (kind, o, b, r))
                    for (b, r) in sorted({(b, r) for (o, b, r) in prefix if o == "inv"}):
                        sc.add("%s reval %d %s" % (kind, b, r))
                    if leaf is not None:
                        sc.add("T set %d" % leaf)
                    stats["sequences"] = stats.get("sequences", 0) + 1
                    return
                for o in opts:
                    rec(prefix + [o])
            rec([])
            stats["shapes"] = stats.get("shapes", 0) + 1
            sc.cases.append((start, len(sc.lines) - 1, "exhaustive %s n=%d parents=%s" % (kind, n, parents[1:])))


def random_history(kind, rng, steps, maxblocks, sc, stats):
    start = len(sc.lines)
    sc.add("begin" if kind == "T" else "P begin")
    parents = {0: None}
    removed = set()
    hist = stats.setdefault("ops", {})

    def emit(op, *a):
        sc.add("%s %s %s" % (kind, op, " ".join(str(x) for x in a)))
        hist[kind + " " + op] = hist.get(kind + " " + op, 0) + 1

    def subtree(b):
        out = []
        for x in parents:
            y = x
            while y is not None:
                if y == b:
                    out.append(x)
                    break
                y = parents[y]
        return out
    nobody = []
    for _ in range(steps):
        ids = sorted(parents)
        k = rng.below(100)
        if k < 24 and len(parents) < maxblocks:
            cand = ids if rng.chance(1, 3) else ids[-3:]
            p = rng.choice(cand)
            n = len(parents)
            parents[n] = p
            emit("hdr", n, p)
            if kind == "T":
                nobody.append(n)
                if rng.chance(2, 3):
                    # deliver outstanding bodies in random order
                    rng.shuffle(nobody)
                    while nobody and rng.chance(3, 4):
                        emit("body", nobody.pop())
        elif k < 34 and kind == "T":
            x = rng.choice(ids)
            emit("body", x)
            if x in nobody:
                nobody.remove(x)
        elif k < 46 and kind == "T":
            emit("set", rng.choice(ids))
        elif k < 66:
            x = rng.choice(ids)
            r = "b" if rng.chance(2, 3) else "p"
            emit("inv", x, r)
            if rng.chance(1, 2):
                if kind == "T" and rng.chance(1, 2):
                    emit("set", rng.choice(ids))
                emit("reval", x, r)
        elif k < 80:
            emit("reval", rng.choice(ids), rng.choice(REASONS))
        elif k < 86:
            x = rng.choice(ids)
            emit("rm", x)
            removed |= set(subtree(x))
        elif k < 94 and removed:
            x = rng.choice(sorted(removed))
            emit("hdr", x, parents[x] if parents[x] is not None else 0)
            removed.discard(x)
            if kind == "T" and rng.chance(1, 2):
                emit("body", x)
        elif kind == "T":
            x = rng.choice(ids)
            emit("rmpl", x)
            nobody.append(x)
        else:
            x = rng.choice(ids)
            emit("hdr", x, parents[x] if parents[x] is not None else 0)      # duplicate header
    sc.cases.append((start, len(sc.lines) - 1, "random %s" % kind))


# ---------------------------------------------------------------- running
def canon_model(t):
    if t.startswith("ABORT"):
        return "SKIP" + t[5:]
    return t


def canon_impl(t):
    p = t.find(" ; ord")
    return t[:p] if p >= 0 else t


def run_pair(ctx, model, harness, lines, tag="s"):
    """run the harness, hand the observed tips_ iteration order to the model, run the model.
    Returns dict(ids, impl, mod, oracle, rc_i, rc_m, err)."""
    inp = os.path.join(ctx.work, "%s-impl.txt" % tag)
    with open(inp, "w") as f:
        f.write("\n".join(lines) + "\n")
    rc_i, ires, orc, ierr = vlib.run_lines([harness], inp, timeout=3000)
    mlines = []
    for l in lines:
        i, _, rest = l.partition(" ")
        if rest.startswith("P ") and not rest.startswith("P begin") and not rest.startswith("P hdr"):
            t = ires.get(i, "")
            p = t.find(" ; ord")
            if p >= 0:
                rest += " ord" + t[p + 6:]
        mlines.append(i + " " + rest)
    minp = os.path.join(ctx.work, "%s-model.txt" % tag)
    with open(minp, "w") as f:
        f.write("\n".join(mlines) + "\n")
    rc_m, mres, _, merr = vlib.run_lines([model], minp, timeout=3000)
    return dict(impl=ires, mod=mres, oracle=orc, rc_i=rc_i, rc_m=rc_m, err=(ierr + merr)[-600:])


def is_step(line):
    rest = line.partition(" ")[2]
    return rest.startswith("T ") or rest.startswith("P ")


def first_disagreement(lines, res):
    for l in lines:
        if not is_step(l):
            continue
        i = l.partition(" ")[0]
        a = res["mod"].get(i)
        b = res["impl"].get(i)
        if a is None or b is None or canon_model(a) != canon_impl(b):
            return i
    return None


def case_of(sc, idx):
    for (a, b, d) in sc.cases:
        if a <= idx <= b:
            return a, b, d
    return 0, len(sc.lines) - 1, "?"


def minimise(ctx, model, harness, lines, pred, budget=40):
    """greedy one-line-at-a-time removal (from the end) keeping `pred(lines)` true; lines without ids"""
    cur = list(lines)
    i = len(cur) - 2
    while i > 0 and budget > 0:
        cand = cur[:i] + cur[i + 1:]
        budget -= 1
        if pred(cand):
            cur = cand
        i -= 1
    return cur


def correspondence(ctx, model, harness, sc, what):
    """model vs implementation on every T/P step + the direct oracles printed by the harness.
    Implements the outcome logic of INFRA.md."""
    lines = sc.numbered()
    res = run_pair(ctx, model, harness, lines)
    steps = [l for l in lines if is_step(l)]
    ctx.cov["evaluations"] += len(steps)
    ctx.cov["disagreements_checked"] += len(steps)
    aborts = sum(1 for l in steps if res["mod"].get(l.partition(" ")[0], "").startswith("ABORT"))
    skips = sum(1 for l in steps if res["mod"].get(l.partition(" ")[0], "").startswith("SKIP"))
    ctx.cov.setdefault("tree", {})
    ctx.cov["tree"]["model_abort_outcomes"] = ctx.cov["tree"].get("model_abort_outcomes", 0) + aborts
    ctx.cov["tree"]["model_skip_outcomes"] = ctx.cov["tree"].get("model_skip_outcomes", 0) + skips
    if res["rc_i"] != 0 or res["rc_m"] != 0:
        # the harness died (assert in the library) or the model driver failed: name the last answered line
        last = None
        for l in lines:
            if l.partition(" ")[0] in res["impl"]:
                last = l
        idx = lines.index(last) if last in lines else 0
        a, b, d = case_of(sc, min(idx + 1, len(lines) - 1))
        ctx.violation({"kind": "ops", "script": sc.lines[a:min(idx + 2, b + 1)], "what": what +
                       ": harness/model process failed (rc impl=%d model=%d) after %s: %s" %
                       (res["rc_i"], res["rc_m"], last, res["err"][-300:]), "case": d})
        return res
    # direct oracle failures are concrete violations
    seen = set()
    for (i, text) in res["oracle"]:
        idx = int(i[1:]) - 1
        a, b, d = case_of(sc, idx)
        if (a, text.split(" ")[0]) in seen:
            continue
        seen.add((a, text.split(" ")[0]))
        sub = sc.lines[a:idx + 1]

        def pred(ls, text=text):
            r = run_pair(ctx, model, harness, ["s%d %s" % (k + 1, l) for k, l in enumerate(ls)], tag="min")
            return any(t.split(" ")[0:2] == text.split(" ")[0:2] for (_, t) in r["oracle"])
        if len(sub) <= 80:
            sub = minimise(ctx, model, harness, sub, pred)
        ctx.violation({"kind": "ops", "script": sub, "oracle": text, "case": d,
                       "what": what + ": direct oracle failed on the implementation"})
        if len(seen) >= 3:
            break
    bad = first_disagreement(lines, res)
    ctx.cov["traces_validated_against_impl"] += len(steps) if bad is None else 0
    if bad is not None:
        idx = int(bad[1:]) - 1
        a, b, d = case_of(sc, idx)
        sub = sc.lines[a:idx + 1]
        ctx.cov["tree"]["first_disagreement_raw"] = {"script": sub[-30:], "model": res["mod"].get(bad), "impl": res["impl"].get(bad)}

        def pred2(ls):
            nl = ["s%d %s" % (k + 1, l) for k, l in enumerate(ls)]
            r = run_pair(ctx, model, harness, nl, tag="min")
            return r["rc_i"] == 0 and first_disagreement(nl, r) is not None
        # re-run once to exclude flakiness, then minimise
        if pred2(sub):
            if len(sub) <= 80:
                sub = minimise(ctx, model, harness, sub, pred2)
            nl = ["s%d %s" % (k + 1, l) for k, l in enumerate(sub)]
            r = run_pair(ctx, model, harness, nl, tag="min")
            fb = first_disagreement(nl, r)
            obs = {"model": r["mod"].get(fb), "impl": r["impl"].get(fb)} if fb else {}
            if not ctx.violations:
                ctx.broken.append("corr:Tree.TreeDefs.step: model and implementation disagree; first disagreeing history: " +
                                  " | ".join(sub)[:600] + " :: " + str(obs)[:500])
            ctx.cov["tree"]["first_disagreement"] = {"script": sub, "obs": obs, "case": d}
    return res


def mempool_step(g, hi, rng, subv):
    """mempool activity: payloads that are NOT part of any block are submitted (with the VBK context the mempool needs
    to connect them); they endorse arbitrary blocks, so many of them fail on top of the current tip (block of a
    competing fork, stale after a reorg, outside the settlement interval); then generatePopData / removeAll / cleanUp"""
    k = rng.below(100)
    ids = sorted(g.alt, key=lambda a: int(a[1:]))

    def submit_ctx(v):
        for x in g.vpath({"v0"}, v):
            if x not in subv:
                hi.on("sub", x)
                subv.add(x)
    if k < 38:
        cands = [a for a in ids if a != "a0"]
        if cands:
            e = rng.choice(cands[-6:] if rng.chance(1, 2) else cands)
            t = g.make_atv(e, payout=rng.choice(["010203", "aabb"]))
            submit_ctx(g.atv[t]["bop"])
            hi.on("sub", t)
            if rng.chance(1, 2):
                hi.on("gen")
    elif k < 50:
        vs = sorted(g.vbk, key=lambda v: int(v[1:]))
        e = rng.choice(vs[-8:])
        w = g.make_vtb(e, "b0")
        submit_ctx(g.vtb[w]["containing"])
        hi.on("sub", w)
    elif k < 58:
        v = g.mine_vbk()
        submit_ctx(v)
    elif k < 86:
        hi.on("gen")
    elif k < 94:
        hi.on("rmall", rng.choice(ids))
    else:
        hi.on("cleanup")


def world_histories(ctx, n_hist, steps, extra_ops=True):
    """general honest histories with payloads (props/_world.py History) interleaved with mempool activity;
    returns list of (line list, op histogram)"""
    out = []
    for h in range(n_hist):
        rng = ctx.rng.fork()
        cfg = {"alt_ki": rng.choice([2, 3, 5]), "alt_settle": rng.choice([4, 6, 10]), "vbk_ki": rng.choice([3, 5, 20]),
               "alt_fd": rng.choice([3, 5, 100]), "vbk_fd": rng.choice([3, 11])}
        g = _world.WorldGen(rng, cfg)
        hi = _world.History(g)
        subv = set()
        for _ in range(steps):
            hi.step()
            if extra_ops and rng.chance(1, 12):
                hi.on("obs", "full")
            if extra_ops and rng.chance(1, 3):
                mempool_step(g, hi, rng, subv)
        out.append((list(g.lines), dict(hi.ops)))
    return out


def add_corpus(pid, sc):
    """corpus/<pid>/*.txt: minimised past failures / witnesses, always run first"""
    d = os.path.join(vlib.VERIF, "corpus", pid)
    if not os.path.isdir(d):
        return
    for f in sorted(os.listdir(d)):
        if not f.endswith(".txt"):
            continue
        start = len(sc.lines)
        for l in open(os.path.join(d, f)):
            l = l.strip()
            if l and not l.startswith("#"):
                sc.add(l)
        sc.cases.append((start, len(sc.lines) - 1, "corpus " + f))


READD = ["begin", "T hdr 1 0", "T body 1", "T hdr 2 1", "T inv 1 p", "T rm 1", "T hdr 1 0", "T hdr 2 1"]


def known_finding_readd(ctx, harness):
    """the finding excluded from the checked domain (a block re-added while carrying FAILED_POP aborts the next
    child header): reproduced with the guard off ONLY when it is listed in known_findings.txt, so that it is reported
    as KNOWN-FINDING and never as a violation of the unchanged tree"""
    if not any(k == "readd-failed-pop" for (_, k, _) in ctx.findings):
        return
    inp = os.path.join(ctx.work, "readd.txt")
    with open(inp, "w") as f:
        f.write("\n".join("k%d %s" % (i + 1, l) for i, l in enumerate(READD)) + "\n")
    rc, out, orc, err = vlib.run_lines([harness], inp, timeout=300, env={"VERIF_NOGUARD": "1"})
    if rc != 0 or orc:
        ctx.violation({"kind": "ops", "script": READD, "what": "acceptBlockHeader below a block re-added while carrying "
                       "BLOCK_FAILED_POP aborts (raiseValidity assert)", "stderr": err[-300:]}, key="readd-failed-pop")
