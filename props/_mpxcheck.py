"""C13: in-Coq cross-check of the Mempool extraction (generic part: props/_xcheck.py).

What the extracted Mempool model answered in this run is logged by props/_vsm.py (VSM: one `vsm` case per line)
and props/_poolcorr.py (POOL: every line sent to the interactive pool model, with its reply). A sample of the vsm
cases, and ALL steps of a few sampled pool histories, are re-evaluated by vm_compute on the Gallina definitions
(VsmDefs.run, PoolDefs.submit / tryConnect / cleanUp / dropIds / clear); the glue of ocaml/Mempool_driver.ml
(tables, the three pools, the order of a pass, the printed state) is restated in Gallina below.
"""
from props import _xcheck as X

VSM = []      # (case id, case text "vsm <div> <ops..>", answer)
POOL = []     # (history number, line sent to the model, reply)
REQUIRES = "Mempool.VsmDefs Mempool.PoolDefs"
SKIPPED = ["vsm0"]     # run_v0 (the code before the repair) is extracted but no plugin feeds it to the driver

PREAMBLE = """
Open Scope N_scope.
Definition xl (l : list N) : list Z := Z.of_nat (length l) :: map Z.of_N l.
Fixpoint x_insn (k : N) (l : list N) : list N :=
  match l with [] => [k] | x :: r => if k <=? x then k :: l else x :: x_insn k r end.
Definition x_sort (l : list N) : list N := fold_right x_insn [] l.
Definition x_le2 (a b : N * N) : bool := (fst a <? fst b) || ((fst a =? fst b) && (snd a <=? snd b)).
Fixpoint x_ins2 (k : N * N) (l : list (N * N)) : list (N * N) :=
  match l with [] => [k] | x :: r => if x_le2 k x then k :: l else x :: x_ins2 k r end.
Definition x_vsm (r : VsmDefs.outcome) : list Z :=
  match r with
  | VsmDefs.Ok s => [1%Z] ++ xl (vset s) ++ xl (flat_map (fun kv => [fst kv; snd kv]) (fold_right x_ins2 [] (vmap s)))
  | VsmDefs.Abort => [0%Z]
  end.
(* the driver's state: tables (latest definition first), three pools (0 vbk, 1 vtb, 2 atv), the aborted flag *)
Definition xtab := list (N * (N * N * N)).
Definition x_look (t : xtab) (sel : N * N * N -> N) (x : N) : N :=
  match find (fun e => fst e =? x) t with Some e => sel (snd e) | None => 0 end.
Definition x_ht (t : xtab) := x_look t (fun e => fst (fst e)).
Definition x_par (t : xtab) := x_look t (fun e => snd (fst e)).
Definition x_blk (t : xtab) := x_look t (fun e => snd e).
Definition xst := (pool * pool * pool * bool)%type.
Definition x_new : xst := (pempty, pempty, pempty, false).
Definition x_mem (x : N) (l : list N) : bool := existsb (N.eqb x) l.
Definition x_setp (r : res) (old : pool) : pool * bool := match r with POk s => (s, false) | PAbort => (old, true) end.
Definition x_sub (t : xtab) (i : N) (base : list N) (v : verdict) (c : N) (s : xst) : xst :=
  let '(p0, p1, p2, ab) := s in
  let go p := x_setp (submit (x_ht t) (x_par t) (x_blk t) base v c p) p in
  if i =? 0 then let '(q, a) := go p0 in (q, p1, p2, ab || a)
  else if i =? 1 then let '(q, a) := go p1 in (p0, q, p2, ab || a)
  else let '(q, a) := go p2 in (p0, p1, q, ab || a).
Definition x_try (t : xtab) (base0 sv sw sa : list N) (s : xst) : xst :=
  let '(p0, p1, p2, ab) := s in
  let tc := tryConnect (x_ht t) (x_par t) (x_blk t) in
  let before1 := conn p1 in
  let '(q0, a0) := x_setp (tc base0 sv p0) p0 in
  let base1 := base0 ++ map (x_blk t) (conn q0) in
  let '(q1, a1) := x_setp (tc base1 sw p1) p1 in
  let base2 := base1 ++ map (x_blk t) (filter (fun p => negb (x_mem p before1)) (conn q1)) in
  let '(q2, a2) := x_setp (tc base2 sa p2) p2 in
  (q0, q1, q2, ab || a0 || a1 || a2).
Definition x_clean (t : xtab) (gcw gca gfv gfw gfa : list N) (s : xst) : xst :=
  let '(p0, p1, p2, ab) := s in
  let '(q0, a0) := x_setp (cleanUp (x_ht t) [] gfv p0) p0 in
  let '(q1, a1) := x_setp (cleanUp (x_ht t) gcw gfw p1) p1 in
  let '(q2, a2) := x_setp (cleanUp (x_ht t) gca gfa p2) p2 in
  (q0, q1, q2, ab || a0 || a1 || a2).
Definition x_drop (w a : list N) (s : xst) : xst :=
  let '(p0, p1, p2, ab) := s in (p0, dropIds w p1, dropIds a p2, ab).
Definition x_sync (base : list N) (s : xst) : xst :=
  let '(p0, p1, p2, ab) := s in (dropIds (filter (fun x => negb (x_mem x base)) (conn p0)) p0, p1, p2, ab).
Definition x_vanished (t : xtab) (base : list N) (s : xst) : list Z :=
  let '(p0, p1, p2, ab) := s in
  let van (p : pool) := filter (fun x => negb (x_mem (x_blk t x) base)) (conn p) in xl (van p1 ++ van p2).
Definition x_clear (s : xst) : xst :=
  let '(p0, p1, p2, ab) := s in
  let '(q0, a0) := x_setp (PoolDefs.clear p0) p0 in
  let '(q1, a1) := x_setp (PoolDefs.clear p1) p1 in
  let '(q2, a2) := x_setp (PoolDefs.clear p2) p2 in
  (q0, q1, q2, ab || a0 || a1 || a2).
Definition x_show (s : xst) : list Z :=
  let '(p0, p1, p2, ab) := s in
  if ab then [0%Z]
  else [1%Z] ++ xl (x_sort (conn p2)) ++ xl (x_sort (conn p1)) ++ xl (vset (infl p2)) ++ xl (vset (infl p1)) ++ xl (vset (infl p0)).
"""


def nl(vs):
    vs = list(vs)
    return "(@nil N)" if not vs else "[" + "; ".join("%d%%N" % int(v) for v in vs) + "]"


def xl(vs):
    vs = [int(v) for v in vs]
    return [len(vs)] + vs


def ints(s):
    return [int(x) for x in s.split(",") if x]


def arg(name, toks):
    """as `arg` of the driver: the first token `<name>=..`, else empty"""
    for t in toks:
        if t.startswith(name + "="):
            return ints(t[len(name) + 1:])
    return []


# ---------------------------------------------------------------- vsm cases
def vsm_item(cid, case, ans):
    t = case.split()
    if t[0] != "vsm":
        return None
    ops = []
    for o in t[2:]:
        if o == "c":
            ops.append("VsmDefs.Clear")
        elif o[0] == "e":
            ops.append("VsmDefs.Erase %d" % max(0, int(o[1:])))
        else:
            k, v = o[1:].split(":")
            ops.append("VsmDefs.Insert %d %d" % (max(0, int(k)), max(0, int(v))))
    term = "x_vsm (VsmDefs.run (fun v : N => (v / %d)%%N) VsmDefs.empty %s)" % (int(t[1]), "[" + "; ".join(ops) + "]" if ops else "(@nil VsmDefs.op)")
    if ans == "ABORT":
        return cid + " " + case[:160], term, [0]
    d = dict(x.split("=", 1) for x in ans.split(" "))
    m = []
    for kv in d["map"].split(","):
        if kv:
            m += [int(x) for x in kv.split(":")]
    return cid + " " + case[:160], term, [1] + xl(ints(d["set"])) + xl(m)


# ---------------------------------------------------------------- pool histories
def pool_expected(reply):
    if reply == "ABORT":
        return [0]
    sec, d = "", {}
    for p in reply.split(" "):
        if p in ("C", "F"):
            sec = p
        elif "=" in p:
            k, v = p.split("=", 1)
            d[sec + k] = ints(v)
    return [1] + xl(d["Catv"]) + xl(d["Cvtb"]) + xl(d["Fatv"]) + xl(d["Fvtb"]) + xl(d["Fvbk"])


def pool_history(hid, steps):
    """definitions (each state evaluated once, `Eval vm_compute`) + one item per answered step of the history"""
    defs, items = [], []
    tab, st = "h%d_t0" % hid, "h%d_s0" % hid
    defs.append("Definition %s : xtab := []." % tab)
    defs.append("Definition %s : xst := x_new." % st)
    k = 0
    for line, reply in steps:
        t = line.split(" ")
        op, a = t[0], t[1:]
        k += 1
        new = "h%d_s%d" % (hid, k)
        if op == "pdef":
            ntab = "h%d_t%d" % (hid, k)
            defs.append("Definition %s : xtab := (%d, (%d, %d, %d)) :: %s." % (ntab, int(a[0]), int(a[1]), int(a[2]), int(a[3]), tab))
            tab = ntab
            continue
        if op == "pnew":
            step = "x_new"
        elif op == "psub":
            vd = {"S": "Stateless", "T": "Stale"}.get(a[2], "Fine")
            step = "x_sub %s %d %s %s %d %s" % (tab, int(a[0]), nl(arg("base", a[3:])), vd, int(a[1]), st)
        elif op == "ptry":
            step = "x_try %s %s %s %s %s %s" % (tab, nl(arg("base", a)), nl(arg("sv", a)), nl(arg("sw", a)), nl(arg("sa", a)), st)
        elif op == "pclean":
            step = "x_clean %s %s %s %s %s %s %s" % (tab, nl(arg("gcw", a)), nl(arg("gca", a)), nl(arg("gfv", a)),
                                                     nl(arg("gfw", a)), nl(arg("gfa", a)), st)
        elif op == "pdrop":
            step = "x_drop %s %s %s" % (nl(arg("w", a)), nl(arg("a", a)), st)
        elif op == "psync":
            step = "x_sync %s %s" % (nl(arg("base", a)), st)
        elif op == "pclear":
            step = "x_clear %s" % st
        else:
            return None
        defs.append("Definition %s : xst := Eval vm_compute in (%s)." % (new, step))
        st = new
        cid = "pool-history %d step %d: %s" % (hid, k, line[:160])
        if op == "psync":
            items.append((cid, "x_vanished %s %s %s" % (tab, nl(arg("base", a)), st), xl(ints(reply))))
        else:
            items.append((cid, "x_show %s" % st, pool_expected(reply)))
    return defs, items


def run(ctx, want_vsm=120, want_pool=180):
    rng = ctx.rng.fork()
    items, hist, defs = [], {}, []
    for cid, case, ans in X.sample(rng, [v for v in VSM if v[2] is not None], want_vsm,
                                   kind=lambda v: (v[2] == "ABORT", min(len(v[1].split()), 8))):
        it = vsm_item(cid, case, ans)
        if it:
            items.append(it)
            hist["vsm"] = hist.get("vsm", 0) + 1
    # pool: whole histories (the state is only known from the start), in a deterministic random order, until the budget
    byh = {}
    for hid, line, reply in POOL:
        byh.setdefault(hid, []).append((line, reply))
    order = sorted(byh)
    rng.shuffle(order)
    npool = 0
    for hid in order:
        if npool >= want_pool:
            break
        r = pool_history(hid, byh[hid])
        if r is None:
            ctx.broken.append("xcheck:Mempool: no Gallina rendering for a line of pool history %d" % hid)
            continue
        d, its = r
        its = its[:want_pool - npool]        # a prefix of the history: every later state depends on the earlier ones
        defs += d
        items += its
        npool += len(its)
        for cid, _, _ in its:
            op = cid.split(": ", 1)[1].split(" ")[0]
            hist[op] = hist.get(op, 0) + 1
    X.xcheck(ctx, "Mempool", REQUIRES, items, PREAMBLE + "\n".join(defs) + "\nClose Scope N_scope.\n")
    ctx.cov["in_coq_ops"] = dict(sorted(hist.items()))
    ctx.cov["in_coq_skipped_ops"] = list(SKIPPED)
