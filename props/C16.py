"""C16 — parallel stateless validation is schedule-independent and releases its input."""
import json
import os
import re
import vlib
from props._conc import san_summary, SAN_ENV

LEVEL = "proof"
HARNESSES = [("h_validator", "asan"), ("h_validator", "tsan"), ("h_validator", "rel")]
ASSUMPTIONS = [
    "payload checks (checkBlock/checkVTB/checkATV) are pure functions of the payload: a task carries its "
    "precomputed verdict in the model",
    "the MPMC queue, std::packaged_task/std::future and std::thread behave as linearizable FIFO queue / one-shot "
    "promise / thread (modelled, not verified)",
    "memory safety and data-race freedom of the compiled C++ are observed by ASan/UBSan and TSan on real threads "
    "with perturbed schedules, not proved",
]
META = {
    "text": "Theorems (Coq, every schedule = list of step labels, every worker count >= 1, every queue capacity, every "
            "task list, any number of consecutive calls interleaved with stop()/start()): whenever checkPopData has "
            "returned its verdict is the sequential one (first invalid payload in submission order, then the "
            "duplicates check); in every state where main is outside checkPopData no queued/running/unfulfilled task "
            "exists (nothing references the caller's PopData); no VBK_ASSERT fires when calls fit the queue; stop() "
            "outside a call completes without breaking a promise and start() yields a fresh pool; progress is proved "
            "as enabledness only (C16_no_deadlock_partial: no termination measure). C16_released_on_return_v0_refuted "
            "documents the defect repaired in /repo 9e8bd1f5 on the old definition. The model is tied to the code by "
            "running the real PopValidator on real threads (1..16 workers, seeded delays inside the user-supplied "
            "checkBlockHeader, PopData destroyed right after the call, validator stopped/restarted) under ASan+UBSan and "
            "TSan builds of the library: verdict vs sequential checking vs the extracted model, and the observed "
            "(worker, payload) execution trace is replayed on the model (round-robin home queue, steal from the next "
            "worker only, FIFO). The validator model abstracts each worker queue as a bounded FIFO list; "
            "C16_ring_refines_fifo_partial proves that the Vyukov ring buffer as coded (sequence-numbered cells, positions, "
            "index = pos mod size) answers every push/pop sequence exactly like that bounded FIFO across any number of "
            "wrap-arounds (sequential executions only; kept as _partial). For CONCURRENT access the queue is modelled at "
            "step level (Conc/RingSteps.v: load position, load cell sequence, compare, strong or spuriously failing CAS, "
            "data write/move, sequence store, full/empty exits, both retry loops; any number of threads, any programs of "
            "pushes and pops, every schedule): an invariant over cells, counters and in-flight operations is proved "
            "inductive for every step of every thread, and from it C16_ring_linearizable (the successful operations "
            "linearize at their successful CAS to the same bounded FIFO, thread by thread exactly what the threads "
            "return), C16_ring_real_time_order, C16_ring_no_loss_no_dup (pushed = popped ++ contents at every point, "
            "capacity never exceeded), C16_ring_full_answer_justified / C16_ring_empty_answer_justified (a failing "
            "answer means: full/empty at the moment of the sequence load, OR the cell is held by an operation between its "
            "CAS and its sequence store). The second alternative is real: C16_ring_empty_with_inflight_push_example shows "
            "pop answering 'empty' after another thread's push has completely returned (failing answers of this queue are "
            "not linearizable in the strict sense; the pool's worker loop polls, so this only delays a task). "
            "C16_ring_cas_collision_example exhibits two producers colliding on the CAS and one retrying; "
            "C16_ring_obstruction_free: from every reachable state a thread inside a push/pop that runs alone returns within "
            "8 own steps (no self-spinning; lock freedom under contention is not stated). Assumed in that "
            "model, not proved: sequentially consistent atomics (the relaxed/acquire/release orders of the code are "
            "outside the model) and unbounded counters (the 2^64 wrap of size_t needs the power-of-two capacity the "
            "constructor enforces). The sequential ring model is compared with the real MPMCBoundedQueue "
            "template on fill/drain sequences, and long-lived validators with small configured limits (queue capacity "
            "4..16, >= 5 wrap-arounds per worker) are run like every other case. C16_qcap_fits_limits: the capacity the "
            "code derives (upper_power_of_two of maxWorkerQueueSize(), whose sum expression is regenerated from "
            "alt_chain_params.hpp into Gen/ValidatorParams.v) suffices for every PopData within the count limits; PopData "
            "FULL to the limits (VbkBlocks, hand-built VTBs, ATVs) is checked with 1..4 workers and a slow hook. "
            "C16_checked_flags_transparent: with `checked` set only after complete success, re-checking the same "
            "object, a copy, or a fresh deserialisation gives the sequential verdict; every harness round does exactly "
            "that (3x same object, copy, fresh bytes) and planted invalid payloads include valid-tx/wrong-merkle-path "
            "ATVs and VTBs and wrong-merkle-root blocks of proof. Several callers on one validator: "
            "C16_multi_client_verdict (tasks tagged by client, pool abstracted to the bag of posted tasks, all "
            "interleavings): every returned client has the sequential verdict of its own payloads and none throws; "
            "C16_clear_restarts_pool_refuted documents what a pool-restarting clear() would do. The real-thread runs "
            "include a concurrent-callers stage: 2..4 caller threads share one validator, each with its own PopData "
            "(valid / first / middle / last invalid / duplicates), per-caller oracle = one-by-one verdict of its own "
            "PopData, no exception, return within a 300 s watchdog, PopData destroyed right after return.",
    "note": "Honest limit: the theorems cover the scheduling logic of the model for all schedules; data-race freedom and "
            "memory safety of the compiled C++ (thread pool, MPMC queue, futures) are observed by sanitizers, not proved; the step-level "
            "ring theorems assume sequentially consistent atomics. "
            "VTBs are hand-built (no Bitcoin context blocks; the header hook with delays/trace runs for ATVs only). VbkBlocks carry precalculated hashes in "
            "the sanitizer variants (vProgPoW costs ~100 s per epoch under TSan and is slow at -O0 under ASan); the rel "
            "variant computes real hashes on the workers. Trusted: Coq kernel, extraction, OCaml driver, C++ harness, "
            "Python trace-to-schedule conversion.",
    "technique": "Coq proof (invariants over all interleavings) + differential run on real threads under ASan/TSan + "
                 "trace replay on the extracted model",
}



def case_line(c):
    if c.get("raw"):
        return "%s %s" % (c["id"], c["raw"])
    return "%s check %d %d %d %s %d %d %d %d %s" % (c["id"], c["w"], c["seed"], c["delay"], c["spec"] or "-",
                                                    c["dup"], c["stop"], c["rounds"], c.get("realhash", 0),
                                                    c.get("limits", "0"))


def mk_spec(r, nctx, natv, bad_pos, nvtb=0):
    """context blocks, then VTBs, then ATVs; bad_pos: positions (0-based over all) that are invalid.
    Invalid kinds: x (VbkBlock below fork height), u (VTB, valid tx+signature, wrong merkle path), b (ATV rejected
    by the header hook), c (ATV, valid tx+signature, wrong merkle path), e (ATV, wrong merkle root in block of proof)"""
    s = ""
    for i in range(nctx + nvtb + natv):
        if i < nctx:
            s += "x" if i in bad_pos else "v"
        elif i < nctx + nvtb:
            s += "u" if i in bad_pos else "t"
        else:
            s += r.choice("bce") if i in bad_pos else "a"
    return s


def gen_cases(ctx, tier):
    r = ctx.rng
    cases = []

    def add(w, delay, spec, dup=0, stop=0, rounds=1, realhash=0, tag=""):
        cases.append({"id": "k%d" % (len(cases) + 1), "w": w, "seed": r.below(1 << 30), "delay": delay, "spec": spec,
                      "dup": dup, "stop": stop, "rounds": rounds, "realhash": realhash, "tag": tag})

    sizes = [1, 2, 5, 12, 24] if tier == "quick" else [1, 2, 3, 5, 8, 12, 24, 48, 96, 150]
    reps = 1 if tier == "quick" else 6
    for _ in range(reps):
        for n in sizes:
            pats = {"none": set(), "first": {0}, "last": {n - 1}, "middle": {n // 2}, "all": set(range(n)),
                    "two": {r.below(n), r.below(n)}}
            for pname, bad in sorted(pats.items()):
                w = r.choice([1, 2, 3, 4, 8, 16])
                delay = r.choice([0, 30, 300, 1500]) if n <= 24 else r.choice([0, 30, 200])
                # ATV-only (trace is replayed on the model) or mixed context blocks + ATVs
                nvtb = 0
                if r.chance(1, 2):
                    nctx = 0
                else:
                    nctx = r.range(0, n)
                    nvtb = r.range(0, min(3, n - nctx))
                spec = mk_spec(r, nctx, n - nctx - nvtb, bad, nvtb)
                add(w, delay, spec, dup=1 if (pname == "none" and r.chance(1, 2)) else 0,
                    stop=r.choice([0, 0, 1, 2]), rounds=r.choice([1, 1, 2, 3]), tag=pname)
    # every worker count once with a schedule-hostile shape: first invalid, long tail, large delays
    for w in range(1, 17):
        n = 10 if tier == "quick" else 30
        add(w, 800, "b" + "a" * n, tag="first-invalid-tail")
    # long-lived validator with small configured limits: the per-worker ring buffers (capacity 4..16) wrap
    # at least 5 times; an assert/abort ("Worker queue is full") or a wrong verdict is a violation
    lims = {4: ("2/1/1", 2, 1), 8: ("4/2/2", 4, 2), 16: ("8/4/4", 8, 4)}
    plan = [(1, 4, 3), (2, 4, 0), (3, 8, 0), (4, 4, 0)] if tier == "quick" else \
           [(w, c, st) for w in (1, 2, 3, 4) for c in (4, 8, 16) for st in (0, 3)]
    for (w, cap, st) in plan:
        lim, la, lb = lims[cap]
        nctx = r.range(0, lb)
        natv = r.range(1, la) if nctx == 0 else r.range(0, la)
        n = nctx + natv
        bad = set() if r.chance(2, 3) else {r.below(n)}
        rounds = (6 * w * cap + n - 1) // n + 1
        cases.append({"id": "k%d" % (len(cases) + 1), "w": w, "seed": r.below(1 << 30), "delay": r.choice([0, 0, 30]),
                      "spec": mk_spec(r, nctx, natv, bad), "dup": 0, "stop": st, "rounds": rounds, "realhash": 0,
                      "limits": lim, "tag": "long-lived-cap%d" % cap})
    # PopData FULL to the configured limits (all three kinds maxed), slow header hook, 1..4 workers: with one worker
    # every task lands in one queue, whose capacity the validator derives from the same limits
    fulls = [("2/1/1", 2, 1, 1), ("30/1/1", 30, 1, 1), ("1/1/30", 1, 1, 30), ("4/2/2", 4, 2, 2)]
    if tier == "thorough":
        fulls += [("60/2/2", 60, 2, 2), ("8/4/4", 8, 4, 4), ("2/30/2", 2, 30, 2), ("1000/200/200", 1000, 200, 200)]
    for (lim, la, lv, lb) in fulls:
        for w in ((1, 2) if tier == "quick" else (1, 2, 3, 4)):
            n = la + lv + lb
            if n > 200 and w > 2:
                continue
            bad = set() if r.chance(1, 2) else {r.below(n)}
            cases.append({"id": "k%d" % (len(cases) + 1), "w": w, "seed": r.below(1 << 30),
                          "delay": 300 if n <= 200 else 20, "spec": mk_spec(r, lb, la, bad, lv), "dup": 0, "stop": 0,
                          "rounds": 1, "realhash": 0, "limits": lim, "tag": "full-to-limits"})
    # the real MPMCBoundedQueue template against the ring model (proved to refine a bounded FIFO): fill/drain phases
    # crossing many wrap-arounds
    for size in ((2, 4, 8) if tier == "quick" else (2, 4, 8, 16, 64)):
        for rep in range(2 if tier == "quick" else 10):
            ops = []
            val = 0
            bias = 3
            for i in range(40 * size if size <= 8 else 12 * size):
                if i % (3 * size) == 0:
                    bias = r.choice([1, 2, 3, 4])            # of 5: probability of a push in this phase
                if r.below(5) < bias:
                    val += 1
                    ops.append("u%d" % val)
                else:
                    ops.append("o")
            cases.append({"id": "k%d" % (len(cases) + 1), "raw": "ring %d %s" % (size, " ".join(ops)), "w": 0,
                          "seed": 0, "delay": 0, "spec": "", "dup": 0, "stop": 0, "rounds": 0, "tag": "ring%d" % size})
    # concurrent callers: 2..4 caller threads share ONE validator, each with its own PopData; every caller must get
    # the one-by-one verdict of its own PopData, whatever the others submitted (no exception, no deadlock)
    def caller_spec():
        n = r.choice([1, 3, 6, 12])
        pat = r.choice(["none", "none", "first", "middle", "last", "dup"])
        bad = {"none": set(), "dup": set(), "first": {0}, "middle": {n // 2}, "last": {n - 1}}[pat]
        nctx = r.range(0, n) if r.chance(1, 3) else 0
        nvtb = r.range(0, min(2, n - nctx)) if nctx else 0
        return "%s,%d" % (mk_spec(r, nctx, n - nctx - nvtb, bad, nvtb), 1 if pat == "dup" else 0)
    wcounts = [1, 2, 3, 4, 8, 16] if tier == "quick" else list(range(1, 17)) * 3
    for w in wcounts:
        k = r.range(2, 4)
        callers = [caller_spec() for _ in range(k)]
        cases.append({"id": "k%d" % (len(cases) + 1), "raw": "multi %d %d %d %d %s" % (w, r.below(1 << 30), r.choice([0, 100, 500]), 2, " ".join(callers)),
                      "w": w, "seed": 0, "delay": 0, "spec": "", "dup": 0, "stop": 0, "rounds": 2, "tag": "multi%d" % k})
    # the hostile shape: one caller has many checks queued behind slow workers while another caller's PopData is
    # found invalid at once (context block below the fork height: no header hook, no delay)
    for w in ([1, 2, 4] if tier == "quick" else list(range(1, 9))):
        cases.append({"id": "k%d" % (len(cases) + 1), "raw": "multi %d %d 800 3 %s,0 x,0 %s,0" % (w, r.below(1 << 30), "a" * 12, "xv"),
                      "w": w, "seed": 0, "delay": 0, "spec": "", "dup": 0, "stop": 0, "rounds": 3, "tag": "multi-invalid-vs-queued"})
    add(2, 300, "", tag="empty")
    add(4, 300, "x" + "v" * 8 + "a" * 8, tag="ctx-first-invalid")
    add(3, 300, "v" * 6 + "a" * 6, dup=1, rounds=2, stop=1, tag="dup")
    return cases


def rel_cases(ctx, tier):
    """real vProgPoW hashes computed on the workers (no sanitizer): memo writes into the caller's blocks"""
    r = ctx.rng
    out = []
    for i, (w, spec, dup) in enumerate([(2, "vvvaa", 0), (4, "vxvaab", 0), (3, "vvaa", 1), (1, "vva", 0)]):
        out.append({"id": "h%d" % (i + 1), "w": w, "seed": r.below(1 << 30), "delay": 100, "spec": spec, "dup": dup,
                    "stop": i % 3, "rounds": 2, "realhash": 1, "tag": "realhash"})
    return out


def build_schedule(case, traces, verdicts):
    """turn the observed per-round (worker, payload) events into a model schedule; None if not applicable"""
    spec = case["spec"]
    if case["dup"] or not spec or case["stop"] == 3 or any(ch in "vxVtu" for ch in spec):
        return None
    vds = verdicts.split(";")
    n = len(spec)
    w = case["w"]
    labels = []
    nextw = 0
    rounds = traces.split(";")
    for ri, tr in enumerate(rounds):
        parts = tr.split("/")
        if len(parts) != 3 or int(parts[0]) != w or int(parts[1]) != n:
            return ["BAD-TRACE"]
        ev = [tuple(int(x) for x in e.split(":")) for e in parts[2].split(",") if e]
        bits = "".join("1" if ch == "a" else "0" for ch in spec)
        if ri >= len(vds):
            return ["BAD-TRACE"]
        labels.append("C%s/0" % bits)
        labels += ["P"] * n
        queues = [[j for j in range(n) if (nextw + j) % w == q] for q in range(w)]
        seqs = [[t for (wk, t) in ev if wk == i] for i in range(w)]
        if any(wk >= w for wk, _ in ev):
            return ["BAD-WORKER"]
        left = sum(len(s) for s in seqs)
        while left:
            moved = False
            for i in range(w):
                if not seqs[i]:
                    continue
                t = seqs[i][0]
                home = (nextw + t) % w
                if queues[home] and queues[home][0] == t and home in (i, (i + 1) % w):
                    labels += [("p%d" if home == i else "s%d") % i, "r%d" % i, "f%d" % i]
                    queues[home].pop(0)
                    seqs[i].pop(0)
                    left -= 1
                    moved = True
            if not moved:
                # no linearisation consistent with round-robin posting + FIFO + steal-from-next: let the model say so
                i = next(k for k in range(w) if seqs[k])
                labels += ["p%d" % i]
                break
        labels += ["W"] * (n + 1)
        # the harness then checks a second PopData with the same content three times, a copy and a fresh
        # deserialisation on the same validator: a valid PopData is posted 2 more times (its `checked` flag
        # short-cuts the rest), an invalid one 5 more times; replay them as calls that run to completion
        extra = 2 if vds[ri] == "valid" else 5
        for _ in range(extra):
            labels.append("C%s/0" % bits)
            labels += ["P"] * n
            # every task is popped by its home worker, in order
            nw = nextw + n
            for j in range(n):
                i = (nw + j) % w
                labels += ["p%d" % i, "r%d" % i, "f%d" % i]
            labels += ["W"] * (n + 1)
            nextw += n
        nextw += n
        if case["stop"] in (1, 2) and ri + 1 < len(rounds):
            labels += ["Q"] + ["J"] * w + ["S%d" % w]
            nextw = 0
    return labels


def run_variant(ctx, binary, cases, variant, tag):
    inp = os.path.join(ctx.work, "cases-%s-%s.txt" % (variant, tag))
    with open(inp, "w") as f:
        for c in cases:
            f.write(case_line(c) + "\n")
    rc, res, orc, err = vlib.run_lines([binary], inp, timeout=1500, env=SAN_ENV)
    return inp, rc, res, orc, err


def report_sanitizer(ctx, binary, cases, variant, rc, res, err):
    """the process died or a sanitizer spoke: attribute it to the first case without a result. A sanitizer report is
    evidence by itself; a bare timeout / abnormal exit without a report counts only if it reproduces (the machine
    may be heavily loaded), and a reproducible bare timeout is a machinery problem, not a property violation"""
    missing = [c for c in cases if c["id"] not in res]
    san = san_summary(err)
    if rc == 0 and not san:
        return False
    culprit = missing[0] if missing else None
    if culprit is None:
        ctx.broken.append("runner:%s rc=%d %s" % (variant, rc, err[-300:]))
        return True
    text = err
    reproduced = False
    rc2 = rc
    if not san:
        for attempt in range(2):
            _, rc2, res2, _, err2 = run_variant(ctx, binary, [culprit], variant, "confirm%d" % attempt)
            if rc2 != 0 or san_summary(err2):
                text = err2
                reproduced = True
                break
        san = san_summary(text)
        if not reproduced:
            ctx.cov.setdefault("unreproduced_abnormal_exits", []).append({"variant": variant, "rc": rc, "case": case_line(culprit)})
            return False
        if not san and rc2 == 124:
            ctx.broken.append("runner:%s reproducible timeout on case %s" % (variant, case_line(culprit)))
            return True
    kind, key, excerpt = san if san else ("crash", "crash:rc%d" % rc2, text[-1500:])
    ctx.violation({"kind": "input", "cases": [culprit], "variant": variant, "what": "sanitizer report / abnormal exit "
                   "while running the real validator on this case (rc=%d)" % rc, "report": excerpt}, key=key)
    return True


def run(ctx):
    ctx.prove()
    okm, model, mlog = vlib.build_model("Conc")
    if not okm:
        ctx.broken.append("model-build: " + mlog[-300:])
    bins = {}
    for v in ("asan", "tsan", "rel"):
        ok, hs, hlog = vlib.build_harness(["h_validator"], v)
        if ok:
            bins[v] = hs["h_validator"]
        else:
            ctx.broken.append("harness-build(%s): %s" % (v, hlog[-300:]))
    if not okm or len(bins) < 3:
        return

    corpus = []
    cdir = os.path.join(vlib.VERIF, "corpus", "C16")
    if os.path.isdir(cdir):
        for f in sorted(os.listdir(cdir)):
            if f.endswith(".json"):
                for c in json.load(open(os.path.join(cdir, f))).get("cases", []):
                    c = dict(c)
                    c["id"] = "w%d" % (len(corpus) + 1)
                    corpus.append(c)
    if ctx.replay and "cases" in ctx.replay:
        san_cases = [dict(c, id="r%d" % (i + 1)) for i, c in enumerate(ctx.replay["cases"])]
        variants = [ctx.replay["variant"]] if ctx.replay.get("variant") in bins else ["asan", "tsan"]
        plan = []
        for v in variants:
            plan.append((v, [c for c in san_cases if (c.get("realhash", 0) == 1) == (v == "rel")] or san_cases))
        if any(c.get("realhash", 0) == 1 for c in san_cases) and "rel" not in variants:
            plan = [("rel", san_cases)]
    else:
        gen = gen_cases(ctx, ctx.tier)
        san_cases = corpus + gen
        plan = [("asan", san_cases), ("tsan", san_cases), ("rel", rel_cases(ctx, ctx.tier))]

    hist = {"workers": {}, "pattern": {}, "delay": {}, "stop": {}, "n": {}}
    total = 0
    agreed = 0
    traces_ok = 0
    traces_tried = 0
    seen = set()
    for variant, cases in plan:
        inp, rc, res, orc, err = run_variant(ctx, bins[variant], cases, variant, "main")
        byid = {c["id"]: c for c in cases}
        report_sanitizer(ctx, bins[variant], cases, variant, rc, res, err)
        # model on the same input
        rcm, mres, _, merr = vlib.run_lines([model], inp)
        if rcm != 0:
            ctx.broken.append("runner: model rc=%d %s" % (rcm, merr[-300:]))
        for i, t in orc:
            if i in byid:
                ctx.violation({"kind": "input", "cases": [byid[i]], "variant": variant, "impl": res.get(i),
                               "what": "parallel verdict differs from checking the payloads one after another: " + t})
        replay_lines = []
        for c in cases:
            i = c["id"]
            if i not in res:
                continue
            total += 1
            seen.add((c["w"], c["spec"], c["dup"], c["stop"], c["rounds"], c["delay"], c.get("limits"), c.get("raw")))
            for k, v in (("workers", c["w"]), ("pattern", c.get("tag", "")), ("delay", c["delay"]), ("stop", c["stop"]),
                         ("n", len(c["spec"]))):
                hist[k][str(v)] = hist[k].get(str(v), 0) + 1
            if mres.get(i, "").startswith("MODEL-ERROR"):
                ctx.broken.append("model: %s on %s" % (mres.get(i), case_line(c)))
            elif mres.get(i) != res.get(i):
                # the model's verdict is the proved sequential specification
                ctx.violation({"kind": "input", "cases": [c], "variant": variant, "model": mres.get(i), "impl": res.get(i),
                               "what": "verdict of the real validator differs from the proved specification"})
            else:
                agreed += 1
            tr = res.get(i + ".t")
            if tr is not None and variant != "rel":
                labels = build_schedule(c, tr, res.get(i, ""))
                if labels is not None:
                    replay_lines.append((i, "%s.r replay %d 0 %s" % (i, c["w"], " ".join(labels))))
        if replay_lines:
            rp = os.path.join(ctx.work, "replay-%s.txt" % variant)
            with open(rp, "w") as f:
                for _, l in replay_lines:
                    f.write(l + "\n")
            _, rres, _, _ = vlib.run_lines([model], rp)
            for i, _ in replay_lines:
                traces_tried += 1
                got = rres.get(i + ".r", "")
                want = "ok " + ";".join(";".join([v] * (3 if v == "valid" else 6))
                                        for v in res.get(i, "").split(";")) + " held=0"
                if got == want:
                    traces_ok += 1
                else:
                    # the model rejects what the real threads did: the model no longer describes the code
                    ctx.broken.append("corr:Conc.Validator.step: observed trace of case [%s] trace=%s not accepted by the "
                                      "model: %s (expected %s)" % (case_line(byid[i]), res.get(i + ".t"), got, want))
        for c in cases[:2]:
            ctx.sample({"variant": variant, "case": case_line(c), "impl": res.get(c["id"]), "model": mres.get(c["id"]),
                        "trace": res.get(c["id"] + ".t")})
    ctx.cov["evaluations"] = total
    ctx.cov["distinct_nontrivial"] = len(seen)
    ctx.cov["rule"] = ("one evaluation = one case (1..3 checkPopData rounds) on one library variant; distinct = distinct "
                       "(workers, payload pattern, dup, stop mode, rounds, delay) among cases with a result")
    ctx.cov["disagreements_checked"] = total
    ctx.cov["traces_validated_against_impl"] = traces_ok
    ctx.cov["traces_replayed_on_model"] = traces_tried
    ctx.cov["verdicts_agreeing"] = agreed
    ctx.cov["distribution"] = hist
    ctx.cov["sanitizer_variants"] = [v for v, _ in plan]
    ctx.cov["partial_theorems"] = ["C16_ring_refines_fifo_partial (one push/pop at a time; the concurrent CAS interleavings "
                                    "are covered by C16_ring_linearizable & co. under sequentially consistent atomics; "
                                    "memory-order weakening and the 2^64 position wrap are not modelled)", "C16_no_deadlock_partial (enabledness only, no termination measure)"]
    ctx.cov["refuted_theorems"] = ["C16_released_on_return_v0_refuted (old code, repaired by /repo 9e8bd1f5)",
                                    "C16_clear_restarts_pool_refuted (hypothetical clear() = stop(); start(), documentation)"]
    ctx.cov["trusted_base"] = [
        "modelled, not verified: std::future/packaged_task, std::thread (one-shot promise assumed); the MPMC bounded queue "
        "is verified at step level against the bounded FIFO under sequentially consistent atomics and unbounded counters "
        "(memory-order weakening not modelled); payload checks as precomputed booleans",
        "ASan+UBSan (-O0) and TSan builds of the whole library observe memory safety / data races on the executed "
        "schedules only",
    ]
