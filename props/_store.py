"""Generators and oracles shared by C09 (finalization) and C10 (save/load).

Built on props/_world.py: one WorldGen registry per history (blocks and payloads are
created once), the operation list is RECORDED (RecHistory) and then replayed on as
many fresh instances as there are save-point placements, all in one harness process.
"""
import itertools
import re

from props._world import WorldGen, History


# ---------------------------------------------------------------------------
class StoreWorldGen(WorldGen):
    """WorldGen whose honest bodies respect a small VBK settlement interval: a VTB only endorses a VBK block
    that is within vbk_settle of its containing block (otherwise the honest miner itself rejects it).

    Bootstrap configuration (harness/h_store.cpp): cfg keys vbk_bootstrap_chain=k / btc_bootstrap_chain=k make the
    harness mine v1..vk / b1..bk right after `begin` and bootstrap every instance with bootstrapWithChain; the
    generator mirrors the ids (every ALT block knows the bootstrap blocks)."""

    def __init__(self, rng, cfg=None):
        WorldGen.__init__(self, rng, cfg)
        kv, kb = self.cfg.get("vbk_bootstrap_chain", 0), self.cfg.get("btc_bootstrap_chain", 0)
        for i in range(1, kv + 1):
            self.vbk["v%d" % i] = dict(parent="v%d" % (i - 1), height=i)
            self.alt["a0"]["kv"].add("v%d" % i)
        for i in range(1, kb + 1):
            self.btc["b%d" % i] = dict(parent="b%d" % (i - 1), height=i)
            self.alt["a0"]["kb"].add("b%d" % i)
        self.nv, self.nb = kv + 1, kb + 1
        self.vtip, self.btip = "v%d" % kv, "b%d" % kb
        self.vboot, self.bboot = kv, kb
        self.n_spfork = self.n_spfork_vtb = 0

    def btc_ancestry(self, b):
        out = []
        while b is not None:
            out.append(b)
            b = self.btc[b]["parent"]
        return out

    def last_known_on(self, kb, bparent):
        """the highest BTC block of `kb` that is `bparent` or one of its ancestors (a VTB's BTC context starts
        right after it and must connect to it)"""
        for b in self.btc_ancestry(bparent):
            if b in kb:
                return b
        return "b0"

    def make_btx(self, endorsed, bparent=None):
        """BTC endorsement transaction of VBK block `endorsed`, mined now into a new BTC block -> (x id, btc id)"""
        bparent = bparent or self.btip
        self.nx = getattr(self, "nx", 0) + 1
        x = "x%d" % self.nx
        bid = "b%d" % self.nb
        self.nb += 1
        self.btc[bid] = dict(parent=bparent, height=self.btc[bparent]["height"] + 1)
        self.emit("btx %s %s %s" % (x, endorsed, bparent), bid)
        if self.btc[bid]["height"] > self.btc[self.btip]["height"]:
            self.btip = bid
        self.btx = getattr(self, "btx", {})
        self.btx[x] = dict(endorsed=endorsed, bop=bid)
        return x, bid

    def make_vtb_of(self, x, last_known_btc, vparent=None):
        """the VTB of transaction `x`, created now: its containing VBK block is new, its BTC block of proof old"""
        vparent = vparent or self.vtip
        wid = "w%d" % self.nw
        self.nw += 1
        vid = "v%d" % self.nv
        self.nv += 1
        self.vbk[vid] = dict(parent=vparent, height=self.vbk[vparent]["height"] + 1)
        bop = self.btx[x]["bop"]
        self.vtb[wid] = dict(endorsed=self.btx[x]["endorsed"], containing=vid, bop=bop, last=last_known_btc,
                             bctx=self.bpath(last_known_btc, bop))
        self.emit("vtbx %s %s %s %s" % (wid, x, vparent, last_known_btc), vid)
        if self.vbk[vid]["height"] > self.vbk[self.vtip]["height"]:
            self.vtip = vid
        return wid

    def sp_fork_block(self, parent):
        """an ALT block whose body brings a stale VBK fork (2-4 blocks) that branches off an old VBK block -
        preferably an interior block of the bootstrap chain - and, half of the time, a VTB whose BTC block of
        proof sits on a BTC fork branching off an old (bootstrap) BTC block."""
        r = self.r
        aid = self.new_alt(parent)
        known = sorted(self.alt[parent]["kv"], key=lambda v: int(v[1:]))
        vs = self.cfg.get("vbk_settle", 400)
        low = [v for v in known if self.vbk[v]["height"] <= max(self.vboot, 1) + 2] or known
        base = r.choice(low)
        # extend an existing stale branch as often as start a new one: the branch tip's work then overtakes /
        # ties with / stays below the active branch over the history
        stale = [v for v in known if v != self.vtip and not any(self.vbk[c]["parent"] == v for c in self.vbk)]
        if stale and r.chance(1, 2):
            base = r.choice(stale)
        tip = base
        for _ in range(r.range(1, 4)):
            tip = self.mine_vbk(tip)
        vtbs = []
        if r.chance(1, 2):
            kb = set(self.alt[parent]["kb"])
            lowb = [b for b in kb if self.btc[b]["height"] <= max(self.bboot, 1) + 1] or sorted(kb)
            bbase = r.choice(sorted(lowb, key=lambda b: int(b[1:])))
            bt = bbase
            for _ in range(r.range(0, 2)):
                bt = self.mine_btc(bt)
            ch = self.vbk[tip]["height"] + 1
            pool = [v for v in self.vpath(set(), tip) if ch - self.vbk[v]["height"] <= min(vs, 12)]
            if pool:
                vtbs.append(self.make_vtb(r.choice(pool), self.last_known_on(kb, bt), vparent=tip, bparent=bt))
        self.set_pd(aid, vtbs=vtbs, extra_ctx=[tip] if not vtbs else [])
        # the BTC blocks of a VTB held by a VBK block off the VBK best chain are in the BTC tree only while that
        # VBK branch is applied: later VTBs must not rely on them as their connecting block
        self.alt[aid]["kb"] = set(self.alt[parent]["kb"])
        self.n_spfork += 1
        self.n_spfork_vtb += len(vtbs)
        return aid

    def honest_block(self, parent, n_atv=None, n_vtb=None, empty_chance=(1, 3)):
        r = self.r
        aid = self.new_alt(parent)
        if r.chance(*empty_chance):
            self.set_pd(aid)
            return aid
        anc = self.ancestry(aid)[:-1]
        h = self.alt[aid]["height"]
        cands = [x for x in anc if x != "a0" and h - self.alt[x]["height"] <= self.settle()]
        atvs = []
        k = n_atv if n_atv is not None else r.below(3)
        # endorsements at every distance 1..settle; the boundary (distance == settlement interval, the oldest
        # endorsement the live rule `containing - endorsed > settle => expired` still accepts) is chosen often
        boundary = [x for x in cands if h - self.alt[x]["height"] == self.settle()]
        for _ in range(k):
            if not cands:
                break
            e = r.choice(boundary) if boundary and r.chance(1, 3) else r.choice(cands)
            atvs.append(self.make_atv(e, payout=r.choice(["010203", "aabb", "cc"])))
        vtbs = []
        k = n_vtb if n_vtb is not None else r.below(2)
        vs = self.cfg.get("vbk_settle", 400)
        for _ in range(k):
            known = sorted(self.alt[parent]["kv"], key=lambda v: int(v[1:]))
            ch = self.vbk[self.vtip]["height"] + 1          # height of the containing VBK block
            lo = ch - min(vs, 12)
            onbest = set(self.vpath(set(), self.vtip))      # the endorsed block must be an ancestor of the containing one
            pool = [v for v in known if self.vbk[v]["height"] >= lo and v in onbest]
            if not pool:
                break
            vb = [v for v in pool if ch - self.vbk[v]["height"] == vs]
            e = r.choice(vb) if vb and r.chance(1, 2) else r.choice(pool)
            kb = set(self.alt[parent]["kb"])
            for w in vtbs:
                kb |= set(self.vtb[w]["bctx"])
            last = self.last_known_on(kb, self.btip)
            vtbs.append(self.make_vtb(e, last))
        self.set_pd(aid, atvs=atvs, vtbs=vtbs)
        return aid


def registry_mismatches(gen, res, ids):
    """registry lines whose answer differs from the generator's prediction (id assignment out of step)"""
    bad = []
    for i, l, e in zip(ids, gen.lines, gen.expect):
        if e is not None and res.get(i) != e:
            bad.append((l, e, res.get(i)))
    return bad


class RecHistory(History):
    """History that records the instance operations instead of emitting them"""

    def __init__(self, gen):
        History.__init__(self, gen, inst="@")
        self.rec = []

    def on(self, *words):
        self.rec.append(tuple(words))
        self.ops[words[0]] = self.ops.get(words[0], 0) + 1


def bad_block(gen, hist, parent, kind):
    """a block whose body is contextually invalid:
       dup   - re-uses an ATV that an ancestor already carries (stateful duplicate -> FAILED_POP at connect)
       noctx - ATV whose block of proof is missing from the context (fails when applied -> FAILED_POP)"""
    r = gen.r
    aid = gen.new_alt(parent)
    anc = gen.ancestry(aid)[:-1]
    if kind == "dup":
        pool = [t for x in anc for t in gen.alt[x]["atvs"]]
        if pool:
            t = r.choice(pool)
            gen.set_pd(aid, atvs=[t], ctx=[])
            return aid
        kind = "noctx"
    cands = [x for x in anc if x != "a0" and gen.alt[aid]["height"] - gen.alt[x]["height"] <= gen.settle()]
    if not cands:
        gen.set_pd(aid)
        return aid
    t = gen.make_atv(r.choice(cands))
    gen.set_pd(aid, atvs=[t], ctx=[])
    return aid


def gen_history(rng, cfg, nsteps, bad_chance=(1, 6), f9_chance=(1, 3), spfork_chance=(0, 1)):
    """-> (gen, ops): registry script in gen.lines, recorded instance ops.
    spfork_chance: how often a step is an ALT block that brings a stale VBK (and BTC) fork branching off an old /
    interior bootstrap block (PoW fork resolution of the SP trees; chain work is rebuilt on load)"""
    g = StoreWorldGen(rng, cfg)
    h = RecHistory(g)
    r = rng
    if r.chance(*f9_chance):
        # the F9 shape first: header P, header C, body C, ..., body P
        p = g.honest_block("a0", empty_chance=(1, 2))
        c = g.honest_block(p, empty_chance=(1, 2))
        h.on("hdr", p); h.hdr.add(p)
        h.on("hdr", c); h.hdr.add(c)
        h.on("body", c); h.body.add(c)
        h.on("body", p); h.body.add(p)
        if r.chance(1, 2):
            h.on("set", c)
    for _ in range(nsteps):
        if spfork_chance[0] and r.chance(*spfork_chance):
            a = g.sp_fork_block(h.pick_parent())
            h.show(a)
            if r.chance(2, 3):
                h.on("set", a)
            continue
        if r.chance(*bad_chance):
            a = bad_block(g, h, h.pick_parent(), r.choice(["dup", "noctx"]))
            h.show(a)
            if r.chance(1, 2):
                h.on("set", a)
            continue
        h.step()
    return g, h.rec


def gen_late(rng, cfg, nblocks, late_chance=(2, 3), save_chance=(1, 3)):
    """finalizing instance with interleaved save points and LATE payloads that touch old, already saved blocks.
    A mostly linear ALT chain is activated block by block under a small VBK reorg window (cfg vbk_maxreorg /
    vbk_preserve); VBK grows by several blocks per ALT block; VTBs are delivered promptly often enough that the BTC
    tip's lowest VBK reference stays inside the window (VbkBlockTree::finalizeBlocks is bounded by it). Every now and
    then a VTB is CREATED for a then-recent VBK block but held back; it arrives many blocks later in its own ALT
    block: its containing VBK block (old, saved, far below the VBK tip, below clean blocks) gets a new VTB id and
    containing endorsement, the BTC blocks of its context a second reference - in the same setState whose
    overrideTip runs finalization. Short ALT forks near the tip and roll-backs of the last block are mixed in.
    -> (gen, ops, saves): saves = op positions after which saveTrees runs (a reload follows every save)"""
    g = StoreWorldGen(rng, cfg)
    h = RecHistory(g)
    r = rng
    vs = cfg.get("vbk_settle", 400)
    best = "a0"
    stash = []      # (vtb id, created at alt height)
    saves = []

    def activate(a):
        h.show(a, order="inorder")
        h.on("set", a)

    M, P = cfg.get("vbk_maxreorg", 200000), cfg.get("vbk_preserve", vs)

    for i in range(nblocks):
        # where the instance's VBK root is expected after the next activation (tip - maxreorg - preserve); a held-back
        # VTB is delivered when its containing block is about to leave memory: the late block also brings 2-4 new VBK
        # blocks, so that the finalization of the same setState moves the root across the re-dirtied block
        tip_h = max(g.vbk[v]["height"] for v in g.alt[best]["kv"])
        edge = tip_h - M - P
        hx = lambda: g.vbk[g.vtb[stash[0][0]]["containing"]]["height"]
        while stash and hx() - 1 < edge:
            # the endorsed block (one below the containing one) may already be deallocated: on a finalizing instance
            # the VTB is no longer valid, on a freshly loaded one (whole history in memory) it still is - not delivered
            stash.pop(0)
        if stash and hx() <= edge + r.range(1, 3) and r.chance(*late_chance):
            w, _ = stash.pop(0)
            a = g.new_alt(best)
            extra = [g.mine_vbk() for _ in range(r.range(3, 5))]
            g.set_pd(a, vtbs=[w], extra_ctx=extra)
            activate(a)
            best = a
            if r.chance(2, 3):
                saves.append(len(h.rec))
                if r.chance(1, 2):
                    # roll the late block back right after the save and re-activate it
                    h.on("set", g.alt[a]["parent"])
                    h.on("set", a)
            continue
        # a regular block: 0-1 ATVs, 1-3 further VBK blocks, often a prompt VTB
        a = g.new_alt(best)
        anc = g.ancestry(a)[:-1]
        ht = g.alt[a]["height"]
        cands = [x for x in anc if x != "a0" and ht - g.alt[x]["height"] <= g.settle()]
        atvs = [g.make_atv(r.choice(cands))] if cands and r.chance(1, 2) else []
        extra = []
        for _ in range(r.range(1, 3)):
            extra.append(g.mine_vbk())
        vtbs = []
        kb = set(g.alt[best]["kb"])
        onbest = g.vpath(set(), g.vtip)
        if r.chance(2, 3):
            ch = g.vbk[g.vtip]["height"] + 1
            pool = [v for v in onbest if ch - g.vbk[v]["height"] <= min(vs, 12)]
            vtbs.append(g.make_vtb(r.choice(pool), g.last_known_on(kb, g.btip)))
        g.set_pd(a, atvs=atvs, vtbs=vtbs, extra_ctx=extra)
        if r.chance(1, 3) and len(stash) < 3:
            # create a VTB now (its containing VBK block becomes part of the chain), deliver it later
            # (it endorses the block right below its containing block)
            stash.append((g.make_vtb(g.vtip, g.last_known_on(set(g.alt[a]["kb"]), g.btip)), ht))
        activate(a)
        best = a
        if r.chance(*save_chance):
            saves.append(len(h.rec))
        if r.chance(1, 8) and ht > 2:
            # a short fork next to the tip, compared and left behind
            f = g.honest_block(g.alt[best]["parent"], n_vtb=0)
            h.show(f)
            h.on("cmp", f)
    if not saves or saves[-1] != len(h.rec):
        saves.append(len(h.rec))
    return g, h.rec, saves


def gen_btcfin(rng, cfg):
    """BTC finalization (BtcChainParams::getMaxReorgBlocks asserts >= the difficulty adjustment interval, 2016 on
    regtest; preserveBlocksBehindFinal is 0 for BTC): one VTB teaches the instance a BTC chain of maxreorg + x - d
    blocks (x: height of an early BTC block bX that carries a BTC endorsement transaction whose VBK pop transaction
    has not been created yet), save; later one ALT block brings a prompt VTB that advances the BTC tip by d + 1..3
    blocks AND the late VTB of that early transaction: the old, saved block bX gets a second reference below clean
    blocks while the finalization of the same setState moves the BTC root across it; save, reload, roll back.
    -> (gen, ops, saves)"""
    g = StoreWorldGen(rng, cfg)
    h = RecHistory(g)
    r = rng
    M = cfg["btc_maxreorg"]
    best = "a0"
    saves = []

    def block(atvs=(), vtbs=(), extra=()):
        nonlocal best
        a = g.new_alt(best)
        g.set_pd(a, atvs=list(atvs), vtbs=list(vtbs), extra_ctx=list(extra))
        h.show(a, order="inorder")
        h.on("set", a)
        best = a
        return a

    v = [g.mine_vbk() for _ in range(r.range(3, 5))]
    block(extra=v)
    for _ in range(r.range(1, 4)):
        g.mine_btc()
    x, bx = g.make_btx(r.choice(v[1:]))
    hx = g.btc[bx]["height"]
    d = r.range(1, 3)
    while g.btc[g.btip]["height"] < M + hx - d - 1:
        g.mine_btc()
    w1 = g.make_vtb(g.vtip, g.last_known_on(g.alt[best]["kb"], g.btip))      # bop at height M + hx - d
    block(vtbs=[w1])
    saves.append(len(h.rec))
    if r.chance(1, 2):
        block(atvs=[g.make_atv(best)])
        if r.chance(1, 2):
            saves.append(len(h.rec))
    for _ in range(d + r.range(0, 2)):
        g.mine_btc()
    w2 = g.make_vtb(g.vtip, g.last_known_on(g.alt[best]["kb"], g.btip))
    wx = g.make_vtb_of(x, g.btc[bx]["parent"])
    late = block(vtbs=[w2, wx] if r.chance(1, 2) else [wx, w2])
    saves.append(len(h.rec))
    # roll the late block back on the live and on the reloaded instance and continue on a sibling.  (Re-applying the
    # late block is not part of the history: BTC preserves nothing behind the final block, so the connecting block
    # of the late VTB is gone once the root has moved up to bX, and the VTB cannot be validated a second time.)
    best = g.alt[late]["parent"]
    h.on("set", best)
    block(atvs=[g.make_atv(best)] if best != "a0" else [])
    saves.append(len(h.rec))
    return g, h.rec, saves


def tail_ops(g, rng, k=6):
    """follow-up behaviour: cmp/set/payout on several candidates"""
    ids = sorted(g.alt, key=lambda a: (-g.alt[a]["height"], int(a[1:])))
    cands = ids[:3] + [rng.choice(ids) for _ in range(3)]
    out = []
    for c in cands[:k]:
        out.append(("cmp", c))
    for c in cands[:3]:
        out.append(("set", c))
        out.append(("payout", c))
        out.append(("cmp", rng.choice(ids)))
    return out


def placements(n, kmax, rng, limit):
    """save-point placements: subsets of positions 1..n (save AFTER the i-th op) of size 1..kmax.
    All of them when there are at most `limit`, else a seeded sample (always including every single position)."""
    allp = []
    for k in range(1, kmax + 1):
        allp += list(itertools.combinations(range(1, n + 1), k))
    if len(allp) <= limit:
        return allp, True
    singles = [p for p in allp if len(p) == 1]
    rest = [p for p in allp if len(p) > 1]
    rng.shuffle(rest)
    return singles + rest[:max(0, limit - len(singles))], False


# ---------------------------------------------------------------------------
class Script:
    def __init__(self, prefix="c"):
        self.lines = []
        self.meta = {}     # id -> tag
        self.prefix = prefix

    def add(self, text, tag=None):
        i = "%s%d" % (self.prefix, len(self.lines) + 1)
        self.lines.append("%s %s" % (i, text))
        if tag is not None:
            self.meta[i] = tag
        return i


def emit_registry(sc, g):
    ids = [sc.add(l) for l in g.lines]
    sc.registries = getattr(sc, "registries", []) + [(g, ids)]
    return ids


def check_registries(sc, res):
    bad = []
    for g, ids in getattr(sc, "registries", []):
        bad += registry_mismatches(g, res, ids)
    return bad


def emit_placement(sc, ops, tail, saves, tagbase, name="P", dump="xdump", fin=False):
    """replay `ops` on a fresh instance `name` with a save after each position in `saves`;
    at every save: snapshot -> reloaded instance R<k> (crash model) that follows the live
    instance from then on. Tags let the checker pair the answers.
    fin: the instance is a LOADED one (save + reload before the first op: finalization runs automatically in
    overrideTip), every instance runs under the direct oracle `guard` (no unsaved block is deallocated) and the
    dumps are `xdump fin` (compared by diff_dumps_fin)"""
    sc.add("inst %s" % name)
    if fin:
        sc.add("on %s save" % name)
        sc.add("on %s reload" % name)
        sc.add("on %s guard on" % name)
        dump = "xdump fin"
        sc.fin_tags = getattr(sc, "fin_tags", set()) | {tagbase}
    rel = []
    saves = set(saves)

    def both(words, pos):
        a = sc.add("on %s %s" % (name, " ".join(words)), (tagbase, "live", pos, words))
        for rn in rel:
            sc.add("on %s %s" % (rn, " ".join(words)), (tagbase, "rel", rn, pos, words, a))

    for i, w in enumerate(ops, 1):
        both(w, i)
        if i in saves:
            k = len(rel)
            sc.add("on %s dirty" % name, (tagbase, "dirty", k, i))
            sc.add("on %s save" % name)
            if fin:
                # after saveTrees nothing in memory is dirty
                sc.add("on %s dirty" % name, (tagbase, "clean", k, i))
            # the loaded twins save too (they own a copy of the storage)
            for rn in rel:
                sc.add("on %s save" % rn)
            rn = "%sR%d" % (name, k)
            sc.add("clone %s %s" % (name, rn), (tagbase, "load", k, i))
            if fin:
                sc.add("on %s guard on" % rn)
            a = sc.add("on %s %s" % (name, dump), (tagbase, "dumpL", k, i))
            sc.add("on %s %s" % (rn, dump), (tagbase, "dumpR", k, i, a))
            rel.append(rn)
    for j, w in enumerate(tail):
        both(w, len(ops) + 1 + j)
    a = sc.add("on %s %s" % (name, dump), (tagbase, "finalL"))
    for rn in rel:
        sc.add("on %s %s" % (rn, dump), (tagbase, "finalR", rn, a))
    sc.add("drop %s" % name)
    for rn in rel:
        sc.add("drop %s" % rn)


# ---------------------------------------------------------------------------
# persisted-equivalence: canonical form of an xdump for comparing a live instance with a reloaded one
def _relax_sp_level(m):
    """validation-level memo of a valid SP block that is NOT on the best chain: CONNECTED (2) .. CAN_BE_APPLIED (4)
    only records whether fork resolution has ever applied the branch while comparing it"""
    st = int(m.group(2))
    if not (st & 512) and not (st & (32 | 64 | 128)) and (st & 7) in (2, 3, 4):
        st = (st & ~7) | 2
    return "%s_st=%d" % (m.group(1), st)


def canon_dump(s, drop_final=False, relax_sp_level=False):
    """set of observation lines with the memory-only marks removed:
       ' D' (dirty: reset by load / set again by loadTip's setFlag+raiseValidity) is dropped;
       ' F' (finalized, memory only: after a load only the bootstrap root is final) is dropped iff drop_final;
       relax_sp_level (only for two instances that have both EXECUTED further operations, never for the comparison
       right after a load): BaseBlockTree::doUpdateTips() runs fork resolution over `tips_`, an
       std::unordered_set<index_t*> - its iteration order depends on the addresses of the block indices, i.e. differs
       between any two instances. After the VBK/BTC best branch is removed (its ALT blocks are unapplied), a stale
       valid branch that happens to be visited BEFORE the eventual winner is applied once (raiseValidity ->
       BLOCK_CAN_BE_APPLIED) and then loses; visited after the winner it is compared without being applied and
       stays BLOCK_CONNECTED. Best chains, flags, payloads and every answer are the same; only this memo differs,
       so it is not part of the equivalence of two RUNNING instances."""
    out = set()
    for l in s.split(";"):
        if not l:
            continue
        l = l.replace("_D_", "_").replace("_D;", ";")
        l = re.sub(r"_D(?=_|$)", "", l)
        if drop_final:
            l = re.sub(r"_F(?=_|$)", "", l)
        if relax_sp_level and l[:4] in ("VBK_", "BTC_"):
            l = re.sub(r"^((?:VBK|BTC)_[vb]\d+_h=\d+)_st=(\d+)", _relax_sp_level, l)
        out.add(l)
    return out


def diff_dumps(a, b, drop_final=False, relax_sp_level=False):
    A, B = canon_dump(a, drop_final, relax_sp_level), canon_dump(b, drop_final, relax_sp_level)
    return sorted(A - B), sorted(B - A)


def _keyed(dump, relax_sp_level=False):
    """xdump -> ({block key 'VBK_v7': line}, {other lines}) with the memory-only D / F marks removed"""
    blocks, other = {}, set()
    for l in canon_dump(dump, drop_final=True, relax_sp_level=relax_sp_level):
        w = l.split("_")
        if len(w) > 2 and w[0] in ("ALT", "VBK", "BTC") and re.match(r"^[avb]\d+$", w[1]) and w[2].startswith("h="):
            blocks[w[0] + "_" + w[1]] = l
        else:
            other.add(l)
    return blocks, other


def diff_dumps_fin(live, rel, after_load):
    """comparison of a finalizing live instance with a reloaded one (`xdump fin`). The two may have deallocated
    different amounts of final history (the storage keeps everything, a fresh load starts at the bootstrap block and
    finalizes at its next tip change), therefore: every block BOTH hold must have the same line (height, status,
    payload ids, endorsements, refcount/refs, chain work); right after the load the reloaded instance must hold
    every block the live one holds; the best tips of all three trees must be equal; a tree whose root is the same in
    both is compared completely (tips_, applied count, payload indices). -> (live_only, reloaded_only)"""
    bl, ol = _keyed(live, relax_sp_level=not after_load)
    br, orr = _keyed(rel, relax_sp_level=not after_load)
    d1, d2 = [], []
    for k in sorted(set(bl) & set(br)):
        if bl[k] != br[k]:
            d1.append(bl[k])
            d2.append(br[k])
    if after_load:
        for k in sorted(set(bl) - set(br)):
            d1.append(bl[k] + "  <missing after reload>")
    for tree in ("ALT", "VBK", "BTC"):
        rl = {x for x in ol if x.startswith(tree + "_root")}
        rr = {x for x in orr if x.startswith(tree + "_root")}
        if rl == rr:
            a = {x for x in ol if x.startswith(tree + "_")}
            b = {x for x in orr if x.startswith(tree + "_")}
            d1 += sorted(a - b)
            d2 += sorted(b - a)
            for k in sorted(k for k in set(bl) ^ set(br) if k.startswith(tree + "_")):
                (d1 if k in bl else d2).append(bl.get(k) or br.get(k))
        else:
            a = {x for x in ol if x.startswith(tree + "_best")}
            b = {x for x in orr if x.startswith(tree + "_best")}
            d1 += sorted(a - b)
            d2 += sorted(b - a)
    return d1, d2


def reload_inconsistencies(dump):
    """cross-tree consistency of a FRESHLY LOADED instance (it holds the whole stored history): every VTB id held
    by an active ALT block is held by a VBK block, and the BTC block of proof / context blocks are referenced at the
    height of that VBK block (stale records resurrected by a load show up here)"""
    vtb_at = {}
    for l in dump.split(";"):
        m = _PROJ["VBK"].match(l)
        if m:
            for w in m.group(5).strip("[]").split(","):
                if w:
                    vtb_at.setdefault(w, []).append((m.group(1), int(m.group(2))))
    bad = []
    refs = {}
    for l in dump.split(";"):
        m = _PROJ["BTC"].match(l)
        if m:
            refs[m.group(1)] = [x for x in m.group(4).strip("[]").split(",") if x]
    for l in dump.split(";"):
        m = _PROJ["VBK"].match(l)
        if m and int(m.group(3)) & 512:
            # containing endorsements of an applied VBK block: endorsed>containing@blockOfProof
            for e in m.group(6).strip("[]").split(","):
                if "@" in e:
                    b = e.split("@")[1]
                    if m.group(2) not in refs.get(b, []):
                        bad.append("BTC block of proof %s of the VTB in active VBK block %s (height %s) has refs %s"
                                   % (b, m.group(1), m.group(2), refs.get(b)))
    for l in dump.split(";"):
        m = _PROJ["ALT"].match(l)
        if m and int(m.group(3)) & 512:
            parts = m.group(4).strip("[]").split("|")
            for w in (parts[1].split(",") if len(parts) > 1 else []):
                if w and w not in vtb_at:
                    bad.append("VTB %s of active ALT block %s is held by no VBK block" % (w, m.group(1)))
    return bad


# ---------------------------------------------------------------------------
# C09: twin histories (F finalizes, N never does)
class TwinHistory(RecHistory):
    """long, mostly growing history with short forks around the finalization horizon"""

    def __init__(self, gen, maxreorg, macro=False):
        RecHistory.__init__(self, gen)
        self.maxreorg = maxreorg
        self.macro = macro     # emit "unsaved deep switch, then finalize" sequences (mode finy)
        self.best = "a0"       # the generator's idea of the active tip (only a heuristic)

    def chain_back(self, a, k):
        anc = self.g.ancestry(a)
        return anc[max(0, len(anc) - 1 - k)]

    def step(self):
        r = self.r
        g = self.g
        k = r.below(100)
        ids = sorted(g.alt, key=lambda a: int(a[1:]))
        if self.macro and g.alt[self.best]["height"] > self.maxreorg + 6 and r.chance(1, 10):
            # requested final block != actually finalized block: a fork next to the requested block (tip - maxreorg),
            # then - without saving - a switch to a block forking below the requested block and back (re-dirties the
            # active chain from there), then finalizeBlocks(): the final block is lowered to the lowest unsaved block
            sib = g.honest_block(self.chain_back(self.best, self.maxreorg + 1), n_atv=0, n_vtb=0, empty_chance=(1, 1))
            self.show(sib)
            self.rec.append(("nosave",))
            deep = g.honest_block(self.chain_back(self.best, r.range(self.maxreorg + 2, self.maxreorg + 4)),
                                  n_atv=0, n_vtb=0, empty_chance=(1, 1))
            self.show(deep)
            self.on("set", deep)
            self.on("set", self.best)
            self.rec.append(("finnow",))
            self.on("cmp", sib)
            return
        if k < 50:
            a = g.honest_block(self.best)
            self.show(a, order="inorder" if r.chance(2, 3) else "random")
            self.on("set", a)
            self.on("payout", a)
            self.best = a
            return
        if k < 56 and r.chance(1, 2):
            # a one-block fork hanging off the chain right around the requested final block (tip - maxreorg):
            # siblings of the requested / of the actually finalized block
            depth = r.range(self.maxreorg - 1, self.maxreorg + 2)
            a = g.honest_block(self.chain_back(self.best, depth), n_atv=0, n_vtb=0, empty_chance=(1, 1))
            self.show(a)
            return
        if k < 64:
            # fork from a block up to maxreorg+3 behind the tip: above, at and below the final block
            depth = r.range(1, self.maxreorg + 3)
            p = self.chain_back(self.best, depth)
            a = g.honest_block(p)
            n = r.range(0, 2)
            for _ in range(n):
                a = g.honest_block(a)
            self.show(a)
            self.on("cmp", a)
            if r.chance(1, 3):
                self.on("set", a)
                self.on("set", self.best)
            return
        if k < 73:
            # a block that repeats a payload of an ancestor far below the tip (possibly finalized / deallocated):
            # stateful duplicate -> BLOCK_FAILED_POP at connect on both twins (finalized payload index in F)
            a = bad_block(g, self, self.best, "dup")
            self.show(a, order="inorder")
            self.on("cmp", a)
            return
        if k < 80:
            self.on("cmp", r.choice(ids[-12:] if r.chance(2, 3) else ids))
            return
        if k < 86:
            x = r.choice(ids[-10:])
            self.on("inv", x)
            if r.chance(1, 2):
                self.on("cmp", r.choice(ids[-10:]))
            self.on("reval", x)
            self.on("set", self.best)
            return
        if k < 90:
            x = r.choice(ids[-10:])
            if x != "a0" and x not in g.ancestry(self.best):
                self.on("rm", x)
            return
        if k < 94:
            self.on("set", r.choice(ids[-10:]))
            self.on("set", self.best)
            return
        self.on("payout", self.best)


def gen_twin(rng, cfg, nsteps, macro=False):
    g = StoreWorldGen(rng, cfg)
    h = TwinHistory(g, cfg.get("alt_maxreorg", 8), macro=macro)
    for _ in range(nsteps):
        h.step()
    return g, h.rec


def gen_twin_drought(rng, cfg, nsteps, late_every=5):
    """VBK context runs far ahead of the last BTC reference: after a short start no VTB is DELIVERED any more (the
    BTC tip of the instances does not advance, VBK finalization stays bounded by the lowest VBK height that
    references it), but VTBs keep being CREATED for then-recent VBK blocks; at the end they arrive late, in
    creation order, each in its own ALT block - their containing VBK blocks lie far below the VBK tip."""
    g = StoreWorldGen(rng, cfg)
    h = TwinHistory(g, cfg.get("alt_maxreorg", 8))
    r = rng
    vs = cfg.get("vbk_settle", 400)
    stash = []
    for i in range(nsteps):
        a = g.honest_block(h.best, n_vtb=(None if i < 3 else 0), empty_chance=(1, 6))
        h.show(a, order="inorder")
        h.on("set", a)
        h.on("payout", a)
        h.best = a
        if r.chance(1, 6):
            # a short fork without VTBs, compared and left behind
            f = g.honest_block(h.chain_back(h.best, r.range(1, 4)), n_vtb=0)
            h.show(f)
            h.on("cmp", f)
        if i >= 3 and i % late_every == 0:
            known = sorted(g.alt[h.best]["kv"], key=lambda v: int(v[1:]))
            ch = g.vbk[g.vtip]["height"] + 1
            pool = [v for v in known if ch - g.vbk[v]["height"] <= min(vs, 8)]
            if pool:
                stash.append(g.make_vtb(r.choice(pool), g.best_known_btc(h.best)))
    for w in stash:
        a = g.new_alt(h.best)
        g.set_pd(a, vtbs=[w])
        h.show(a, order="inorder")
        h.on("set", a)
        h.on("payout", a)
        h.best = a
    return g, h.rec


def emit_twin(sc, ops, mode, tag, save_every=1, check_every=5, corr_every=0, sp_corr=False):
    """F = finalizing instance, N = never finalizing (cfg of N: see C09.py, N is created by `instn`).
    mode: 'finx'   F is a plain instance: public finalizeBlocks() after EVERY step, saveTrees only every
                   `save_every` steps: unsaved blocks on the active chain lower the actually finalized block
                   below the requested one
          'fin'    F is a plain instance: after every step saveTrees + public finalizeBlocks()
          'loaded' F is a loaded instance (save+reload at the start): finalization runs automatically in
                   overrideTip; saveTrees after every `save_every` steps"""
    sc.add("inst N")
    sc.add("inst F")
    if mode == "loaded":
        sc.add("on F save")
        sc.add("on F reload")
    saving = True
    for i, w in enumerate(ops, 1):
        if w[0] == "nosave":
            if mode == "finy":
                sc.add("on F save")
                saving = False
            continue
        if w[0] == "finnow":
            if mode == "finy":
                sa = sc.add("on F sdump", (tag, "spre", i)) if sp_corr else None   # C09 cascade correspondence (VBK+BTC)
                a = sc.add("on F adump", (tag, "pre", i))
                sc.add("on F fin")
                sc.add("on F adump", (tag, "post", i, a))
                if sp_corr:
                    sc.add("on F sdump", (tag, "spost", i, sa))
                sc.add("on F paircheck N", (tag, "check", i))
                saving = True
            continue
        sc.add("on F pair N %s" % " ".join(w), (tag, "pair", i, w))
        if mode == "finy":
            # saveTrees often, finalizeBlocks() only at the `finnow` markers (right after an unsaved deep switch)
            if saving and i % save_every == 0:
                sc.add("on F save")
            if i % check_every == 0:
                sc.add("on F paircheck N", (tag, "check", i))
            continue
        if mode == "finx":
            if i % save_every == 0:
                sc.add("on F save")
            if corr_every and i % corr_every == 0:
                sa = sc.add("on F sdump", (tag, "spre", i)) if sp_corr else None   # C09 cascade correspondence (VBK+BTC)
                a = sc.add("on F adump", (tag, "pre", i))
                sc.add("on F fin")
                sc.add("on F adump", (tag, "post", i, a))
                if sp_corr:
                    sc.add("on F sdump", (tag, "spost", i, sa))
            else:
                sc.add("on F fin")
        elif i % save_every == 0:
            sc.add("on F save")
            if mode == "fin":
                if corr_every and (i // save_every) % corr_every == 0:
                    sa = sc.add("on F sdump", (tag, "spre", i)) if sp_corr else None   # C09 cascade correspondence (VBK+BTC)
                    a = sc.add("on F adump", (tag, "pre", i))
                    sc.add("on F fin")
                    sc.add("on F adump", (tag, "post", i, a))
                    if sp_corr:
                        sc.add("on F sdump", (tag, "spost", i, sa))
                else:
                    sc.add("on F fin")
        if i % check_every == 0:
            sc.add("on F paircheck N", (tag, "check", i))
    sc.add("on F save")
    if mode in ("fin", "finx", "finy"):
        sc.add("on F fin")
    sc.add("on F paircheck N", (tag, "check", len(ops)))
    sc.add("on F dangling", (tag, "dangling"))
    sc.add("on F final", (tag, "final"))
    sc.add("on N final", (tag, "finalN"))
    sc.add("drop F")
    sc.add("drop N")


# ---------------------------------------------------------------------------
# C09 correspondence: finalizeBlocks of the extracted model vs AltBlockTree::finalizeBlocks
import re as _re

_ALT = _re.compile(r"^ALT_(a\d+)_h=(\d+)_st=(\d+)((?:_D)?)((?:_F)?)_pl=\[([^\]]*)\]")


def num(x):
    """wire number of an id: a<n> -> n, v -> 1e6+n, w -> 2e6+n, t -> 3e6+n"""
    if not x or x[0] == "?":
        return 9999999
    base = {"a": 0, "v": 1000000, "w": 2000000, "t": 3000000, "b": 4000000}[x[0]]
    return base + int(x[1:])


def parse_adump(s):
    d = {"blocks": {}, "tips": [], "root": None, "best": None, "fp": set()}
    for l in s.split(";"):
        m = _ALT.match(l)
        if m:
            pl = [x for x in _re.split(r"[,|]", m.group(6)) if x]
            d["blocks"][m.group(1)] = dict(h=int(m.group(2)), st=int(m.group(3)), dirty=bool(m.group(4)),
                                           final=bool(m.group(5)), pl=pl)
        elif l.startswith("ALT_tips"):
            d["tips"] = [x for x in l.split("_")[2:] if x]
        elif l.startswith("ALT_root_"):
            d["root"] = l[len("ALT_root_"):]
        elif l.startswith("ALT_best_"):
            d["best"] = l[len("ALT_best_"):]
        elif l.startswith("ALT_fpidx_"):
            w = l.split("_")
            d["fp"].add("%d:%d" % (num(w[2]), num(w[-1])))
    return d


def model_fin_line(g, d, maxreorg, preserve, reverse_tips=False):
    """input line of the model driver for `fin` on the tree described by a parsed adump"""
    chain = []
    c = d["best"]
    while c is not None and c in d["blocks"]:
        chain.append(c)
        if c == d["root"]:
            break
        c = g.alt[c]["parent"]
    chain.reverse()
    tips = list(d["tips"])
    if reverse_tips:
        tips.reverse()
    bl = []
    for a, b in sorted(d["blocks"].items(), key=lambda kv: num(kv[0])):
        par = "-" if a == d["root"] else str(num(g.alt[a]["parent"]))
        bl.append("%d:%s:%d:%d:%d:%s" % (num(a), par, b["h"], 1 if b["dirty"] else 0, 1 if b["final"] else 0,
                                         ".".join(str(num(x)) for x in b["pl"]) or "-"))
    return "fin %d %d - %s %s %s" % (maxreorg, preserve, ",".join(str(num(x)) for x in chain) or "-",
                                     ",".join(str(num(x)) for x in tips) or "-", ";".join(bl))


def impl_fin_view(g, pre, post):
    """what the implementation did, in the model driver's output format"""
    chain = []
    c = post["best"]
    while c is not None and c in post["blocks"]:
        chain.append(c)
        if c == post["root"]:
            break
        c = g.alt[c]["parent"]
    chain.reverse()
    ids = sorted(num(a) for a in post["blocks"])
    fin = sorted(num(a) for a, b in post["blocks"].items() if b["final"])
    tips = sorted(num(a) for a in post["tips"])
    fp = sorted(post["fp"] - pre["fp"])
    j = lambda l: ",".join(str(x) for x in l) or "-"
    return "chain=%s blocks=%s final=%s tips=%s fp=%s" % (j([num(x) for x in chain]), j(ids), j(fin), j(tips), j(fp))


# ---------------------------------------------------------------------------
# C10 direct dirty oracle: with a save after every operation, the blocks whose PERSISTED projection differs
# between two consecutive observations must all be in the dirty set read right before the save
_PROJ = {
    "ALT": _re.compile(r"^ALT_(a\d+)_h=(\d+)_st=(\d+)(?:_D)?(?:_F)?_pl=(\[[^\]]*\])_ce=(\[[^\]]*\])"),
    "VBK": _re.compile(r"^VBK_(v\d+)_h=(\d+)_st=(\d+)(?:_D)?(?:_F)?_rc=(\d+)_vtbs=(\[[^\]]*\])_ce=(\[[^\]]*\])"),
    "BTC": _re.compile(r"^BTC_(b\d+)_h=(\d+)_st=(\d+)(?:_D)?(?:_F)?_refs=(\[[^\]]*\])"),
}


def projections(xdump):
    """{block id: persisted projection} for all three trees from an xdump"""
    out = {}
    for l in xdump.split(";"):
        rx = _PROJ.get(l[:3])
        if rx:
            m = rx.match(l)
            if m:
                out[m.group(1)] = m.groups()[1:]
    return out


def parse_dirty(s):
    """'A:a1,a2x V:- B:b1' -> set of ids (the x suffix marks a deleted block)"""
    out = set()
    for part in s.split():
        if ":" in part:
            for x in part.split(":", 1)[1].split(","):
                if x and x != "-":
                    out.add(x.rstrip("x"))
    return out


def emit_dirty_probe(sc, ops, tag, name="D", load_every=4):
    sc.add("inst %s" % name)
    sc.add("on %s save" % name)
    prev = sc.add("on %s xdump" % name, (tag, "probe0"))
    for i, w in enumerate(ops, 1):
        sc.add("on %s %s" % (name, " ".join(w)), (tag, "probeop", i, w))
        d = sc.add("on %s dirty" % name)
        sc.add("on %s save" % name)
        cur = sc.add("on %s xdump" % name, (tag, "probe", i, w, prev, d))
        if load_every and i % load_every == 0:
            sc.add("clone %s %sR" % (name, name))
            sc.add("on %sR adump" % name, (tag, "probeload", i, cur))
            sc.add("drop %sR" % name)
        prev = cur
    sc.add("drop %s" % name)


def judge_dirty_probe(sc, res):
    """-> [(tagbase, op position, op, ids changed but not dirty)]"""
    bad = []
    n = 0
    for i, tag in sc.meta.items():
        if tag[1] != "probe":
            continue
        prev, d = res.get(tag[4]), res.get(tag[5])
        cur = res.get(i)
        if prev is None or cur is None or d is None or "DEAD" in (prev, cur, d):
            continue
        a, b = projections(prev), projections(cur)
        changed = {k for k in set(a) | set(b) if a.get(k) != b.get(k)}
        dirty = parse_dirty(d)
        n += 1
        miss = sorted(changed - dirty)
        if miss:
            bad.append((tag[0], tag[2], tag[3], miss, {k: (a.get(k), b.get(k)) for k in miss[:3]}))
    return bad, n


# ---------------------------------------------------------------------------
# C10 correspondence: the extracted SaveLoad model is driven by micro-operations synthesised from the observed
# change of every ALT block per harness op; compared: status words + tip after every op, dirty set before every
# save (model dirty must be a subset of isDirty()), result of load vs a reloaded instance.
def _bits(st):
    return dict(lvl=st & 7, fblock=bool(st & 32), fpop=bool(st & 64), fchild=bool(st & 128), haspl=bool(st & 256),
                active=bool(st & 512))


def _alt_view(xdump):
    blocks = {}
    best = None
    for l in xdump.split(";"):
        m = _PROJ["ALT"].match(l)
        if m:
            pl = [x for x in _re.split(r"[,|\[\]]", m.group(4)) if x]
            ce = [x for x in m.group(5).strip("[]").split(",") if x]
            blocks[m.group(1)] = dict(st=int(m.group(3)), pl=pl, ce=ce)
        elif l.startswith("ALT_best_"):
            best = l[len("ALT_best_"):]
    return blocks, best


class MicroSynth:
    def __init__(self, g):
        self.g = g
        self.eids = {}

    def eid(self, s):
        return self.eids.setdefault(s, len(self.eids) + 1)

    def ops_for(self, before, after, best0, best1):
        out = []
        removed = sorted((a for a in before if a not in after), key=num)
        for a in sorted(after, key=num):
            b1 = after[a]
            n = num(a)
            s1 = _bits(b1["st"])
            if a in before:
                s0 = _bits(before[a]["st"])
                pl0 = before[a]["pl"]
            else:
                par = self.g.alt[a]["parent"]
                out.append("hdr %d %d" % (n, num(par)))
                pf = par in before and (before[par]["st"] & 224) != 0
                s0 = dict(lvl=1, fblock=False, fpop=False, fchild=pf, haspl=False, active=False)
                pl0 = []
            cur = dict(s0)
            for f in ("fblock", "fpop", "fchild"):
                if cur[f] and not s1[f]:
                    out.append("reval %d %s -" % (n, f))
                    cur[f] = False
            if cur["haspl"] and not s1["haspl"]:
                out.append("rmpl %d" % n)
                cur["haspl"] = False
                if not cur["fpop"]:
                    cur["lvl"] = min(cur["lvl"], 1)
            if (not cur["haspl"]) and s1["haspl"]:
                out.append("setpl %d %s" % (n, ",".join(str(num(x)) for x in b1["pl"]) or "-"))
                cur["haspl"] = True
            if s1["active"] and not cur["active"]:
                es = ",".join("%d:%d" % (self.eid(e), num(e.split(">")[0])) for e in b1["ce"]) or "-"
                out.append("apply %d %d %s" % (n, max(s1["lvl"], cur["lvl"]), es))
                cur["active"] = True
                cur["lvl"] = max(s1["lvl"], cur["lvl"])
            elif cur["active"] and not s1["active"]:
                out.append("unapply %d" % n)
                cur["active"] = False
            if s1["lvl"] > cur["lvl"]:
                if s1["lvl"] == 2 and not cur["active"]:
                    out.append("connect %d" % n)
                elif cur["active"]:
                    out.append("apply %d %d -" % (n, s1["lvl"]))
                else:
                    out.append("apply %d %d -" % (n, s1["lvl"]))
                    out.append("unapply %d" % n)
                cur["lvl"] = s1["lvl"]
            for f in ("fblock", "fpop", "fchild"):
                if s1[f] and not cur[f]:
                    out.append("inval %d %s -" % (n, f))
                    cur[f] = True
        if removed:
            out.append("remove %s" % ",".join(str(num(a)) for a in removed))
        if best1 != best0 and best1 is not None:
            out.append("settip %d" % num(best1))
        return out


def model_script_for_probe(sc, res, gens):
    """-> (lines for the model driver, expectations) from the dirty-probe observations of every history.
    gens: {tagbase: generator}"""
    lines, exp = [], []
    by_hist = {}
    for i, tag in sc.meta.items():
        if tag[1] in ("probe0", "probe", "probeload"):
            by_hist.setdefault(tag[0], []).append((i, tag))
    k = 0
    for tb, items in by_hist.items():
        g = gens.get(tb)
        if g is None:
            continue
        syn = MicroSynth(g)
        first = [x for x in items if x[1][1] == "probe0"]
        if not first or res.get(first[0][0]) in (None, "DEAD"):
            continue
        prev, best0 = _alt_view(res[first[0][0]])
        k += 1
        lines.append("h%d_i minit" % k)
        lines.append("h%d_s mop save" % k)
        steps = sorted((x for x in items if x[1][1] == "probe"), key=lambda x: x[1][2])
        loads = {x[1][2]: x[0] for x in items if x[1][1] == "probeload"}
        ok = True
        for i, tag in steps:
            cur = res.get(i)
            d = res.get(tag[5])
            if cur in (None, "DEAD") or d in (None, "DEAD"):
                break
            after, best1 = _alt_view(cur)
            pos = tag[2]
            for j, mo in enumerate(syn.ops_for(prev, after, best0, best1)):
                lines.append("h%d_%d_m%d mop %s" % (k, pos, j, mo))
                exp.append(("h%d_%d_m%d" % (k, pos, j), "mop", tb, pos, tag[3], "ok"))
            lines.append("h%d_%d_d mdirty" % (k, pos))
            exp.append(("h%d_%d_d" % (k, pos), "dirty", tb, pos, tag[3],
                        sorted(num(x) for x in parse_dirty(d.split()[0]))))
            lines.append("h%d_%d_s mop save" % (k, pos))
            lines.append("h%d_%d_t mstate" % (k, pos))
            want = "tip=%d %s" % (num(best1), ",".join(sorted("%d:%d" % (num(a), b["st"]) for a, b in after.items())) or "-")
            exp.append(("h%d_%d_t" % (k, pos), "state", tb, pos, tag[3], want))
            if pos in loads and res.get(loads[pos]) not in (None, "DEAD"):
                la, lb = _alt_view(res[loads[pos]].replace("ALT_", "ALT_"))
                lines.append("h%d_%d_l mload" % (k, pos))
                wl = "tip=%d %s" % (num(lb), ",".join(sorted("%d:%d" % (num(a), b["st"]) for a, b in la.items())) or "-")
                exp.append(("h%d_%d_l" % (k, pos), "load", tb, pos, tag[3], wl))
            prev, best0 = after, best1
    return lines, exp
