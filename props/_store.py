"""Generators and oracles shared by C09 (finalization) and C10 (save/load).

Built on props/_world.py: one WorldGen registry per history (blocks and payloads are
created once), the operation list is RECORDED (RecHistory) and then replayed on as
many fresh instances as there are save-point placements, all in one harness process.
"""
import itertools
import re

from props._world import WorldGen, History


# ---------------------------------------------------------------------------
class StoreWorldGen(WorldGen):
    """WorldGen whose honest bodies respect a small VBK settlement interval: a VTB only endorses a VBK block
    that is within vbk_settle of its containing block (otherwise the honest miner itself rejects it)."""

    def honest_block(self, parent, n_atv=None, n_vtb=None, empty_chance=(1, 3)):
        r = self.r
        aid = self.new_alt(parent)
        if r.chance(*empty_chance):
            self.set_pd(aid)
            return aid
        anc = self.ancestry(aid)[:-1]
        h = self.alt[aid]["height"]
        cands = [x for x in anc if x != "a0" and h - self.alt[x]["height"] <= self.settle()]
        atvs = []
        k = n_atv if n_atv is not None else r.below(3)
        # endorsements at every distance 1..settle; the boundary (distance == settlement interval, the oldest
        # endorsement the live rule `containing - endorsed > settle => expired` still accepts) is chosen often
        boundary = [x for x in cands if h - self.alt[x]["height"] == self.settle()]
        for _ in range(k):
            if not cands:
                break
            e = r.choice(boundary) if boundary and r.chance(1, 3) else r.choice(cands)
            atvs.append(self.make_atv(e, payout=r.choice(["010203", "aabb", "cc"])))
        vtbs = []
        k = n_vtb if n_vtb is not None else r.below(2)
        vs = self.cfg.get("vbk_settle", 400)
        for _ in range(k):
            known = sorted(self.alt[parent]["kv"], key=lambda v: int(v[1:]))
            ch = self.vbk[self.vtip]["height"] + 1          # height of the containing VBK block
            lo = ch - min(vs, 12)
            pool = [v for v in known if self.vbk[v]["height"] >= lo]
            if not pool:
                break
            vb = [v for v in pool if ch - self.vbk[v]["height"] == vs]
            e = r.choice(vb) if vb and r.chance(1, 2) else r.choice(pool)
            kb = set(self.alt[parent]["kb"])
            for w in vtbs:
                kb |= set(self.vtb[w]["bctx"])
            last = max(kb, key=lambda b: (self.btc[b]["height"], -int(b[1:])))
            vtbs.append(self.make_vtb(e, last))
        self.set_pd(aid, atvs=atvs, vtbs=vtbs)
        return aid


def registry_mismatches(gen, res, ids):
    """registry lines whose answer differs from the generator's prediction (id assignment out of step)"""
    bad = []
    for i, l, e in zip(ids, gen.lines, gen.expect):
        if e is not None and res.get(i) != e:
            bad.append((l, e, res.get(i)))
    return bad


class RecHistory(History):
    """History that records the instance operations instead of emitting them"""

    def __init__(self, gen):
        History.__init__(self, gen, inst="@")
        self.rec = []

    def on(self, *words):
        self.rec.append(tuple(words))
        self.ops[words[0]] = self.ops.get(words[0], 0) + 1


def bad_block(gen, hist, parent, kind):
    """a block whose body is contextually invalid:
       dup   - re-uses an ATV that an ancestor already carries (stateful duplicate -> FAILED_POP at connect)
       noctx - ATV whose block of proof is missing from the context (fails when applied -> FAILED_POP)"""
    r = gen.r
    aid = gen.new_alt(parent)
    anc = gen.ancestry(aid)[:-1]
    if kind == "dup":
        pool = [t for x in anc for t in gen.alt[x]["atvs"]]
        if pool:
            t = r.choice(pool)
            gen.set_pd(aid, atvs=[t], ctx=[])
            return aid
        kind = "noctx"
    cands = [x for x in anc if x != "a0" and gen.alt[aid]["height"] - gen.alt[x]["height"] <= gen.settle()]
    if not cands:
        gen.set_pd(aid)
        return aid
    t = gen.make_atv(r.choice(cands))
    gen.set_pd(aid, atvs=[t], ctx=[])
    return aid


def gen_history(rng, cfg, nsteps, bad_chance=(1, 6), f9_chance=(1, 3)):
    """-> (gen, ops): registry script in gen.lines, recorded instance ops"""
    g = StoreWorldGen(rng, cfg)
    h = RecHistory(g)
    r = rng
    if r.chance(*f9_chance):
        # the F9 shape first: header P, header C, body C, ..., body P
        p = g.honest_block("a0", empty_chance=(1, 2))
        c = g.honest_block(p, empty_chance=(1, 2))
        h.on("hdr", p); h.hdr.add(p)
        h.on("hdr", c); h.hdr.add(c)
        h.on("body", c); h.body.add(c)
        h.on("body", p); h.body.add(p)
        if r.chance(1, 2):
            h.on("set", c)
    for _ in range(nsteps):
        if r.chance(*bad_chance):
            a = bad_block(g, h, h.pick_parent(), r.choice(["dup", "noctx"]))
            h.show(a)
            if r.chance(1, 2):
                h.on("set", a)
            continue
        h.step()
    return g, h.rec


def tail_ops(g, rng, k=6):
    """follow-up behaviour: cmp/set/payout on several candidates"""
    ids = sorted(g.alt, key=lambda a: (-g.alt[a]["height"], int(a[1:])))
    cands = ids[:3] + [rng.choice(ids) for _ in range(3)]
    out = []
    for c in cands[:k]:
        out.append(("cmp", c))
    for c in cands[:3]:
        out.append(("set", c))
        out.append(("payout", c))
        out.append(("cmp", rng.choice(ids)))
    return out


def placements(n, kmax, rng, limit):
    """save-point placements: subsets of positions 1..n (save AFTER the i-th op) of size 1..kmax.
    All of them when there are at most `limit`, else a seeded sample (always including every single position)."""
    allp = []
    for k in range(1, kmax + 1):
        allp += list(itertools.combinations(range(1, n + 1), k))
    if len(allp) <= limit:
        return allp, True
    singles = [p for p in allp if len(p) == 1]
    rest = [p for p in allp if len(p) > 1]
    rng.shuffle(rest)
    return singles + rest[:max(0, limit - len(singles))], False


# ---------------------------------------------------------------------------
class Script:
    def __init__(self, prefix="c"):
        self.lines = []
        self.meta = {}     # id -> tag
        self.prefix = prefix

    def add(self, text, tag=None):
        i = "%s%d" % (self.prefix, len(self.lines) + 1)
        self.lines.append("%s %s" % (i, text))
        if tag is not None:
            self.meta[i] = tag
        return i


def emit_registry(sc, g):
    ids = [sc.add(l) for l in g.lines]
    sc.registries = getattr(sc, "registries", []) + [(g, ids)]
    return ids


def check_registries(sc, res):
    bad = []
    for g, ids in getattr(sc, "registries", []):
        bad += registry_mismatches(g, res, ids)
    return bad


def emit_placement(sc, ops, tail, saves, tagbase, name="P", dump="xdump"):
    """replay `ops` on a fresh instance `name` with a save after each position in `saves`;
    at every save: snapshot -> reloaded instance R<k> (crash model) that follows the live
    instance from then on. Tags let the checker pair the answers."""
    sc.add("inst %s" % name)
    rel = []
    saves = set(saves)

    def both(words, pos):
        a = sc.add("on %s %s" % (name, " ".join(words)), (tagbase, "live", pos, words))
        for rn in rel:
            sc.add("on %s %s" % (rn, " ".join(words)), (tagbase, "rel", rn, pos, words, a))

    for i, w in enumerate(ops, 1):
        both(w, i)
        if i in saves:
            k = len(rel)
            sc.add("on %s dirty" % name, (tagbase, "dirty", k, i))
            sc.add("on %s save" % name)
            # the loaded twins save too (they own a copy of the storage)
            for rn in rel:
                sc.add("on %s save" % rn)
            rn = "%sR%d" % (name, k)
            sc.add("clone %s %s" % (name, rn), (tagbase, "load", k, i))
            a = sc.add("on %s %s" % (name, dump), (tagbase, "dumpL", k, i))
            sc.add("on %s %s" % (rn, dump), (tagbase, "dumpR", k, i, a))
            rel.append(rn)
    for j, w in enumerate(tail):
        both(w, len(ops) + 1 + j)
    a = sc.add("on %s %s" % (name, dump), (tagbase, "finalL"))
    for rn in rel:
        sc.add("on %s %s" % (rn, dump), (tagbase, "finalR", rn, a))
    sc.add("drop %s" % name)
    for rn in rel:
        sc.add("drop %s" % rn)


# ---------------------------------------------------------------------------
# persisted-equivalence: canonical form of an xdump for comparing a live instance with a reloaded one
def canon_dump(s, drop_final=False):
    """set of observation lines with the memory-only marks removed:
       ' D' (dirty: reset by load / set again by loadTip's setFlag+raiseValidity) is dropped;
       ' F' (finalized, memory only: after a load only the bootstrap root is final) is dropped iff drop_final"""
    out = set()
    for l in s.split(";"):
        if not l:
            continue
        l = l.replace("_D_", "_").replace("_D;", ";")
        l = re.sub(r"_D(?=_|$)", "", l)
        if drop_final:
            l = re.sub(r"_F(?=_|$)", "", l)
        out.add(l)
    return out


def diff_dumps(a, b, drop_final=False):
    A, B = canon_dump(a, drop_final), canon_dump(b, drop_final)
    return sorted(A - B), sorted(B - A)


# ---------------------------------------------------------------------------
# C09: twin histories (F finalizes, N never does)
class TwinHistory(RecHistory):
    """long, mostly growing history with short forks around the finalization horizon"""

    def __init__(self, gen, maxreorg, macro=False):
        RecHistory.__init__(self, gen)
        self.maxreorg = maxreorg
        self.macro = macro     # emit "unsaved deep switch, then finalize" sequences (mode finy)
        self.best = "a0"       # the generator's idea of the active tip (only a heuristic)

    def chain_back(self, a, k):
        anc = self.g.ancestry(a)
        return anc[max(0, len(anc) - 1 - k)]

    def step(self):
        r = self.r
        g = self.g
        k = r.below(100)
        ids = sorted(g.alt, key=lambda a: int(a[1:]))
        if self.macro and g.alt[self.best]["height"] > self.maxreorg + 6 and r.chance(1, 10):
            # requested final block != actually finalized block: a fork next to the requested block (tip - maxreorg),
            # then - without saving - a switch to a block forking below the requested block and back (re-dirties the
            # active chain from there), then finalizeBlocks(): the final block is lowered to the lowest unsaved block
            sib = g.honest_block(self.chain_back(self.best, self.maxreorg + 1), n_atv=0, n_vtb=0, empty_chance=(1, 1))
            self.show(sib)
            self.rec.append(("nosave",))
            deep = g.honest_block(self.chain_back(self.best, r.range(self.maxreorg + 2, self.maxreorg + 4)),
                                  n_atv=0, n_vtb=0, empty_chance=(1, 1))
            self.show(deep)
            self.on("set", deep)
            self.on("set", self.best)
            self.rec.append(("finnow",))
            self.on("cmp", sib)
            return
        if k < 50:
            a = g.honest_block(self.best)
            self.show(a, order="inorder" if r.chance(2, 3) else "random")
            self.on("set", a)
            self.on("payout", a)
            self.best = a
            return
        if k < 56 and r.chance(1, 2):
            # a one-block fork hanging off the chain right around the requested final block (tip - maxreorg):
            # siblings of the requested / of the actually finalized block
            depth = r.range(self.maxreorg - 1, self.maxreorg + 2)
            a = g.honest_block(self.chain_back(self.best, depth), n_atv=0, n_vtb=0, empty_chance=(1, 1))
            self.show(a)
            return
        if k < 64:
            # fork from a block up to maxreorg+3 behind the tip: above, at and below the final block
            depth = r.range(1, self.maxreorg + 3)
            p = self.chain_back(self.best, depth)
            a = g.honest_block(p)
            n = r.range(0, 2)
            for _ in range(n):
                a = g.honest_block(a)
            self.show(a)
            self.on("cmp", a)
            if r.chance(1, 3):
                self.on("set", a)
                self.on("set", self.best)
            return
        if k < 73:
            # a block that repeats a payload of an ancestor far below the tip (possibly finalized / deallocated):
            # stateful duplicate -> BLOCK_FAILED_POP at connect on both twins (finalized payload index in F)
            a = bad_block(g, self, self.best, "dup")
            self.show(a, order="inorder")
            self.on("cmp", a)
            return
        if k < 80:
            self.on("cmp", r.choice(ids[-12:] if r.chance(2, 3) else ids))
            return
        if k < 86:
            x = r.choice(ids[-10:])
            self.on("inv", x)
            if r.chance(1, 2):
                self.on("cmp", r.choice(ids[-10:]))
            self.on("reval", x)
            self.on("set", self.best)
            return
        if k < 90:
            x = r.choice(ids[-10:])
            if x != "a0" and x not in g.ancestry(self.best):
                self.on("rm", x)
            return
        if k < 94:
            self.on("set", r.choice(ids[-10:]))
            self.on("set", self.best)
            return
        self.on("payout", self.best)


def gen_twin(rng, cfg, nsteps, macro=False):
    g = StoreWorldGen(rng, cfg)
    h = TwinHistory(g, cfg.get("alt_maxreorg", 8), macro=macro)
    for _ in range(nsteps):
        h.step()
    return g, h.rec


def gen_twin_drought(rng, cfg, nsteps, late_every=5):
    """VBK context runs far ahead of the last BTC reference: after a short start no VTB is DELIVERED any more (the
    BTC tip of the instances does not advance, VBK finalization stays bounded by the lowest VBK height that
    references it), but VTBs keep being CREATED for then-recent VBK blocks; at the end they arrive late, in
    creation order, each in its own ALT block - their containing VBK blocks lie far below the VBK tip."""
    g = StoreWorldGen(rng, cfg)
    h = TwinHistory(g, cfg.get("alt_maxreorg", 8))
    r = rng
    vs = cfg.get("vbk_settle", 400)
    stash = []
    for i in range(nsteps):
        a = g.honest_block(h.best, n_vtb=(None if i < 3 else 0), empty_chance=(1, 6))
        h.show(a, order="inorder")
        h.on("set", a)
        h.on("payout", a)
        h.best = a
        if r.chance(1, 6):
            # a short fork without VTBs, compared and left behind
            f = g.honest_block(h.chain_back(h.best, r.range(1, 4)), n_vtb=0)
            h.show(f)
            h.on("cmp", f)
        if i >= 3 and i % late_every == 0:
            known = sorted(g.alt[h.best]["kv"], key=lambda v: int(v[1:]))
            ch = g.vbk[g.vtip]["height"] + 1
            pool = [v for v in known if ch - g.vbk[v]["height"] <= min(vs, 8)]
            if pool:
                stash.append(g.make_vtb(r.choice(pool), g.best_known_btc(h.best)))
    for w in stash:
        a = g.new_alt(h.best)
        g.set_pd(a, vtbs=[w])
        h.show(a, order="inorder")
        h.on("set", a)
        h.on("payout", a)
        h.best = a
    return g, h.rec


def emit_twin(sc, ops, mode, tag, save_every=1, check_every=5, corr_every=0):
    """F = finalizing instance, N = never finalizing (cfg of N: see C09.py, N is created by `instn`).
    mode: 'finx'   F is a plain instance: public finalizeBlocks() after EVERY step, saveTrees only every
                   `save_every` steps: unsaved blocks on the active chain lower the actually finalized block
                   below the requested one
          'fin'    F is a plain instance: after every step saveTrees + public finalizeBlocks()
          'loaded' F is a loaded instance (save+reload at the start): finalization runs automatically in
                   overrideTip; saveTrees after every `save_every` steps"""
    sc.add("inst N")
    sc.add("inst F")
    if mode == "loaded":
        sc.add("on F save")
        sc.add("on F reload")
    saving = True
    for i, w in enumerate(ops, 1):
        if w[0] == "nosave":
            if mode == "finy":
                sc.add("on F save")
                saving = False
            continue
        if w[0] == "finnow":
            if mode == "finy":
                a = sc.add("on F adump", (tag, "pre", i))
                sc.add("on F fin")
                sc.add("on F adump", (tag, "post", i, a))
                sc.add("on F paircheck N", (tag, "check", i))
                saving = True
            continue
        sc.add("on F pair N %s" % " ".join(w), (tag, "pair", i, w))
        if mode == "finy":
            # saveTrees often, finalizeBlocks() only at the `finnow` markers (right after an unsaved deep switch)
            if saving and i % save_every == 0:
                sc.add("on F save")
            if i % check_every == 0:
                sc.add("on F paircheck N", (tag, "check", i))
            continue
        if mode == "finx":
            if i % save_every == 0:
                sc.add("on F save")
            if corr_every and i % corr_every == 0:
                a = sc.add("on F adump", (tag, "pre", i))
                sc.add("on F fin")
                sc.add("on F adump", (tag, "post", i, a))
            else:
                sc.add("on F fin")
        elif i % save_every == 0:
            sc.add("on F save")
            if mode == "fin":
                if corr_every and (i // save_every) % corr_every == 0:
                    a = sc.add("on F adump", (tag, "pre", i))
                    sc.add("on F fin")
                    sc.add("on F adump", (tag, "post", i, a))
                else:
                    sc.add("on F fin")
        if i % check_every == 0:
            sc.add("on F paircheck N", (tag, "check", i))
    sc.add("on F save")
    if mode in ("fin", "finx", "finy"):
        sc.add("on F fin")
    sc.add("on F paircheck N", (tag, "check", len(ops)))
    sc.add("on F dangling", (tag, "dangling"))
    sc.add("on F final", (tag, "final"))
    sc.add("on N final", (tag, "finalN"))
    sc.add("drop F")
    sc.add("drop N")


# ---------------------------------------------------------------------------
# C09 correspondence: finalizeBlocks of the extracted model vs AltBlockTree::finalizeBlocks
import re as _re

_ALT = _re.compile(r"^ALT_(a\d+)_h=(\d+)_st=(\d+)((?:_D)?)((?:_F)?)_pl=\[([^\]]*)\]")


def num(x):
    """wire number of an id: a<n> -> n, v -> 1e6+n, w -> 2e6+n, t -> 3e6+n"""
    if not x or x[0] == "?":
        return 9999999
    base = {"a": 0, "v": 1000000, "w": 2000000, "t": 3000000, "b": 4000000}[x[0]]
    return base + int(x[1:])


def parse_adump(s):
    d = {"blocks": {}, "tips": [], "root": None, "best": None, "fp": set()}
    for l in s.split(";"):
        m = _ALT.match(l)
        if m:
            pl = [x for x in _re.split(r"[,|]", m.group(6)) if x]
            d["blocks"][m.group(1)] = dict(h=int(m.group(2)), st=int(m.group(3)), dirty=bool(m.group(4)),
                                           final=bool(m.group(5)), pl=pl)
        elif l.startswith("ALT_tips"):
            d["tips"] = [x for x in l.split("_")[2:] if x]
        elif l.startswith("ALT_root_"):
            d["root"] = l[len("ALT_root_"):]
        elif l.startswith("ALT_best_"):
            d["best"] = l[len("ALT_best_"):]
        elif l.startswith("ALT_fpidx_"):
            w = l.split("_")
            d["fp"].add("%d:%d" % (num(w[2]), num(w[-1])))
    return d


def model_fin_line(g, d, maxreorg, preserve, reverse_tips=False):
    """input line of the model driver for `fin` on the tree described by a parsed adump"""
    chain = []
    c = d["best"]
    while c is not None and c in d["blocks"]:
        chain.append(c)
        if c == d["root"]:
            break
        c = g.alt[c]["parent"]
    chain.reverse()
    tips = list(d["tips"])
    if reverse_tips:
        tips.reverse()
    bl = []
    for a, b in sorted(d["blocks"].items(), key=lambda kv: num(kv[0])):
        par = "-" if a == d["root"] else str(num(g.alt[a]["parent"]))
        bl.append("%d:%s:%d:%d:%d:%s" % (num(a), par, b["h"], 1 if b["dirty"] else 0, 1 if b["final"] else 0,
                                         ".".join(str(num(x)) for x in b["pl"]) or "-"))
    return "fin %d %d - %s %s %s" % (maxreorg, preserve, ",".join(str(num(x)) for x in chain) or "-",
                                     ",".join(str(num(x)) for x in tips) or "-", ";".join(bl))


def impl_fin_view(g, pre, post):
    """what the implementation did, in the model driver's output format"""
    chain = []
    c = post["best"]
    while c is not None and c in post["blocks"]:
        chain.append(c)
        if c == post["root"]:
            break
        c = g.alt[c]["parent"]
    chain.reverse()
    ids = sorted(num(a) for a in post["blocks"])
    fin = sorted(num(a) for a, b in post["blocks"].items() if b["final"])
    tips = sorted(num(a) for a in post["tips"])
    fp = sorted(post["fp"] - pre["fp"])
    j = lambda l: ",".join(str(x) for x in l) or "-"
    return "chain=%s blocks=%s final=%s tips=%s fp=%s" % (j([num(x) for x in chain]), j(ids), j(fin), j(tips), j(fp))


# ---------------------------------------------------------------------------
# C10 direct dirty oracle: with a save after every operation, the blocks whose PERSISTED projection differs
# between two consecutive observations must all be in the dirty set read right before the save
_PROJ = {
    "ALT": _re.compile(r"^ALT_(a\d+)_h=(\d+)_st=(\d+)(?:_D)?(?:_F)?_pl=(\[[^\]]*\])_ce=(\[[^\]]*\])"),
    "VBK": _re.compile(r"^VBK_(v\d+)_h=(\d+)_st=(\d+)(?:_D)?(?:_F)?_rc=(\d+)_vtbs=(\[[^\]]*\])_ce=(\[[^\]]*\])"),
    "BTC": _re.compile(r"^BTC_(b\d+)_h=(\d+)_st=(\d+)(?:_D)?(?:_F)?_refs=(\[[^\]]*\])"),
}


def projections(xdump):
    """{block id: persisted projection} for all three trees from an xdump"""
    out = {}
    for l in xdump.split(";"):
        rx = _PROJ.get(l[:3])
        if rx:
            m = rx.match(l)
            if m:
                out[m.group(1)] = m.groups()[1:]
    return out


def parse_dirty(s):
    """'A:a1,a2x V:- B:b1' -> set of ids (the x suffix marks a deleted block)"""
    out = set()
    for part in s.split():
        if ":" in part:
            for x in part.split(":", 1)[1].split(","):
                if x and x != "-":
                    out.add(x.rstrip("x"))
    return out


def emit_dirty_probe(sc, ops, tag, name="D", load_every=4):
    sc.add("inst %s" % name)
    sc.add("on %s save" % name)
    prev = sc.add("on %s xdump" % name, (tag, "probe0"))
    for i, w in enumerate(ops, 1):
        sc.add("on %s %s" % (name, " ".join(w)), (tag, "probeop", i, w))
        d = sc.add("on %s dirty" % name)
        sc.add("on %s save" % name)
        cur = sc.add("on %s xdump" % name, (tag, "probe", i, w, prev, d))
        if load_every and i % load_every == 0:
            sc.add("clone %s %sR" % (name, name))
            sc.add("on %sR adump" % name, (tag, "probeload", i, cur))
            sc.add("drop %sR" % name)
        prev = cur
    sc.add("drop %s" % name)


def judge_dirty_probe(sc, res):
    """-> [(tagbase, op position, op, ids changed but not dirty)]"""
    bad = []
    n = 0
    for i, tag in sc.meta.items():
        if tag[1] != "probe":
            continue
        prev, d = res.get(tag[4]), res.get(tag[5])
        cur = res.get(i)
        if prev is None or cur is None or d is None or "DEAD" in (prev, cur, d):
            continue
        a, b = projections(prev), projections(cur)
        changed = {k for k in set(a) | set(b) if a.get(k) != b.get(k)}
        dirty = parse_dirty(d)
        n += 1
        miss = sorted(changed - dirty)
        if miss:
            bad.append((tag[0], tag[2], tag[3], miss, {k: (a.get(k), b.get(k)) for k in miss[:3]}))
    return bad, n


# ---------------------------------------------------------------------------
# C10 correspondence: the extracted SaveLoad model is driven by micro-operations synthesised from the observed
# change of every ALT block per harness op; compared: status words + tip after every op, dirty set before every
# save (model dirty must be a subset of isDirty()), result of load vs a reloaded instance.
def _bits(st):
    return dict(lvl=st & 7, fblock=bool(st & 32), fpop=bool(st & 64), fchild=bool(st & 128), haspl=bool(st & 256),
                active=bool(st & 512))


def _alt_view(xdump):
    blocks = {}
    best = None
    for l in xdump.split(";"):
        m = _PROJ["ALT"].match(l)
        if m:
            pl = [x for x in _re.split(r"[,|\[\]]", m.group(4)) if x]
            ce = [x for x in m.group(5).strip("[]").split(",") if x]
            blocks[m.group(1)] = dict(st=int(m.group(3)), pl=pl, ce=ce)
        elif l.startswith("ALT_best_"):
            best = l[len("ALT_best_"):]
    return blocks, best


class MicroSynth:
    def __init__(self, g):
        self.g = g
        self.eids = {}

    def eid(self, s):
        return self.eids.setdefault(s, len(self.eids) + 1)

    def ops_for(self, before, after, best0, best1):
        out = []
        removed = sorted((a for a in before if a not in after), key=num)
        for a in sorted(after, key=num):
            b1 = after[a]
            n = num(a)
            s1 = _bits(b1["st"])
            if a in before:
                s0 = _bits(before[a]["st"])
                pl0 = before[a]["pl"]
            else:
                par = self.g.alt[a]["parent"]
                out.append("hdr %d %d" % (n, num(par)))
                pf = par in before and (before[par]["st"] & 224) != 0
                s0 = dict(lvl=1, fblock=False, fpop=False, fchild=pf, haspl=False, active=False)
                pl0 = []
            cur = dict(s0)
            for f in ("fblock", "fpop", "fchild"):
                if cur[f] and not s1[f]:
                    out.append("reval %d %s -" % (n, f))
                    cur[f] = False
            if cur["haspl"] and not s1["haspl"]:
                out.append("rmpl %d" % n)
                cur["haspl"] = False
                if not cur["fpop"]:
                    cur["lvl"] = min(cur["lvl"], 1)
            if (not cur["haspl"]) and s1["haspl"]:
                out.append("setpl %d %s" % (n, ",".join(str(num(x)) for x in b1["pl"]) or "-"))
                cur["haspl"] = True
            if s1["active"] and not cur["active"]:
                es = ",".join("%d:%d" % (self.eid(e), num(e.split(">")[0])) for e in b1["ce"]) or "-"
                out.append("apply %d %d %s" % (n, max(s1["lvl"], cur["lvl"]), es))
                cur["active"] = True
                cur["lvl"] = max(s1["lvl"], cur["lvl"])
            elif cur["active"] and not s1["active"]:
                out.append("unapply %d" % n)
                cur["active"] = False
            if s1["lvl"] > cur["lvl"]:
                if s1["lvl"] == 2 and not cur["active"]:
                    out.append("connect %d" % n)
                elif cur["active"]:
                    out.append("apply %d %d -" % (n, s1["lvl"]))
                else:
                    out.append("apply %d %d -" % (n, s1["lvl"]))
                    out.append("unapply %d" % n)
                cur["lvl"] = s1["lvl"]
            for f in ("fblock", "fpop", "fchild"):
                if s1[f] and not cur[f]:
                    out.append("inval %d %s -" % (n, f))
                    cur[f] = True
        if removed:
            out.append("remove %s" % ",".join(str(num(a)) for a in removed))
        if best1 != best0 and best1 is not None:
            out.append("settip %d" % num(best1))
        return out


def model_script_for_probe(sc, res, gens):
    """-> (lines for the model driver, expectations) from the dirty-probe observations of every history.
    gens: {tagbase: generator}"""
    lines, exp = [], []
    by_hist = {}
    for i, tag in sc.meta.items():
        if tag[1] in ("probe0", "probe", "probeload"):
            by_hist.setdefault(tag[0], []).append((i, tag))
    k = 0
    for tb, items in by_hist.items():
        g = gens.get(tb)
        if g is None:
            continue
        syn = MicroSynth(g)
        first = [x for x in items if x[1][1] == "probe0"]
        if not first or res.get(first[0][0]) in (None, "DEAD"):
            continue
        prev, best0 = _alt_view(res[first[0][0]])
        k += 1
        lines.append("h%d_i minit" % k)
        lines.append("h%d_s mop save" % k)
        steps = sorted((x for x in items if x[1][1] == "probe"), key=lambda x: x[1][2])
        loads = {x[1][2]: x[0] for x in items if x[1][1] == "probeload"}
        ok = True
        for i, tag in steps:
            cur = res.get(i)
            d = res.get(tag[5])
            if cur in (None, "DEAD") or d in (None, "DEAD"):
                break
            after, best1 = _alt_view(cur)
            pos = tag[2]
            for j, mo in enumerate(syn.ops_for(prev, after, best0, best1)):
                lines.append("h%d_%d_m%d mop %s" % (k, pos, j, mo))
                exp.append(("h%d_%d_m%d" % (k, pos, j), "mop", tb, pos, tag[3], "ok"))
            lines.append("h%d_%d_d mdirty" % (k, pos))
            exp.append(("h%d_%d_d" % (k, pos), "dirty", tb, pos, tag[3],
                        sorted(num(x) for x in parse_dirty(d.split()[0]))))
            lines.append("h%d_%d_s mop save" % (k, pos))
            lines.append("h%d_%d_t mstate" % (k, pos))
            want = "tip=%d %s" % (num(best1), ",".join(sorted("%d:%d" % (num(a), b["st"]) for a, b in after.items())) or "-")
            exp.append(("h%d_%d_t" % (k, pos), "state", tb, pos, tag[3], want))
            if pos in loads and res.get(loads[pos]) not in (None, "DEAD"):
                la, lb = _alt_view(res[loads[pos]].replace("ALT_", "ALT_"))
                lines.append("h%d_%d_l mload" % (k, pos))
                wl = "tip=%d %s" % (num(lb), ",".join(sorted("%d:%d" % (num(a), b["st"]) for a, b in la.items())) or "-")
                exp.append(("h%d_%d_l" % (k, pos), "load", tb, pos, tag[3], wl))
            prev, best0 = after, best1
    return lines, exp
