"""Generators and oracles shared by C09 (finalization) and C10 (save/load).

Built on props/_world.py: one WorldGen registry per history (blocks and payloads are
created once), the operation list is RECORDED (RecHistory) and then replayed on as
many fresh instances as there are save-point placements, all in one harness process.
"""
import itertools
import re

from props._world import WorldGen, History


# ---------------------------------------------------------------------------
class RecHistory(History):
    """History that records the instance operations instead of emitting them"""

    def __init__(self, gen):
        History.__init__(self, gen, inst="@")
        self.rec = []

    def on(self, *words):
        self.rec.append(tuple(words))
        self.ops[words[0]] = self.ops.get(words[0], 0) + 1


def bad_block(gen, hist, parent, kind):
    """a block whose body is contextually invalid:
       dup   - re-uses an ATV that an ancestor already carries (stateful duplicate -> FAILED_POP at connect)
       noctx - ATV whose block of proof is missing from the context (fails when applied -> FAILED_POP)"""
    r = gen.r
    aid = gen.new_alt(parent)
    anc = gen.ancestry(aid)[:-1]
    if kind == "dup":
        pool = [t for x in anc for t in gen.alt[x]["atvs"]]
        if pool:
            t = r.choice(pool)
            gen.set_pd(aid, atvs=[t], ctx=[])
            return aid
        kind = "noctx"
    cands = [x for x in anc if x != "a0" and gen.alt[aid]["height"] - gen.alt[x]["height"] <= gen.settle()]
    if not cands:
        gen.set_pd(aid)
        return aid
    t = gen.make_atv(r.choice(cands))
    gen.set_pd(aid, atvs=[t], ctx=[])
    return aid


def gen_history(rng, cfg, nsteps, bad_chance=(1, 6), f9_chance=(1, 3)):
    """-> (gen, ops): registry script in gen.lines, recorded instance ops"""
    g = WorldGen(rng, cfg)
    h = RecHistory(g)
    r = rng
    if r.chance(*f9_chance):
        # the F9 shape first: header P, header C, body C, ..., body P
        p = g.honest_block("a0", empty_chance=(1, 2))
        c = g.honest_block(p, empty_chance=(1, 2))
        h.on("hdr", p); h.hdr.add(p)
        h.on("hdr", c); h.hdr.add(c)
        h.on("body", c); h.body.add(c)
        h.on("body", p); h.body.add(p)
        if r.chance(1, 2):
            h.on("set", c)
    for _ in range(nsteps):
        if r.chance(*bad_chance):
            a = bad_block(g, h, h.pick_parent(), r.choice(["dup", "noctx"]))
            h.show(a)
            if r.chance(1, 2):
                h.on("set", a)
            continue
        h.step()
    return g, h.rec


def tail_ops(g, rng, k=6):
    """follow-up behaviour: cmp/set/payout on several candidates"""
    ids = sorted(g.alt, key=lambda a: (-g.alt[a]["height"], int(a[1:])))
    cands = ids[:3] + [rng.choice(ids) for _ in range(3)]
    out = []
    for c in cands[:k]:
        out.append(("cmp", c))
    for c in cands[:3]:
        out.append(("set", c))
        out.append(("payout", c))
        out.append(("cmp", rng.choice(ids)))
    return out


def placements(n, kmax, rng, limit):
    """save-point placements: subsets of positions 1..n (save AFTER the i-th op) of size 1..kmax.
    All of them when there are at most `limit`, else a seeded sample (always including every single position)."""
    allp = []
    for k in range(1, kmax + 1):
        allp += list(itertools.combinations(range(1, n + 1), k))
    if len(allp) <= limit:
        return allp, True
    singles = [p for p in allp if len(p) == 1]
    rest = [p for p in allp if len(p) > 1]
    rng.shuffle(rest)
    return singles + rest[:max(0, limit - len(singles))], False


# ---------------------------------------------------------------------------
class Script:
    def __init__(self, prefix="c"):
        self.lines = []
        self.meta = {}     # id -> tag
        self.prefix = prefix

    def add(self, text, tag=None):
        i = "%s%d" % (self.prefix, len(self.lines) + 1)
        self.lines.append("%s %s" % (i, text))
        if tag is not None:
            self.meta[i] = tag
        return i


def emit_registry(sc, g):
    for l in g.lines:
        sc.add(l)


def emit_placement(sc, ops, tail, saves, tagbase, name="P", dump="xdump"):
    """replay `ops` on a fresh instance `name` with a save after each position in `saves`;
    at every save: snapshot -> reloaded instance R<k> (crash model) that follows the live
    instance from then on. Tags let the checker pair the answers."""
    sc.add("inst %s" % name)
    rel = []
    saves = set(saves)

    def both(words, pos):
        a = sc.add("on %s %s" % (name, " ".join(words)), (tagbase, "live", pos, words))
        for rn in rel:
            sc.add("on %s %s" % (rn, " ".join(words)), (tagbase, "rel", rn, pos, words, a))

    for i, w in enumerate(ops, 1):
        both(w, i)
        if i in saves:
            k = len(rel)
            sc.add("on %s dirty" % name, (tagbase, "dirty", k, i))
            sc.add("on %s save" % name)
            # the loaded twins save too (they own a copy of the storage)
            for rn in rel:
                sc.add("on %s save" % rn)
            rn = "%sR%d" % (name, k)
            sc.add("clone %s %s" % (name, rn), (tagbase, "load", k, i))
            a = sc.add("on %s %s" % (name, dump), (tagbase, "dumpL", k, i))
            sc.add("on %s %s" % (rn, dump), (tagbase, "dumpR", k, i, a))
            rel.append(rn)
    for j, w in enumerate(tail):
        both(w, len(ops) + 1 + j)
    a = sc.add("on %s %s" % (name, dump), (tagbase, "finalL"))
    for rn in rel:
        sc.add("on %s %s" % (rn, dump), (tagbase, "finalR", rn, a))
    sc.add("drop %s" % name)
    for rn in rel:
        sc.add("drop %s" % rn)


# ---------------------------------------------------------------------------
# persisted-equivalence: canonical form of an xdump for comparing a live instance with a reloaded one
def canon_dump(s, drop_final=False):
    """set of observation lines with the memory-only marks removed:
       ' D' (dirty: reset by load / set again by loadTip's setFlag+raiseValidity) is dropped;
       ' F' (finalized, memory only: after a load only the bootstrap root is final) is dropped iff drop_final"""
    out = set()
    for l in s.split(";"):
        if not l:
            continue
        l = l.replace("_D_", "_").replace("_D;", ";")
        l = re.sub(r"_D(?=_|$)", "", l)
        if drop_final:
            l = re.sub(r"_F(?=_|$)", "", l)
        out.add(l)
    return out


def diff_dumps(a, b, drop_final=False):
    A, B = canon_dump(a, drop_final), canon_dump(b, drop_final)
    return sorted(A - B), sorted(B - A)
