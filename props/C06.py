"""C06 — untrusted bytes never crash, over-read or exhaust the parser/validators."""
import os
import vlib
from props import _serde as S

LEVEL = "proof"
HARNESSES = [("h_serde", "asan"), ("h_serde", "rel")]
ASSUMPTIONS = [
    "theorems about decoders that contain an Address quantify over the external address normalisation addr_norm and carry "
    "the premise addr_norm_sound (type byte, at most VBK_ADDRESS_SIZE bytes, idempotent); the premise is discharged for the "
    "concrete addr_norm_c18 of the C18 address model (C06_addr_norm_sound_discharged, C06_parse_total_*_concrete); the driver "
    "instantiates it with the real base58/base59 + sha256 logic",
    "memory safety of the compiled code is OBSERVED (ASan+UBSan build of the library and harness, exactly-sized heap "
    "buffers), not proved; the theorems are about the model's explicit access discipline (Oob / BadAlloc outcomes)",
    "the progpow kernel is never entered in the UBSan-instrumented run (VERIF_NO_PROGPOW=1): its keccak_f800 left-shifts "
    "negative ints on every call (input-independent shift-base report outside the parsers/validators); the proof-of-work "
    "paths of checkBlock/checkPopData run on the un-instrumented build of the same harness (crash/throw/timeout observed)",
    "VBK blocks above height 16000 are not proof-of-work hashed in the stateless checks of the harness (each ethash epoch "
    "cache costs seconds and ~16 MB); their plausibility check still runs",
]
META = {
    "text": "Theorems (Coq, every byte string, no length bound): each ReadStream/serde primitive and the decoders of "
            "Address, Output, BtcTx, BtcBlock, VbkBlock, AltBlock, Keystone/ContextInfo/AuthenticatedContextInfo containers, "
            "MerklePath, VbkMerklePath, PublicationData, VbkTx, VbkPopTx, ATV, VTB, PopData, Vbk/AltEndorsement and "
            "StoredBlockIndex<Btc|Vbk|Alt> (with stored addons, PopState) end in a value whose rest is a suffix of the input (consumed <= available) or in Invalid — never "
            "in Oob (access outside the buffer; bounds check and raw access are separate in the model) and never in "
            "BadAlloc (reserve() above 65536 elements; every reserve is preceded by a range check against a MAX_* constant "
            "regenerated from consts.hpp). The extracted model is compared with the ASan/UBSan build of the library on "
            "random bytes and structure-aware mutations of valid encodings (accept/reject and decoded value identical); the "
            "stateless checks (checkATV/checkVTB/checkPopData/checkBlock) run on whatever decodes; any sanitizer report, "
            "abort, escaped exception or timeout is a violation whose replay is the input.",
    "note": "partial by nature: sanitizers observe the compiled code, the proof covers the model. Not modelled here: the "
            "stateless checks themselves (signature, merkle) — run for crashes/throws only; the accepted address wire forms are stated over the C18 address model "
            "(C06_address_accepted_wire_forms; the premise addr_norm_sound is discharged for the concrete normalisation, C06_addr_norm_sound_discharged); containsSplit as "
            "coded is covered "
            "by Properties_C05 (C05_split_no_oob) and is driven here with structured hostile split descriptors under ASan; "
            "TIME (Serde/Steps*.v, Stateless/SplitSteps*.v): the decoders are re-run with a step counter (one step per byte delivered by a "
            "read — a nested slice is paid once per nesting level — and per entered element-loop iteration); the counted run returns "
            "exactly the result of the uncounted decoder (the counted entity codecs are definitionally those of EntityDefs.v) and "
            "C06_steps_linear proves steps <= 6|in|+1 (VbkTx), 6|in|+2 (VbkPopTx, ATV), 6|in|+3 (VTB), 7|in|+8 (PopData) for every byte "
            "string, C06_steps_array_of / C06_steps_count_independent the same for the generic readArrayOf (bound independent of the "
            "announced count: the loop stops at the first missing element; a count outside [min,max] stops within 9 steps before "
            "reserve(), C06_steps_count_out_of_range; without the range check 5 bytes buy 2^31 iterations of a zero-size element, "
            "C06_steps_unchecked_count_refuted). containsSplit as coded: the loop-head position advances 1..3 bytes per iteration "
            "(C06_split_measure_decreases), the model's fuel is never exhausted and at most max(1,|tx|-4) loop heads are evaluated "
            "(C06_split_terminates, all inputs), work <= |tx|*(2656+2|data|)/3 for |tx| < 2^32-2^11 (C06_split_steps_bound); the variant "
            "taking lastPos before the magic repeats its state forever on an 85-byte transaction (C06_split_rewind_to_magic_start_refuted). "
            "NOT proved: time of the remaining stateless checks (signature, merkle, PoW) and of the external address normalisation "
            "(bounded by VBK_ADDRESS_SIZE, uncharged); range checks/reserve()/refinement tests are charged 0 steps (fixed number per "
            "decoder shape resp. per iteration); the step model is a cost semantics of the Coq model, the wall-time of the compiled "
            "code is only observed by the fuzz timeouts; the split work bound without the |tx| < 2^32-2^11 premise (last-chunk length "
            "wraps) is not stated; "
            "BFI wire types are covered by the BFI stage of C11 (round trips/sizes), not fuzzed here. Trusted: as C11.",
    "technique": "Coq proof (total parsers with explicit unsafe outcomes) + sanitizer-instrumented differential fuzzing",
}

ASAN_ENV = {"VERIF_NO_PROGPOW": "1", "ASAN_OPTIONS": "detect_leaks=0:abort_on_error=0:allocator_may_return_null=0:malloc_context_size=8",
            "UBSAN_OPTIONS": "print_stacktrace=1:halt_on_error=1"}


def corpus_cases():
    cases = []
    cdir = os.path.join(vlib.VERIF, "corpus", "C06")
    if os.path.isdir(cdir):
        for i, f in enumerate(sorted(os.listdir(cdir))):
            t = f.split("_")[0]
            if t in S.TYPES:
                h = open(os.path.join(cdir, f)).read().strip()
                cases.append(("w%da" % i, "chk", [t, h]))
                cases.append(("w%db" % i, "dec", [t, h]))
    return cases


def gen_cases(ctx):
    quick = ctx.tier == "quick"
    r = ctx.rng
    g = S.Gen(r, big=not quick)
    c = S.consts()
    cases = []
    kinds = {}
    j = [0]

    def add(t, kind, b):
        if len(b) > 60000:
            return
        kinds[kind] = kinds.get(kind, 0) + 1
        h = S.hb(b)
        cases.append(("f%d" % j[0], "dec", [t, h]))
        j[0] += 1
        if t in S.CHECKED:
            cases.append(("f%d" % j[0], "chk", [t, h]))
            j[0] += 1
    nval = {"quick": 22, "thorough": 120}[ctx.tier]
    gov = S.Gen(r.fork(), big=False, over=True)
    for _ in range(8 if quick else 100):
        add("address", "type3-wire-of-standard-address",
            S.standard_address_as_type3_wire(S.address_from_pubkey(r.bytes(r.range(0, 40)))))
    # structured split descriptors in VbkPopTx.bitcoinTransaction.tx, inside otherwise valid VTBs (checkVTB -> containsSplit)
    for tx in S.hostile_split_txs(r, 300 if quick else 6000):
        try:
            add("vtb", "split-descriptor", S.py_encode(c, "vtb", S.vtb_with_btctx(g, c, tx))[0])
        except (OverflowError, ValueError):
            pass
    # the EMPTY input for every decoder (passed by the harness as an empty std::vector: data() == nullptr)
    for t in S.TYPES:
        add(t, "empty-input", b"")
    # checksum-correct adversarial address texts: alone, as source / output address of a plausible ATV, inside PopData
    for kind, ty, ab in S.adversarial_addresses(r, 60 if quick else 1500):
        a = S.Rec((ty, ab))
        add("address", "addr:" + kind, bytes([ty, len(ab) & 0xff]) + ab)
        try:
            atv1 = S.plausible_atv(g, c, src=a)
            atv2 = S.plausible_atv(g, c, outs=[S.Rec((a, 5))])
            add("atv", "addr-in-atv:" + kind, S.py_encode(c, "atv", r.choice([atv1, atv2]))[0])
            add("popdata", "addr-in-popdata:" + kind, S.py_encode(c, "popdata", S.Rec((1, [], [S.plausible_vtb(g, c, addr=a)], [atv1])))[0])
        except (OverflowError, ValueError, IndexError):
            pass
    # payloads that pass the cheap stateless checks, and each of them with ONE variable-length part made empty
    for _ in range(6 if quick else 120):
        for t, v in (("atv", S.plausible_atv(g, c)), ("vtb", S.plausible_vtb(g, c))):
            add(t, "plausible", S.py_encode(c, t, v)[0])
            for w in S.emptied_variants(v):
                add(t, "zero-length-field", S.py_encode(c, t, w)[0])
            pd = S.Rec((1, [g.vbkblock(low=True)], [S.plausible_vtb(g, c)], [S.plausible_atv(g, c)]))
            add("popdata", "plausible", S.py_encode(c, "popdata", pd)[0])
    for t in ("pubdata", "vbktx", "vbkpoptx", "output", "storedalt", "storedvbk", "altblock", "authctx", "popdata"):
        for _ in range(2 if quick else 40):
            for w in S.emptied_variants(g.value(t))[:40]:
                add(t, "zero-length-field", S.py_encode(c, t, w)[0])
    for t in S.TYPES:
        heavy = t in ("popdata", "vtb", "vbkpoptx")
        # random bytes, with plausible first bytes
        for _ in range(20 if quick else 1000):
            n = r.choice([0, 1, 2, 3, 4, 5, 8, 16, 64, 81, 200]) if r.chance(1, 2) else r.below(120)
            b = r.bytes(n)
            if n >= 4 and t in ("atv", "vtb", "popdata") and r.chance(3, 4):
                b = b"\x00\x00\x00\x01" + b[4:]
            add(t, "random", b)
        # values that exceed ONE declared limit by one byte / one element, really carrying the data
        for _ in range((nval // 3 if heavy else nval) // 2):
            try:
                add(t, "overlimit", S.py_encode(c, t, gov.value(t))[0])
            except (OverflowError, ValueError):
                pass
        for _ in range(nval // 3 if heavy else nval):
            v = g.value(t)
            base, e = S.py_encode(c, t, v)
            add(t, "valid", base)
            # truncation at every offset for small encodings, sampled otherwise
            if len(base) <= (48 if quick else 120):
                for k in range(len(base)):
                    add(t, "truncate-all", base[:k])
            else:
                for _ in range(6):
                    add(t, "truncate", base[:r.below(len(base))])
            for kind, b in S.hostile_variants(r, c, t, v, 8 if quick else 24):
                add(t, kind, b)
            for kind, b in S.byte_mutations(r, base, 8 if quick else 24):
                add(t, kind, b)
    return cases, kinds, g


def run(ctx):
    ctx.prove()
    okm, model, mlog = vlib.build_model("Serde")
    okh, hs, hlog = vlib.build_harness(["h_serde"], "asan")
    okr, hr, rlog = vlib.build_harness(["h_serde"], "rel")
    if not okr:
        ctx.broken.append("harness-build(rel): " + rlog[-300:])
        return
    if not okm:
        ctx.broken.append("model-build: " + mlog[-300:])
    if not okh:
        ctx.broken.append("harness-build(asan): " + hlog[-300:])
    if not (okm and okh):
        return
    H = hs["h_serde"]
    if ctx.replay and "cases" in ctx.replay:
        cases = [tuple(x) for x in ctx.replay["cases"] if x]
        kinds, g = {}, None
    else:
        cases, kinds, g = gen_cases(ctx)
        cases = [("k0", "consts", [])] + corpus_cases() + cases
    p = os.path.join(ctx.work, "cases.txt")
    S.write_cases(p, cases)
    rc1, mres, _, merr = S.run_model(model, p)
    ires, orc, crashes = S.run_impl_bisect(ctx, H, cases, timeout=1200 if ctx.tier == "quick" else 6000, env=ASAN_ENV)
    if "k0" in ires:
        S.check_consts(ctx, ires)
    # the proof-of-work paths (progpow) of the stateless checks run on the un-instrumented build: crash/throw/timeout only
    pow_cases = [x for x in cases if x[1] == "chk" and x[2][0] in ("popdata", "vbkblock")]
    pres, _, pcrashes = S.run_impl_bisect(ctx, hr["h_serde"], pow_cases, timeout=1200 if ctx.tier == "quick" else 6000, tag="pow")
    crashes = crashes + pcrashes
    for i, v in pres.items():
        if v.startswith("THROW"):
            ires[i] = v
    ctx.cov["pow_path_cases_uninstrumented"] = len(pow_cases)
    byid = {x[0]: x for x in cases}
    cmpcases = [x for x in cases if x[1] != "consts"]
    skip = {c[0][0] for c in crashes if c[0]}
    bad = [i for i in vlib.diff_results({k: v for k, v in mres.items() if k != "k0"},
                                        {k: v for k, v in ires.items() if k != "k0"}) if i not in skip and i in ires]
    nomodel = [x[0] for x in cmpcases if x[0] not in mres]
    if nomodel:
        ctx.broken.append("runner: the model driver produced no result for %d cases (first %s)" % (len(nomodel), nomodel[0]))
    bad = [i for i in bad if i in mres]
    if len(ires) + len(skip) < len(cases):
        ctx.broken.append("runner: %d cases were not executed by the harness (too many crashes)" % (len(cases) - len(ires) - len(skip)))
    ctx.cov["evaluations"] = len(cmpcases)
    ctx.cov["distinct_nontrivial"] = len({(x[1], tuple(x[2])) for x in cmpcases})
    ctx.cov["rule"] = ("per entity type: random bytes; valid encodings; truncation at every offset (small encodings) or sampled; "
                       "structure-aware variants (one length/count field set to 0/1/255/256/65535/65536/limit-1/limit/limit+1/"
                       "len+-1/2^31-1/2^31/negative, or re-encoded padded/empty); bit flips, byte sets, inserts, deletes, appends; "
                       "every input is decoded (value compared with the model) and, for ATV/VTB/PopData/VbkBlock/BtcBlock, "
                       "decoded + statelessly checked; distinct = distinct (op,type,bytes)")
    ctx.cov["input_kinds"] = dict(sorted(kinds.items()))
    verdicts = {"accepted": 0, "rejected": 0}
    sizes = {"<=16": 0, "<=256": 0, "<=4096": 0, ">4096": 0}
    for x in cmpcases:
        rline = ires.get(x[0], "")
        verdicts["accepted" if rline.startswith("V") else "rejected"] += 1
        n = len(x[2][1]) // 2 if len(x[2]) > 1 else 0
        sizes["<=16" if n <= 16 else "<=256" if n <= 256 else "<=4096" if n <= 4096 else ">4096"] += 1
    ctx.cov["verdicts"] = verdicts
    ctx.cov["input_sizes"] = sizes
    ctx.cov["sanitizer"] = "asan+ubsan (-O0), exactly-sized heap copies of every input"
    ctx.cov["disagreements_checked"] = len(cmpcases)
    ctx.cov["traces_validated_against_impl"] = len(cmpcases) - len(bad) - len(skip)
    for x in cmpcases[:2] + cmpcases[-2:]:
        ctx.sample({"case": [x[0], x[1], x[2][0], x[2][1][:120]], "model": (mres.get(x[0]) or "")[:160],
                    "impl": (ires.get(x[0]) or "")[:160]})
    # 1. crashes / sanitizer reports / timeouts: the input is the replay
    seen = set()
    ctx.cov["harness_deaths"] = len(crashes)
    for case, rc, err in crashes:
        key = S.crash_key(rc, err)
        if key in seen:
            continue
        seen.add(key)
        ctx.violation({"kind": "input", "cases": [list(case)] if case else [], "rc": rc, "stderr": err,
                       "what": "harness process died (sanitizer report, abort, signal or timeout) on this input"}, key=key)
    # 2. exceptions escaping the API
    for i in ires:
        if ires[i].startswith("THROW") and i in byid:
            ctx.violation({"kind": "input", "cases": [list(byid[i])], "impl": ires[i],
                           "what": "exception escaped deserialization / stateless validation"})
    # 3. the implementation's own oracle (decode produced an inconsistent value / cursor)
    for i, text in orc[:5]:
        ctx.violation({"kind": "input", "cases": [list(byid[i])] if i in byid else [], "oracle": text,
                       "what": "implementation oracle failed on a decoded value"})
    # 4. model (proved total, safe parser = specification of accept/reject) vs implementation
    for i in bad[:5]:
        if i in byid and not ires.get(i, "").startswith("THROW"):
            ctx.violation({"kind": "input", "cases": [list(byid[i])], "model": (mres.get(i) or "")[:2000],
                           "impl": (ires.get(i) or "")[:2000],
                           "what": "accept/reject or decoded value differs from the proved parser specification"})
    for k, v in mres.items():
        if k == "k0":
            continue
        if v in ("OOB", "BADALLOC") or v.startswith("MODEL-ERROR"):
            ctx.broken.append("model: unsafe/failed outcome %s on case %s" % (v, k))
            break
    if rc1 != 0:
        ctx.broken.append("runner: model rc=%d %s" % (rc1, merr[-300:]))
