"""C12: the extracted counting model (coq/Mempool/CountDefs.v: can_fit / popsize / filter_fit / est_kept / fits) and the
extracted selection of generatePopData as coded (coq/Mempool/GenDefs.v: generatePop), model `Gen`
(coq/Extract_Gen.v, ocaml/Gen_driver.ml), run against the code.

Counting (`count_stage`): harness/h_count.cpp drives the REAL CountingContext with generated sequences of real payload
objects (ATVs / VTBs padded to a chosen estimateSize, VbkBlocks) under generated limits, the loop body being the one of
applyPayloadsOrRemoveIfInvalid with the verdict of mutator.add given per candidate. Per candidate both sides print the
canFit verdict, the figure canFit compares with the size limit (`need`: the smallest limit that admits the candidate,
found by the same binary search over the real canFit and over the extracted can_fit) and the running size (real
PopData::estimateSize() of the kept set / popsize of the model counter); at the end estimateSize of the result, the
conditions of assertPopDataFits and the kept counts. The model is the proved specification (C12_counting_exact,
C12_generated_fits): a difference that reproduces is a violation, with the sequence (shrunk) as replay.
A zero-size payload cannot be built from real objects (the smallest: VbkBlock 66, ATV 162, VTB 319 bytes) and is not run.

Selection (`gen_stage`): see there."""
import os
import time

import vlib

KINDS = "vwa"   # VbkBlock, VTB, ATV
LIFTED = 50000


# ---------------------------------------------------------------------------------------------------------------
# aiming only: where the size limit has to be for a chosen candidate to fit exactly. The verdicts come from the
# model; whether a boundary was really hit is measured on the model's output (histogram), never assumed from this.
def _prefix(n):
    return 1 + max(1, (n.bit_length() + 7) // 8)


def _walk(cands, lim, maxsize):
    """thresholds as the trajectory under these limits would see them -> [(need, count of the kind before)]"""
    n = dict(v=0, w=0, a=0)
    s = dict(v=0, w=0, a=0)
    out = []
    for k, size, valid in cands:
        pop = 4 + sum(_prefix(n[x]) + s[x] for x in KINDS)
        need = pop + size + _prefix(n[k] + 1) - _prefix(n[k])
        out.append((need, n[k]))
        if n[k] < lim[k] and (maxsize is None or need <= maxsize) and valid:
            n[k] += 1
            s[k] += size
    return out


def _aim(cands, lim, j, delta):
    m = None
    for _ in range(4):
        need = _walk(cands, lim, m)[j][0]
        m2 = max(0, need + delta)
        if m2 == m:
            break
        m = m2
    return min(m, 0xffffffff)


def _rng(ctx, salt):
    """a stream of its own: the stages of this file must not shift the random stream the histories are drawn from"""
    return vlib.Rng((ctx.seed * 0x9E3779B97F4A7C15 + 0xC12C0DE + salt) & ((1 << 64) - 1))


# ---------------------------------------------------------------------------------------------------------------
def _palette(ctx, harness):
    """sizes the harness can build exactly, per kind"""
    rng = _rng(ctx, 1)
    p = os.path.join(ctx.work, "count_mk.txt")
    lines = ["m min"]
    rc, res, _, err = _run_text(harness, p, lines)
    mins = dict(x.split("=") for x in res.get("m", "").split(" ") if "=" in x)
    if set(mins) != set(KINDS):
        return None
    mins = {k: int(v) for k, v in mins.items()}
    want = {"v": [mins["v"]]}
    for k in "wa":
        b = mins[k]
        t = [b, b + 1, b + 2, b + 3]
        t += [b + rng.range(4, 400) for _ in range(14)]
        t += [b + 250 + d for d in range(0, 12)]          # nested one-byte length prefixes grow around here
        t += [rng.range(b + 400, 3000) for _ in range(6)]
        t += [rng.range(3000, 17000) for _ in range(4)]
        t += [65530 + d for d in range(0, 8)] if k == "w" else []
        want[k] = sorted(set(t))
    lines = ["%s%d mk %s %d" % (k, t, k, t) for k in KINDS for t in want[k]]
    rc, res, _, err = _run_text(harness, p, lines)
    pal = {k: [t for t in want[k] if res.get("%s%d" % (k, t)) == str(t)] for k in KINDS}
    if not all(pal[k] for k in KINDS):
        return None
    return pal


def _run_text(prog, path, lines):
    with open(path, "w") as f:
        f.write("\n".join(lines) + "\n")
    return vlib.run_lines([prog], path, timeout=900)


def _line(lim, maxsize, cands):
    return ("cnt %d %d %d %d %s" % (lim["v"], lim["w"], lim["a"], maxsize,
                                    ",".join("%s:%d:%d" % (k, s, 1 if v else 0) for k, s, v in cands))).strip()


def _parse_line(line):
    t = line.split(" ")
    lim = dict(v=int(t[1]), w=int(t[2]), a=int(t[3]))
    cands = []
    for it in (t[5].split(",") if len(t) > 5 else []):
        if not it:
            continue
        k, s, v = it.split(":")
        cands.append((k, int(s), v == "1"))
    return lim, int(t[4]), cands


def _cases(ctx, pal, scale):
    rng = _rng(ctx, 2)

    def cand(kinds=KINDS, pv=(9, 10), small=False):
        k = rng.choice(list(kinds))
        sizes = pal[k][:12] if small and len(pal[k]) > 12 else pal[k]
        return (k, rng.choice(sizes), rng.chance(*pv))

    out = []   # (tag, line)

    def add(tag, lim, m, cands):
        out.append((tag, _line(lim, m, cands)))

    # 1. short random sequences, small count limits, the size limit aimed at one candidate (+-1, 0) or free
    for _ in range(36 * scale):
        cands = [cand(small=rng.chance(1, 2)) for _ in range(rng.range(1, 24))]
        lim = {k: rng.choice([0, 1, 2, 3, 5, 200]) for k in KINDS}
        j = rng.below(len(cands))
        for delta in (-1, 0, 1):
            add("aimed", lim, _aim(cands, lim, j, delta), cands)
        add("free", lim, rng.choice([0, 9, 10, 11, 700, 1300, 16906, 5500000, 0xffffffff]), cands)
        add("free", lim, rng.range(10, 4000), cands)
    # 2. one kind saturated while the others still fit (and then the size limit bites for them)
    for _ in range(20 * scale):
        sat = rng.choice(list(KINDS))
        lim = {k: rng.choice([3, 5, 200]) for k in KINDS}
        lim[sat] = rng.choice([0, 1, 2, 3])
        cands = []
        for _ in range(rng.range(6, 30)):
            cands.append(cand(kinds=sat if rng.chance(1, 2) else KINDS, small=True))
        others = [i for i, c in enumerate(cands) if c[0] != sat]
        j = rng.choice(others) if others else len(cands) - 1
        for delta in (-1, 0, 1):
            add("saturated", lim, _aim(cands, lim, j, delta), cands)
        add("saturated", lim, 5500000, cands)
    # 3. the 256th payload of a kind: its array's length prefix grows from 2 to 3 bytes
    for _ in range(2 * scale):
        for k in KINDS:
            small = pal[k][:6]
            cands = []
            others = "".join(x for x in KINDS if x != k)
            n_k = 0
            total_k = rng.range(256, 262)
            while n_k < total_k:
                if rng.chance(1, 12):
                    cands.append(cand(kinds=others, small=True))
                else:
                    cands.append((k, rng.choice(small), True))
                    n_k += 1
            lim = {x: 300 for x in KINDS}
            lim[k] = rng.choice([255, 256, 257, 300, 1000, LIFTED])
            idx = [i for i, c in enumerate(cands) if c[0] == k]
            for delta in (-1, 0, 1):
                add("prefix256", lim, _aim(cands, lim, idx[255], delta), cands)
            add("prefix256", lim, _aim(cands, lim, idx[254], 0), cands)
            add("prefix256", lim, _aim(cands, lim, len(cands) - 1, rng.choice([-1, 0, 1])), cands)
    # 4. degenerate: no candidates, limits below the empty PopData, the largest limits
    for m in (0, 9, 10, 11, 0xffffffff):
        add("degenerate", dict(v=0, w=0, a=0), m, [])
        add("degenerate", dict(v=LIFTED, w=LIFTED, a=LIFTED), m, [cand() for _ in range(5)])
    return out


def _histogram(line, model_reply, hist):
    lim, maxsize, cands = _parse_line(line)
    head = model_reply.split(" ")[0]
    items = [] if head == "-" else head.split(",")
    if len(items) != len(cands):
        return
    n = dict(v=0, w=0, a=0)
    saturated = set()

    def hit(k):
        hist[k] = hist.get(k, 0) + 1

    if maxsize < 10:
        hit("limit_below_empty_popdata")
    for (k, size, valid), it in zip(cands, items):
        verdict, need, _ = it.split(":")
        need = int(need)
        if need == maxsize:
            hit("exact_fit")
        elif need == maxsize + 1:
            hit("over_by_one")
        elif need == maxsize - 1:
            hit("under_by_one")
        if n[k] == 255:
            hit("prefix_growth_256th_of_" + k)
            if abs(need - maxsize) <= 1:
                hit("prefix_growth_256th_at_size_boundary")
        if n[k] >= lim[k]:
            saturated.add(k)
            if need <= maxsize:
                hit("count_saturated_size_would_fit_" + k)
        elif verdict == "0":
            hit("rejected_by_size")
        if verdict == "1":
            if saturated and k not in saturated:
                hit("fits_while_other_kind_saturated")
            if valid:
                n[k] += 1
            else:
                hit("fits_but_invalid_not_counted")
    hist["longest_sequence"] = max(hist.get("longest_sequence", 0), len(cands))


def _first_diff(a, b):
    """index of the first candidate whose observation differs, or None when only the summary differs"""
    ia = a.split(" ")[0].split(",")
    ib = b.split(" ")[0].split(",")
    for i in range(min(len(ia), len(ib))):
        if ia[i] != ib[i]:
            return i
    return None


def _both(ctx, harness, model, line, tag="x"):
    p = os.path.join(ctx.work, "count_one.txt")
    _, rm, _, _ = _run_text(model, p, ["%s %s" % (tag, line)])
    _, ri, _, _ = _run_text(harness, p, ["%s %s" % (tag, line)])
    return rm.get(tag), ri.get(tag)


def _differs(m, i):
    return m is not None and i is not None and m != i and not i.startswith("SKIP") and not m.startswith("MODEL-ERROR")


def _shrink(ctx, harness, model, line, budget=120):
    m, i = _both(ctx, harness, model, line)
    lim, maxsize, cands = _parse_line(line)
    fd = _first_diff(m, i)
    if fd is not None and fd + 1 < len(cands):
        l2 = _line(lim, maxsize, cands[:fd + 1])
        if _differs(*_both(ctx, harness, model, l2)):
            cands = cands[:fd + 1]
    chunk = max(1, len(cands) // 2)
    while chunk >= 1 and budget > 0:
        pos = 0
        while pos < len(cands) and budget > 0:
            trial = cands[:pos] + cands[pos + chunk:]
            budget -= 1
            if trial and _differs(*_both(ctx, harness, model, _line(lim, maxsize, trial))):
                cands = trial
            else:
                pos += chunk
        chunk //= 2
    return _line(lim, maxsize, cands)


def _describe(m, i):
    fd = _first_diff(m, i)
    if fd is None:
        return "summary: model `%s` implementation `%s`" % (" ".join(m.split(" ")[1:]), " ".join(i.split(" ")[1:]))
    return ("candidate %d (verdict:need:running): model %s implementation %s"
            % (fd, m.split(" ")[0].split(",")[fd], i.split(" ")[0].split(",")[fd]))


def _report(ctx, harness, model, line):
    small = _shrink(ctx, harness, model, line)
    m, i = _both(ctx, harness, model, small)
    if not _differs(m, i):
        small = line
        m, i = _both(ctx, harness, model, small)
    what = ("counting model (coq/Mempool/CountDefs.v) and the real CountingContext / PopData::estimateSize differ: "
            + _describe(m, i))
    ctx.violation({"kind": "input", "harness": "h_count", "stage": "count-model", "variant": "rel", "line": small,
                   "model": m, "impl": i, "what": what,
                   "format": "cnt <maxVbk> <maxVtb> <maxAtv> <maxPopDataSize> <kind v|w|a>:<estimateSize>:<mutator.add "
                             "verdict>,... -> per candidate canFit:need:running, then est/fits/kept counts"})
    return what


def count_stage(ctx, harness, model):
    t0 = time.time()
    scale = 2 if ctx.tier == "quick" else 16
    pal = _palette(ctx, harness)
    if pal is None:
        ctx.broken.append("machinery: h_count cannot build payloads of chosen sizes")
        return
    cases = _cases(ctx, pal, scale)
    lines = ["k%d %s" % (n, l) for n, (_, l) in enumerate(cases)]
    p = os.path.join(ctx.work, "count_cases.txt")
    rc_m, rm, _, err_m = _run_text(model, p, lines)
    rc_i, ri, _, err_i = _run_text(harness, p, lines)
    if rc_m != 0 or rc_i != 0 or len(rm) != len(lines) or len(ri) != len(lines):
        ctx.broken.append("machinery: counting run incomplete (model rc=%s %d lines, harness rc=%s %d lines of %d) %s"
                          % (rc_m, len(rm), rc_i, len(ri), len(lines), (err_i or err_m)[-300:]))
        return
    hist, tags = {}, {}
    compared = skipped = cands_total = 0
    bad = []
    for n, (tag, l) in enumerate(cases):
        cid = "k%d" % n
        m, i = rm[cid], ri[cid]
        if m.startswith("MODEL-ERROR"):
            ctx.broken.append("machinery: counting model driver: %s on `%s`" % (m, l[:200]))
            return
        if i.startswith("SKIP"):
            skipped += 1
            continue
        compared += 1
        tags[tag] = tags.get(tag, 0) + 1
        cands_total += 0 if m.startswith("-") else m.split(" ")[0].count(",") + 1
        _histogram(l, m, hist)
        if m != i:
            bad.append(l)
    stats = dict(cases=len(cases), compared=compared, skipped=skipped, candidates=cands_total, by_shape=tags,
                 payload_sizes={k: [min(pal[k]), max(pal[k]), len(pal[k])] for k in KINDS})
    for l in bad[:1]:
        m, i = _both(ctx, harness, model, l)     # once more, fresh processes
        if _differs(m, i):
            stats["violation"] = _report(ctx, harness, model, l)
        else:
            stats["flaky"] = 1
    stats["disagreeing_cases"] = len(bad)
    stats["wall_s"] = round(time.time() - t0, 1)
    ctx.cov["count_cases_compared"] = compared
    ctx.cov["trusted_base"].append(
        "counting correspondence: harness/h_count.cpp builds the payloads (padding fields until estimateSize is the "
        "chosen size) and repeats the loop body of applyPayloadsOrRemoveIfInvalid by hand around the real "
        "CountingContext; zero-size payloads cannot be built from real objects")
    ctx.cov["count_candidates_compared"] = cands_total
    ctx.cov["count_boundary_hits"] = hist
    ctx.cov["count_model"] = stats
    ctx.cov["disagreements_checked"] = ctx.cov.get("disagreements_checked", 0) + compared
    return stats


def replay_count(ctx, harness, model):
    line = ctx.replay.get("line", "")
    m, i = _both(ctx, harness, model, line)
    ctx.cov["evaluations"] = 1
    ctx.cov["count_cases_compared"] = 1
    if _differs(m, i):
        ctx.violation({"kind": "input", "harness": "h_count", "stage": "count-model", "variant": "rel", "line": line,
                       "model": m, "impl": i, "what": _describe(m, i)})


# ===============================================================================================================
# Selection: the extracted generatePop (coq/Mempool/GenDefs.v) on what the real generatePopData saw.
#
# Every `gen` of the harness goes through the callback overload of MemPool::generatePopData and records (h_mempool.cpp
# genTraced) the candidates in the order filterInvalidPayloads visited them - context blocks = the relations in the
# order the std::sort over the hash map produced, VTBs and ATVs relation by relation - with each one's estimateSize,
# the block it belongs to and the verdict it got (kept / does-not-fit / stateless duplicate / rejected by mutator.add),
# the limits in force and the returned PopData. From that one line the translator rebuilds the relations IN THE
# IMPLEMENTATION'S ORDER (the order among equal heights is unspecified: C12_selection_equal_height_refuted) and gives
# the model, as oracles, which candidates mutator.add accepted; canFit and the stateless-duplicate test are the
# model's own (a candidate the implementation turned away for size or as a duplicate is passed as acceptable, so a
# different opinion of the model shows up in the result). Compared: context / vtbs / atvs id lists in order, and
# out_fits. Also checked on the trace: the context candidates come by ascending height (is_order, the premise of the
# C12_selection_* theorems). What the translator cannot express (unregistered id, an id judged twice with different
# answers, candidates not grouped relation by relation) is skipped and counted in cov["gen_skipped"].
class Gap(Exception):
    pass


def _kv(s):
    return dict(x.split("=", 1) for x in s.split(" ") if "=" in x)


def _num(name, ty):
    if len(name) < 2 or name[0] != ty or not name[1:].isdigit():
        raise Gap("id")
    return int(name[1:])


def _items(s):
    return [x.split(":") for x in s.split(",") if x]


def translate(trace):
    """trace line -> (model line, expected model reply, facts for the histogram)"""
    d = _kv(trace)
    lim = d["lim"].split("/")
    cb, cw, ca = _items(d.get("cb", "")), _items(d.get("cw", "")), _items(d.get("ca", ""))
    facts = dict(n=len(cb) + len(cw) + len(ca), codes={}, equal_heights=False, ascending=True)
    heights = [int(x[3]) for x in cb]
    facts["equal_heights"] = len(set(heights)) < len(heights)
    facts["ascending"] = all(heights[i] <= heights[i + 1] for i in range(len(heights) - 1))
    hdrs = [_num(x[0], "v") for x in cb]
    if len(set(hdrs)) != len(hdrs):
        raise Gap("header-twice")
    sizes = {"v": {}, "w": {}, "t": {}}
    ok = {"v": set(), "w": set(), "t": set()}     # ids kept at some occurrence
    bad = {"v": set(), "w": set(), "t": set()}    # ids rejected by mutator.add at some occurrence
    seen = {"v": set(), "w": set(), "t": set()}
    owner = {"w": {}, "t": {}}
    for ty, l in (("v", cb), ("w", cw), ("t", ca)):
        for it in l:
            if len(it) != 4:
                raise Gap("format")
            i = _num(it[0], ty)
            if sizes[ty].get(i, int(it[1])) != int(it[1]):
                raise Gap("size")
            sizes[ty][i] = int(it[1])
            facts["codes"][it[2]] = facts["codes"].get(it[2], 0) + 1
            seen[ty].add(i)
            if it[2] == "x":
                bad[ty].add(i)
            elif it[2] == "k":
                ok[ty].add(i)
            if ty != "v":
                h = _num(it[3], "v")
                if owner[ty].get(i, h) != h:
                    raise Gap("owner")
                owner[ty][i] = h
    # an id may come several times (a relation keeps multiplicity). After a rejection by mutator.add the
    # implementation calls a later occurrence a stateless duplicate, after a kept one as well: the answer of
    # mutator.add for the id is the one of the occurrence that reached it. Kept once and rejected once: not expressible.
    for ty in ok:
        if ok[ty] & bad[ty]:
            raise Gap("mixed-verdicts")
        ok[ty] = seen[ty] - bad[ty]
    seq_w = [_num(x[0], "w") for x in cw]
    seq_a = [_num(x[0], "t") for x in ca]
    rels = []
    for h in hdrs:
        rels.append((h, [w for w in seq_w if owner["w"][w] == h], [a for a in seq_a if owner["t"][a] == h]))
    if [w for _, ws, _ in rels for w in ws] != seq_w or [a for _, _, as_ in rels for a in as_] != seq_a:
        raise Gap("ungrouped")
    line = "gen %s %s %s %s rels=%s szb=%s szv=%s sza=%s okb=%s okv=%s oka=%s" % (
        lim[0], lim[1], lim[2], lim[3],
        ";".join("%d:%s/%s" % (h, ".".join(map(str, ws)), ".".join(map(str, as_))) for h, ws, as_ in rels),
        ",".join("%d:%d" % kv for kv in sorted(sizes["v"].items())),
        ",".join("%d:%d" % kv for kv in sorted(sizes["w"].items())),
        ",".join("%d:%d" % kv for kv in sorted(sizes["t"].items())),
        ",".join(map(str, sorted(ok["v"]))), ",".join(map(str, sorted(ok["w"]))), ",".join(map(str, sorted(ok["t"]))))
    out = []
    for key, ty in (("oc", "v"), ("ow", "w"), ("oa", "t")):
        out.append(",".join(str(_num(x, ty)) for x in d.get(key, "").split(",") if x))
    expect = "ctx=%s vtbs=%s atvs=%s fits=1" % tuple(out)
    return line, expect, facts


def gen_stage(ctx, model, tracefiles, scripts):
    """tracefiles: the files written by the harness processes of the histories run (VERIF_GEN_TRACE)"""
    t0 = time.time()
    entries = []
    for f in tracefiles:
        try:
            with open(f) as fh:
                rows = [l.rstrip("\n") for l in fh if l.strip()]
        except OSError:
            continue
        # the process that ran the recorded histories: its history numbers index `scripts`
        mapped = all(_maps(r, scripts) for r in rows)
        for r in rows:
            entries.append((r, mapped))
    stats = dict(gens=len(entries), compared=0, nontrivial=0, skipped=0, gaps={}, hist={})
    hist = stats["hist"]
    mlines, meta = [], []
    for row, mapped in entries:
        hno, lno, who, trace = row.split(" ", 3)
        try:
            line, expect, facts = translate(trace)
        except (Gap, KeyError, ValueError, IndexError) as g:
            why = str(g) if isinstance(g, Gap) else "format"
            stats["skipped"] += 1
            stats["gaps"][why] = stats["gaps"].get(why, 0) + 1
            continue
        mlines.append("g%d %s" % (len(mlines), line))
        meta.append((row, mapped, line, expect, facts, trace))
    p = os.path.join(ctx.work, "gen_cases.txt")
    res = {}
    if mlines:
        rc, res, _, err = _run_text(model, p, mlines)
        if rc != 0 or len(res) != len(mlines):
            ctx.broken.append("machinery: selection model run incomplete (rc=%s, %d of %d) %s"
                              % (rc, len(res), len(mlines), err[-300:]))
            return stats
    for n, (row, mapped, line, expect, facts, trace) in enumerate(meta):
        m = res["g%d" % n]
        if m.startswith("MODEL-ERROR"):
            stats["skipped"] += 1
            stats["gaps"]["model-error"] = stats["gaps"].get("model-error", 0) + 1
            continue
        stats["compared"] += 1
        if facts["n"]:
            stats["nontrivial"] += 1
        for c, k in (("f", "candidate_does_not_fit"), ("d", "stateless_duplicate"), ("x", "rejected_by_mutator"),
                     ("k", "kept")):
            if facts["codes"].get(c):
                hist["gens_with_" + k] = hist.get("gens_with_" + k, 0) + 1
        if facts["equal_heights"]:
            hist["gens_with_equal_height_relations"] = hist.get("gens_with_equal_height_relations", 0) + 1
        hist["most_candidates"] = max(hist.get("most_candidates", 0), facts["n"])
        what = None
        if m != expect:
            what = ("selection model (coq/Mempool/GenDefs.v generatePop) and generatePopData differ: model `%s` "
                    "implementation `%s`" % (m, expect))
        elif not facts["ascending"]:
            what = "generatePopData visited the relations in an order that is not ascending by VBK height (is_order)"
        if what and "violation" not in stats:
            hno, lno, who, _ = row.split(" ", 3)
            rep = {"kind": "history", "harness": "h_mempool", "stage": "gen-model", "variant": "rel", "instance": who,
                   "trace": trace, "model_line": line, "model": m, "impl": expect, "what": what}
            if mapped:
                rep["lines"] = list(scripts[int(hno)][:int(lno)])
            ctx.violation(rep)
            stats["violation"] = what
    stats["wall_s"] = round(time.time() - t0, 1)
    ctx.cov["gen_cases_compared"] = stats["compared"]
    ctx.cov["gen_skipped"] = stats["skipped"]
    ctx.cov["trusted_base"].append(
        "selection correspondence: the relations and the mutator.add verdicts given to the extracted generatePop are "
        "rebuilt by props/_gencorr.py from the callback trace of the real generatePopData (order as the "
        "implementation visited; candidates turned away for size or as duplicates are passed as acceptable)")
    ctx.cov["gen_model"] = stats
    ctx.cov["disagreements_checked"] = ctx.cov.get("disagreements_checked", 0) + stats["compared"]
    return stats


def _maps(row, scripts):
    try:
        hno, lno, who, _ = row.split(" ", 3)
        l = scripts[int(hno)][int(lno) - 1].split(" ")
        return len(l) >= 3 and l[0] == "on" and l[1] == who and l[2] == "gen"
    except (ValueError, IndexError):
        return False


def replay_gen(ctx, harness_path, model):
    """--replay of a selection disagreement: the history once more, then the trace of its last gen"""
    from props import _mempool as M
    lines = ctx.replay.get("lines")
    trace = ctx.replay.get("trace", "")
    if lines:
        h = M.Proc(harness_path)
        try:
            for l in lines:
                h.send(l)
            trace = h.send("on %s genv" % ctx.replay.get("instance", "A"))[0]
        finally:
            h.close()
    ctx.cov["evaluations"] = len(lines or [])
    try:
        line, expect, facts = translate(trace)
    except (Gap, KeyError, ValueError, IndexError):
        return
    _, res, _, _ = _run_text(model, os.path.join(ctx.work, "gen_one.txt"), ["g " + line])
    m = res.get("g", "")
    ctx.cov["gen_cases_compared"] = 1
    if (m != expect and not m.startswith("MODEL-ERROR")) or not facts["ascending"]:
        ctx.violation({"kind": "history", "harness": "h_mempool", "stage": "gen-model", "variant": "rel",
                       "instance": ctx.replay.get("instance", "A"), "lines": lines, "trace": trace, "model_line": line,
                       "model": m, "impl": expect, "what": "model `%s` implementation `%s`" % (m, expect)})
