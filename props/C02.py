"""C02 — setState / comparePopScore are atomic: full switch or exact rollback.

Direct oracle (model independent, inside harness/h_sm.cpp, around EVERY setState / comparePopScore call):
full observation of the ALT, VBK and BTC views through public getters before and after. After a false
setState / non-negative compare everything must be equal except (DESIGN section 7, C02)
  * BLOCK_FAILED_POP on the first failing block X of the target branch,
  * BLOCK_FAILED_CHILD on every descendant of X (side forks included),
  * raised validity levels (MAYBE / full) on the blocks of the target branch below X,
  * the tip-candidate set that follows (X and its descendants leave it, parent(X) may enter it);
  * the validity LEVEL of a VBK/BTC block may be raised, all its other status bits and fields unchanged (only seen with
    competing SP forks: the SP fork activated while the target branch was applied keeps its "can be applied" level);
after a true setState / negative compare the target is the tip, exactly root..tip is applied
(BLOCK_ACTIVE flags, appliedBlockCount) and every block of the active chain is fully valid.
Fault enumeration: for generated branch shapes one invalid payload is planted at every command-group
position (block n, group k) in turn.
Correspondence: the same op lists through the extracted model (Pop/SmDefs.v), comparing results, tip,
validity flags, reference counts and endorsements after every call.
"""
import vlib
from props import _sm

LEVEL = "proof"
HARNESSES = [("h_sm", "rel")]
ASSUMPTIONS = [
    "calls are made within the documented preconditions (target connected, no switch below a finalized block); "
    "the harness answers SKIP otherwise",
    "security-providing chains of the generated histories are linear (no VBK/BTC forks) so that the SP best chain "
    "is determined by the delivered blocks alone",
]
META = _sm.META_C02


def run(ctx):
    _sm.run_check(ctx, "C02")
