"""Shared machinery of C12 / C13: an interactive driver for harness/h_mempool.cpp
(the generator adapts to what generatePopData returned) and the random history
generator over the World (props/_world.py).

A history is the list of script lines sent to ONE harness process ("begin"
starts a new history inside the same process: MockMiner's VBK hashing warm-up is
paid once). Every line is answered by `<id> <result>`; `!<id> <text>` lines are
failures of the direct oracle evaluated by the harness after that line;
`~<id> <text>` lines are counted observations.
"""
import os
import select
import subprocess
import tempfile

import vlib
from props._world import WorldGen, History


class Died(Exception):
    pass


class Rejected(Exception):
    """the miner refused to mine the requested payload (it validates against its own trees); bookkeeping was fixed up"""


class Desync(Exception):
    """the registry answered differently from the generator's prediction: a machinery problem, not a violation"""


class Proc:
    def __init__(self, path, timeout=600, env=None):
        self.path = path
        self.extra_env = dict(env or {})
        self.errf = tempfile.TemporaryFile()
        env = dict(os.environ)
        env["ASAN_OPTIONS"] = "detect_leaks=0:abort_on_error=0:halt_on_error=1:allocator_may_return_null=1"
        env["UBSAN_OPTIONS"] = "print_stacktrace=1:halt_on_error=1"
        env.update(self.extra_env)
        self.p = subprocess.Popen([path], stdin=subprocess.PIPE, stdout=subprocess.PIPE, stderr=self.errf, env=env)
        self.n = 0
        self.timeout = timeout
        self.buf = b""
        self.lines = []      # every line sent (without id) since the last begin
        self.all_fails = []  # (history index, line index, text)
        self.notes = {}
        self.nlines = 0

    def _readline(self):
        while b"\n" not in self.buf:
            r, _, _ = select.select([self.p.stdout], [], [], self.timeout)
            if not r:
                raise Died("timeout")
            chunk = os.read(self.p.stdout.fileno(), 65536)
            if not chunk:
                raise Died("eof")
            self.buf += chunk
        line, _, self.buf = self.buf.partition(b"\n")
        return line.decode("utf-8", "replace")

    def send(self, line):
        """returns (reply, [oracle failure texts])"""
        if line.startswith("begin"):
            self.lines = []
        self.lines.append(line)
        self.n += 1
        self.nlines += 1
        cid = "c%d" % self.n
        try:
            self.p.stdin.write(("%s %s\n" % (cid, line)).encode())
            self.p.stdin.flush()
        except (BrokenPipeError, OSError):
            raise Died("pipe")
        fails = []
        while True:
            l = self._readline()
            if l.startswith("!"):
                fails.append(l.partition(" ")[2])
                continue
            if l.startswith("~"):
                k = l.partition(" ")[2].split(" ")[0]
                self.notes[k] = self.notes.get(k, 0) + 1
                continue
            i, _, rest = l.partition(" ")
            if i == cid:
                return rest, fails

    def stderr_text(self):
        try:
            self.p.wait(timeout=20)
        except Exception:
            self.p.kill()
        self.errf.seek(0)
        return self.errf.read().decode("utf-8", "replace")

    def close(self):
        try:
            self.p.stdin.close()
            self.p.wait(timeout=30)
        except Exception:
            self.p.kill()
        self.errf.close()


def sanitizer_summary(err):
    """short stable description of a sanitizer report / abort"""
    for l in err.split("\n"):
        if "ERROR: AddressSanitizer" in l or "runtime error" in l or "Assertion" in l or "VBK_ASSERT" in l:
            return l.strip()[:300]
    tail = [l for l in err.strip().split("\n") if l.strip()]
    return (tail[-1][:300] if tail else "process died without a message")


class MpGen(WorldGen):
    """WorldGen whose lines are executed immediately"""

    def __init__(self, rng, proc, cfg=None):
        self.proc = proc
        self.fails = []      # (line index in this history, line, text)
        self.last = None
        super().__init__(rng, cfg)

    def emit(self, line, expect=None):
        self.lines.append(line)
        self.expect.append(expect)
        reply, fails = self.proc.send(line)
        self.last = reply
        for f in fails:
            self.fails.append((len(self.proc.lines), line, f))
        if expect is not None and reply != expect:
            raise Desync("line %r: expected %r got %r" % (line, expect, reply))
        return reply

    def make_vtb(self, endorsed, last_known_btc, vparent=None, bparent=None):
        vparent = vparent or self.vtip
        bparent = bparent or self.btip
        wid = "w%d" % self.nw
        reply = self.emit("vtb %s %s %s %s %s" % (wid, endorsed, vparent, bparent, last_known_btc))
        parts = reply.split(" ")
        if parts[0] == "SKIP":
            # "SKIP miner-rejected [b<n>]": the BTC block of proof may have been mined already
            if len(parts) > 2 and parts[2].startswith("b") and parts[2] not in self.btc:
                bid = parts[2]
                self.nb = max(self.nb, int(bid[1:]) + 1)
                self.btc[bid] = dict(parent=bparent, height=self.btc[bparent]["height"] + 1)
                if self.btc[bid]["height"] > self.btc[self.btip]["height"]:
                    self.btip = bid
            raise Rejected(reply)
        vid, bid = parts[0], parts[1]
        if vid != "v%d" % self.nv or bid != "b%d" % self.nb:
            raise Desync("vtb: expected v%d b%d got %s" % (self.nv, self.nb, reply))
        self.nw += 1
        self.nv += 1
        self.nb += 1
        self.vbk[vid] = dict(parent=vparent, height=self.vbk[vparent]["height"] + 1)
        self.btc[bid] = dict(parent=bparent, height=self.btc[bparent]["height"] + 1)
        self.vtb[wid] = dict(endorsed=endorsed, containing=vid, bop=bid, last=last_known_btc,
                             bctx=self.bpath(last_known_btc, bid))
        if self.vbk[vid]["height"] > self.vbk[self.vtip]["height"]:
            self.vtip = vid
        if self.btc[bid]["height"] > self.btc[self.btip]["height"]:
            self.btip = bid
        return wid

    # several ATVs as transactions of ONE VBK block
    def make_atvs(self, endorsed_list, vparent=None):
        vparent = vparent or self.vtip
        vid = "v%d" % self.nv
        self.nv += 1
        self.vbk[vid] = dict(parent=vparent, height=self.vbk[vparent]["height"] + 1)
        tids = []
        for e in endorsed_list:
            tid = "t%d" % self.nt
            self.nt += 1
            self.atv[tid] = dict(endorsed=e, bop=vid, payout="0102030x")
            tids.append(tid)
        self.emit("atvs %s %s" % (vparent, " ".join("%s:%s" % (t, e) for t, e in zip(tids, endorsed_list))), vid)
        if self.vbk[vid]["height"] > self.vbk[self.vtip]["height"]:
            self.vtip = vid
        return tids

    def make_mix(self, endorsed_vbk, last_known_btc, endorsed_alts, vparent=None, bparent=None):
        """ONE VBK block that carries a VTB and ATVs (the kinds interleaved in one mempool relation)"""
        vparent = vparent or self.vtip
        bparent = bparent or self.btip
        wid = "w%d" % self.nw
        tids = ["t%d" % (self.nt + i) for i in range(len(endorsed_alts))]
        reply = self.emit("mix %s %s %s %s:%s %s" % (vparent, bparent, last_known_btc, wid, endorsed_vbk,
                                                     " ".join("%s:%s" % (t, e) for t, e in zip(tids, endorsed_alts))))
        parts = reply.split(" ")
        if parts[0] == "SKIP":
            if len(parts) > 2 and parts[2].startswith("b") and parts[2] not in self.btc:
                bid = parts[2]
                self.nb = max(self.nb, int(bid[1:]) + 1)
                self.btc[bid] = dict(parent=bparent, height=self.btc[bparent]["height"] + 1)
                if self.btc[bid]["height"] > self.btc[self.btip]["height"]:
                    self.btip = bid
            raise Rejected(reply)
        vid, bid = parts[0], parts[1]
        if vid != "v%d" % self.nv or bid != "b%d" % self.nb:
            raise Desync("mix: expected v%d b%d got %s" % (self.nv, self.nb, reply))
        self.nw += 1
        self.nt += len(tids)
        self.nv += 1
        self.nb += 1
        self.vbk[vid] = dict(parent=vparent, height=self.vbk[vparent]["height"] + 1)
        self.btc[bid] = dict(parent=bparent, height=self.btc[bparent]["height"] + 1)
        self.vtb[wid] = dict(endorsed=endorsed_vbk, containing=vid, bop=bid, last=last_known_btc,
                             bctx=self.bpath(last_known_btc, bid))
        for t, e in zip(tids, endorsed_alts):
            self.atv[t] = dict(endorsed=e, bop=vid, payout="040506")
        if self.vbk[vid]["height"] > self.vbk[self.vtip]["height"]:
            self.vtip = vid
        if self.btc[bid]["height"] > self.btc[self.btip]["height"]:
            self.btip = bid
        return wid, tids

    def altgen(self, inst="A"):
        """ALT block on the instance's tip carrying exactly the last generated PopData"""
        aid = "a%d" % self.na
        reply = self.emit("altgen %s %s" % (aid, inst))
        if reply.startswith("SKIP"):
            return None
        self.na += 1
        kv = dict(x.split("=", 1) for x in reply.split(" "))
        parent = kv["parent"]
        ctx = [x for x in kv["ctx"].split(",") if x]
        vtbs = [x for x in kv["vtbs"].split(",") if x]
        atvs = [x for x in kv["atvs"].split(",") if x]
        p = self.alt[parent]
        kb = set(p["kb"])
        for w in vtbs:
            kb |= set(self.vtb[w]["bctx"])
        self.alt[aid] = dict(parent=parent, height=p["height"] + 1, ctx=ctx, vtbs=vtbs, atvs=atvs,
                             kv=set(p["kv"]) | set(ctx), kb=kb, haspd=True)
        return aid


class MpHistory(History):
    """random history over the mempool of instance `inst`"""

    def __init__(self, gen, inst="A", mode="C13"):
        super().__init__(gen, inst)
        self.mode = mode
        self.my_atvs = []
        self.my_vtbs = []
        self.stats = {}
        self.gens = 0
        self.applied = 0
        self.reloaded = False

    def on(self, *words):
        self.ops[words[0]] = self.ops.get(words[0], 0) + 1
        return self.g.emit("on %s %s" % (self.inst, " ".join(words)))

    def stat(self, k, n=1):
        self.stats[k] = self.stats.get(k, 0) + n

    def tip(self):
        t = self.g.emit("on %s tip" % self.inst)
        return t if t in self.g.alt else "a0"

    # ---- payload creation
    def recent_alt(self):
        g, r = self.g, self.r
        tip = self.tip()
        anc = [x for x in g.ancestry(tip) if x != "a0"]
        if anc and r.chance(5, 6):
            return r.choice(anc[-6:])
        ids = [a for a in sorted(g.alt, key=lambda a: int(a[1:])) if a != "a0"]
        return r.choice(ids) if ids else None

    def some_vbk(self, near_tip=True):
        g, r = self.g, self.r
        ids = sorted(g.vbk, key=lambda v: int(v[1:]))
        if near_tip:
            h = g.vbk[g.vtip]["height"]
            ids = [v for v in ids if g.vbk[v]["height"] >= h - 3] or ids
        return r.choice(ids)

    def create(self):
        g, r = self.g, self.r
        k = r.below(10)
        if k < 3:
            e = self.recent_alt()
            if e is None:
                return
            vp = g.vtip if r.chance(2, 3) else self.some_vbk()
            self.my_atvs.append(g.make_atv(e, vparent=vp, payout=r.choice(["010203", "aabb", "cc"])))
            self.stat("atv_created")
        elif k < 5:
            es = [self.recent_alt() for _ in range(r.range(2, 4))]
            if None in es:
                return
            vp = g.vtip if r.chance(1, 2) else self.some_vbk()
            self.my_atvs += g.make_atvs(es, vparent=vp)
            self.stat("atvs_shared_block", len(es))
        elif k < 7:
            tip = self.tip()
            # the endorsed VBK block must be an ancestor of the containing block (mined on the miner's VBK tip)
            anc = []
            c = g.vtip
            while c is not None and len(anc) < 6:
                anc.append(c)
                c = g.vbk[c]["parent"]
            e = r.choice(anc)
            last = g.best_known_btc(tip) if r.chance(3, 4) else "b0"
            # lastKnownBtc must be an ancestor of the BTC tip the tx is mined on
            if last not in g.bpath(None, g.btip) and last != "b0":
                last = "b0"
            self.my_vtbs.append(g.make_vtb(e, last))
            self.stat("vtb_created")
        else:
            p = g.vtip if r.chance(2, 3) else self.some_vbk()
            for _ in range(r.range(2, 4)):
                p = g.mine_vbk(p)
            self.stat("vbk_mined")

    # ---- submissions
    def submit(self, x, old=False):
        rep = self.on("sub", x, "o1" if old else "o0")
        self.stat("sub_" + rep.split(":")[0])
        if ":" in rep:
            self.stat("why_" + rep.split("+")[-1])
        return rep

    def submit_random(self):
        g, r = self.g, self.r
        k = r.below(10)
        if k < 4 and self.my_atvs:
            self.submit(r.choice(self.my_atvs[-8:] if r.chance(3, 4) else self.my_atvs), r.chance(1, 4))
        elif k < 6 and self.my_vtbs:
            self.submit(r.choice(self.my_vtbs[-5:] if r.chance(3, 4) else self.my_vtbs))
        elif k < 8:
            self.submit(self.some_vbk(near_tip=r.chance(3, 4)), r.chance(1, 4))
        elif g.atv or g.vtb:
            # any payload ever created, including those already on chain (duplicates / stale)
            pool = sorted(g.atv, key=lambda t: int(t[1:])) + sorted(g.vtb, key=lambda t: int(t[1:]))
            self.submit(r.choice(pool))

    def submit_context(self):
        """the VBK context of one of the payloads, in ascending / descending / random order, complete or partial"""
        g, r = self.g, self.r
        cands = [(t, g.atv[t]["bop"]) for t in self.my_atvs[-10:]] + [(w, g.vtb[w]["containing"]) for w in self.my_vtbs[-6:]]
        if not cands:
            return
        pl, blk = r.choice(cands)
        known = g.alt[self.tip()]["kv"]
        path = g.vpath(known, blk)
        if r.chance(1, 2) and path:
            path = path[:-1]          # the payload carries its own block
        order = r.below(3)
        if order == 1:
            path = path[::-1]
        elif order == 2:
            r.shuffle(path)
        if r.chance(1, 4) and len(path) > 1:
            path = path[:-1]          # leave a gap
        first = r.chance(1, 2)
        if first:
            self.submit(pl)
        for v in path[:12]:
            self.submit(v)
        if not first:
            self.submit(pl)
        self.stat("context_order_%d" % order)

    def chain(self):
        """payloads whose VBK context exists only inside other in-flight payloads: a gap of VBK blocks nobody
        submitted yet, then 2-3 VTBs / ATVs mined back to back (each carried block is the parent of the next) with
        endorsed targets chosen independently of the containing height (so any other sort key orders them
        differently), submitted in random order; the gap arrives later, then a connect pass"""
        g, r = self.g, self.r
        kind = r.choice(["vtb", "vtb", "atv", "mixed"])
        for _ in range(r.range(1, 2)):
            g.mine_vbk()
        items = []
        for _ in range(r.range(2, 3)):
            if kind == "vtb" or (kind == "mixed" and r.chance(1, 2)):
                anc = []
                c = g.vtip
                while c is not None and len(anc) < 12:
                    anc.append(c)
                    c = g.vbk[c]["parent"]
                w = g.make_vtb(r.choice(anc), "b0")
                items.append((w, g.vtb[w]["containing"]))
                self.my_vtbs.append(w)
            else:
                e = self.recent_alt()
                if e is None:
                    return
                t = g.make_atv(e, payout=r.choice(["010203", "aabb", "cc"]))
                items.append((t, g.atv[t]["bop"]))
                self.my_atvs.append(t)
        order = list(items)
        r.shuffle(order)
        for x, _ in order:
            self.submit(x)
        self.stat("chain_" + kind)
        if r.chance(1, 5):
            return                    # the gap never arrives in this step
        known = g.alt[self.tip()]["kv"]
        path = g.vpath(known, g.vbk[items[0][1]]["parent"])
        if r.chance(1, 2):
            r.shuffle(path)
        for v in path[:16]:
            self.submit(v)
        if r.chance(3, 4):
            if r.chance(2, 3) or not self.applied:
                self.gen(r.chance(*self.APPLY))
            else:
                ids = [a for a in sorted(g.alt, key=lambda a: int(a[1:])) if g.alt[a]["haspd"] and a != "a0"]
                self.on("rmall", r.choice(ids[-4:]))

    def mixed(self):
        """a VBK context gap longer than a small per-block limit, ending in ONE VBK block that carries a VTB and
        ATVs; everything (gap blocks, payloads) is submitted, so the limit cuts the context in front of a block whose
        payloads of both kinds are candidates"""
        g, r = self.g, self.r
        for _ in range(r.range(1, 4)):
            g.mine_vbk()
        anc = []
        c = g.vtip
        while c is not None and len(anc) < 8:
            anc.append(c)
            c = g.vbk[c]["parent"]
        es = [self.recent_alt() for _ in range(r.range(1, 2))]
        if None in es:
            return
        w, ts = g.make_mix(r.choice(anc), "b0", es)
        self.my_vtbs.append(w)
        self.my_atvs += ts
        self.stat("mixed_block")
        known = g.alt[self.tip()]["kv"]
        path = g.vpath(known, g.vtb[w]["containing"])
        if r.chance(1, 3):
            path = path[:-1]          # the carrying block itself is known only through its payloads
        for v in path[:16]:
            self.submit(v)
        items = [w] + ts
        r.shuffle(items)
        for x in items:
            self.submit(x)
        if r.chance(1, 2):
            self.g.emit("setlim maxvbk=%d maxvtb=%d maxatv=%d maxsize=5500000" % (
                r.choice([1, 1, 2, 3]), r.choice([1, 2, 200]), r.choice([1, 2, 1000])))
            self.stat("setlim")
        if r.chance(3, 4):
            self.gen(r.chance(*self.APPLY))

    def onchain(self):
        """re-announce payloads that the active chain already contains, at all ages: right away, after the VBK tip moved
        k blocks for k around and well beyond the VBK settlement interval, after a VBK reorg that leaves the
        containing block on a losing fork; then (sometimes) cleanUp / generate"""
        g, r = self.g, self.r
        tip = self.tip()
        anc = [a for a in g.ancestry(tip) if a != "a0"]
        pool = [x for a in anc for x in g.alt[a]["vtbs"]] * 3 + [x for a in anc for x in g.alt[a]["atvs"]] + \
               [x for a in anc for x in g.alt[a]["ctx"][-1:]]
        if not pool:
            a = g.honest_block(tip, n_atv=1, n_vtb=1, empty_chance=(0, 1))
            self.show(a)
            self.on("set", a)
            return
        settle = g.cfg.get("vbk_settle", 400)
        mode = r.below(5)
        if mode in (1, 2) and settle <= 40:
            # age: the VBK tip of the instance moves on
            k = r.choice([1, settle - 1, settle, settle + 1, 2 * settle + 1])
            for _ in range(min(k, 30)):
                g.mine_vbk()
            a = g.new_alt(tip)
            g.set_pd(a, extra_ctx=[g.vtip])
            self.show(a)
            self.on("set", a)
            self.stat("onchain_aged")
        elif mode == 3:
            # a longer VBK fork from a few blocks below the tip: the old branch (and what it contains) loses
            p = g.vtip
            depth = r.range(1, 4)
            for _ in range(depth):
                if g.vbk[p]["parent"] is not None:
                    p = g.vbk[p]["parent"]
            for _ in range(depth + 2):
                p = g.mine_vbk(p)
            a = g.new_alt(tip)
            g.set_pd(a, extra_ctx=[p])
            self.show(a)
            self.on("set", a)
            self.stat("onchain_vbk_fork")
        for _ in range(r.range(1, 3)):
            self.submit(r.choice(pool))
        self.stat("onchain_resubmit")
        k = r.below(4)
        if k == 0:
            self.on("cleanup")
        elif k == 1:
            self.gen(r.chance(*self.APPLY))
        elif k == 2:
            self.on("rmall", r.choice(anc[-4:]))

    def clear_step(self):
        """clear() mostly while payloads of EVERY kind are waiting in flight (their common parent block is withheld);
        afterwards the parent arrives WITHOUT the payloads being resubmitted, then a connect pass: nothing that was
        cleared may come back"""
        g, r = self.g, self.r
        if r.chance(1, 4):
            self.on("clear")
            return
        gap = g.mine_vbk()                        # withheld
        waiting = [g.mine_vbk(gap)]               # a VbkBlock whose parent is unknown
        e = self.recent_alt()
        if e is not None:
            t = g.make_atv(e, vparent=gap)
            self.my_atvs.append(t)
            waiting.append(t)
        try:
            w = g.make_vtb(gap, "b0", vparent=gap)
            self.my_vtbs.append(w)
            waiting.append(w)
        except Rejected:
            pass
        r.shuffle(waiting)
        for x in waiting:
            self.submit(x)
        self.on("clear")
        self.stat("clear_with_inflight")
        if r.chance(3, 4):
            known = g.alt[self.tip()]["kv"]
            for v in g.vpath(known, gap)[:16]:
                self.submit(v)
            self.gen(False) if r.chance(2, 3) else self.on("cleanup")

    # ---- tree changes
    def grow(self):
        """ALT block(s) through the World: honest bodies, context-heavy bodies (VBK tip far ahead), forks"""
        g, r = self.g, self.r
        k = r.below(10)
        if k < 5:
            a = g.honest_block(self.pick_parent())
            self.show(a)
            if r.chance(3, 4):
                self.on("set", a)
        elif k < 8:
            # move the VBK tip of the instance far ahead: body whose context is the whole path to the miner's tip
            for _ in range(r.range(0, 4)):
                g.mine_vbk()
            a = g.new_alt(self.tip() if r.chance(3, 4) else self.pick_parent())
            g.set_pd(a, extra_ctx=[g.vtip])
            self.show(a)
            self.on("set", a)
            self.stat("ctx_heavy_block")
        else:
            super().step()

    def gen(self, apply_p):
        g, r = self.g, self.r
        rep = self.on("gen")
        self.gens += 1
        kv = dict(x.split("=", 1) for x in rep.split(" ") if "=" in x)
        n = sum(len([y for y in kv.get(k, "").split(",") if y]) for k in ("ctx", "vtbs", "atvs"))
        self.stat("gen_nonempty" if n else "gen_empty")
        self.stat("gen_payloads", n)
        if not apply_p:
            return
        a = g.altgen(self.inst)
        if a is None:
            return
        rep = self.on("applygen", a)
        self.hdr.add(a)
        self.body.add(a)
        if rep == "ok":
            self.applied += 1
            self.stat("applied_nonempty" if n else "applied_empty")
            if r.chance(4, 5):
                self.on("rmall", a)

    def step(self):
        try:
            self.step1()
        except Rejected:
            self.stat("miner_rejected")

    def step1(self):
        r, g = self.r, self.g
        k = r.below(100)
        w = self.W
        acc = 0
        for name, weight in w:
            acc += weight
            if k < acc:
                break
        if name == "create":
            self.create()
        elif name == "submit":
            self.submit_random()
        elif name == "context":
            self.submit_context()
        elif name == "grow":
            self.grow()
        elif name == "chain":
            self.chain()
        elif name == "mixed":
            self.mixed()
        elif name == "onchain":
            self.onchain()
        elif name == "gen":
            self.gen(r.chance(*self.APPLY))
        elif name == "rmall":
            ids = [a for a in sorted(g.alt, key=lambda a: int(a[1:])) if g.alt[a]["haspd"] and a != "a0"]
            if ids:
                self.on("rmall", r.choice(ids[-6:]))
        elif name == "cleanup":
            self.on("cleanup")
        elif name == "clear":
            self.clear_step()
        elif name == "reload":
            if not getattr(self, "allow_reload", False):
                return
            self.on("save")
            rep = self.on("reload")
            self.reloaded = True
            # generate at once: if finalization is due, F10 shows here and the history ends
            self.gen(False)
        elif name == "limits":
            self.g.emit("setlim maxvbk=%d maxvtb=%d maxatv=%d maxsize=%d" % (
                r.choice([0, 1, 2, 3, 200]), r.choice([0, 1, 2, 200]), r.choice([0, 1, 2, 3, 1000]),
                r.choice([10, 80, 200, 600, 700, 1200, 2500, 5500000])))
            self.stat("setlim")

    W = [("create", 14), ("submit", 14), ("context", 14), ("chain", 8), ("mixed", 4), ("onchain", 8), ("grow", 12),
         ("gen", 10), ("rmall", 4), ("cleanup", 7), ("clear", 3), ("reload", 0), ("limits", 2)]
    APPLY = (1, 2)


class C12History(MpHistory):
    W = [("create", 15), ("submit", 13), ("context", 13), ("chain", 8), ("mixed", 8), ("onchain", 4), ("grow", 7),
         ("gen", 20), ("rmall", 2), ("cleanup", 3), ("clear", 1), ("reload", 2), ("limits", 4)]
    APPLY = (4, 5)


def run_script(path, lines, timeout=600, env=None):
    """batch run of a fixed script (corpus / replay): returns (died, [(index, line, text)], replies, notes)"""
    proc = Proc(path, timeout, env)
    fails = []
    replies = []
    died = None
    try:
        for i, l in enumerate(lines):
            rep, fs = proc.send(l)
            replies.append(rep)
            for f in fs:
                fails.append((i + 1, l, f))
    except Died as d:
        err = proc.stderr_text()
        died = sanitizer_summary(err) + " (%s)" % d
        if "VERIF-HASH-MISS" in err:
            died = "HASH-MISS"
    notes = dict(proc.notes)
    proc.close()
    return died, fails, replies, notes


def fail_class(text):
    """failure text without ids, for comparing failures while shrinking"""
    import re
    return re.sub(r"\b[atvwb]\d+\b", "#", re.sub(r"\d+", "#", text))[:80]


def shrink(path, lines, cls, budget=30, timeout=300, runner=None):
    """delta debugging on the line list: keep removing chunks while a failure of the same class (or a crash, when
    cls is None) still occurs. Lines of a removed creation op make later lines SKIP, which is harmless."""
    def bad(ls):
        died, fails, _, _ = (runner or (lambda x: run_script(path, x, timeout)))(ls)
        if died == "HASH-MISS":
            return False
        if cls is None:
            return died is not None
        return any(fail_class(f[2]) == cls for f in fails)
    cur = list(lines)
    n = 2
    runs = 0
    while len(cur) > 2 and runs < budget:
        chunk = max(1, len(cur) // n)
        removed = False
        i = 1  # never remove the begin line
        while i < len(cur) and runs < budget:
            cand = cur[:i] + cur[i + chunk:]
            runs += 1
            if len(cand) >= 1 and bad(cand):
                cur = cand
                removed = True
            else:
                i += chunk
        if not removed:
            if chunk == 1:
                break
            n = min(len(cur), n * 2)
    return cur
