"""In-Coq cross-check of the extraction (DESIGN section 6), generic part.

A plugin runs its cases through the EXTRACTED OCaml model. `xcheck` takes a sample of those cases, each rendered
as a closed Gallina term that calls the same function with the same arguments, evaluates all of them by
`vm_compute` on the Gallina definitions themselves (one generated file in the run's scratch dir, one `coqc`),
and compares with what the extracted code answered. A difference means extraction / OCaml driver / the glue of
the plugin is wrong: a machinery error (ctx.broken), never a property verdict.

Canonical result format: every term has type `list Z` (the plugin encodes outcomes, booleans, options as small
tags; encoders go into `preamble`). The file ends with ONE
    Eval vm_compute in [xc_0; xc_1; ...].
whose answer `= [[..]; [..]; ...] : list (list Z)` is parsed here; nothing else of Coq's printer is relied on.
"""
import os
import re
import time

import vlib

HEADER = """From Coq Require Import ZArith NArith List Bool.
%s
Import ListNotations.
Local Open Scope Z_scope.
Set Printing Width 1000000.
Set Printing Depth 100000000.
Definition xc_b (b : bool) : Z := if b then 1 else 0.
Definition xc_oz (o : option Z) : list Z := match o with Some v => [1; v] | None => [0] end.
"""


# ---------------------------------------------------------------- literals (Python value -> Gallina text)
def z(v):
    return "(%d)" % v


def n(v):
    return "(%d)%%N" % v


def b(v):
    return "true" if v else "false"


def zlist(vs):
    vs = list(vs)
    return "(@nil Z)" if not vs else "[" + "; ".join(z(v) for v in vs) + "]"


def oz(v):
    return "(@None Z)" if v is None else "(Some %s)" % z(v)


def ozlist(vs):
    vs = list(vs)
    return "(@nil (option Z))" if not vs else "[" + "; ".join(oz(v) for v in vs) + "]"


def expect(vs):
    """canonical text of an expected `list Z`"""
    return "[" + ";".join(str(int(v)) for v in vs) + "]"


def unhex(s):
    """number of the line protocol: lowercase hex, `-` prefix for negatives"""
    return -int(s[1:], 16) if s.startswith("-") else int(s, 16)


# ---------------------------------------------------------------- sampling
def sample(rng, cases, want, kind=lambda c: c[1]):
    """deterministic round-robin over the kinds: `want` cases, every kind represented while it has cases left"""
    by = {}
    for c in cases:
        by.setdefault(kind(c), []).append(c)
    kinds = sorted(by)
    for k in kinds:
        rng.shuffle(by[k])
    out = []
    while len(out) < want and any(by[k] for k in kinds):
        for k in kinds:
            if by[k] and len(out) < want:
                out.append(by[k].pop())
    return out


# ---------------------------------------------------------------- parsing Coq's answer
def norm(s):
    s = re.sub(r"%[A-Za-z_]+", "", s)
    s = re.sub(r"\s+", "", s)
    return re.sub(r"\((-?\d+)\)", r"\1", s)


def parse_answer(out):
    """`= [[a; b]; []; ...] : list (list Z)` -> ["[a;b]", "[]", ...] or None"""
    flat = " ".join(out.split("\n"))
    m = re.search(r"=\s*(\[.*\])\s*:\s*list\s*\(list\s+Z\)", flat)
    if not m:
        return None
    body = norm(m.group(1))
    if not (body.startswith("[") and body.endswith("]")):
        return None
    body = body[1:-1]
    res, depth, cur = [], 0, ""
    for ch in body:
        if ch == "[":
            depth += 1
        elif ch == "]":
            depth -= 1
        if ch == ";" and depth == 0:
            res.append(cur)
            cur = ""
        else:
            cur += ch
        if depth < 0:
            return None
    if cur:
        res.append(cur)
    if depth != 0 or any(not re.fullmatch(r"\[(-?\d+(;-?\d+)*)?\]", r) for r in res):
        return None
    return res


# ---------------------------------------------------------------- the check
def xcheck(ctx, name, requires, items, preamble="", timeout=300):
    """items: [(case_id, term : list Z, expected text or list of ints)]; returns the number of differing cases.
    `requires`: module list after `From VB Require Import` (a string, or a list of strings)."""
    if not isinstance(requires, str):
        requires = " ".join(requires)
    items = list(items)
    ctx.cov["in_coq_reevaluated"] = 0
    if not items:
        return 0
    t0 = time.time()
    fn = "xcheck_%s.v" % name
    with open(os.path.join(ctx.work, fn), "w") as f:
        f.write(HEADER % ("From VB Require Import %s." % requires))
        f.write(preamble + "\n")
        for i, (cid, term, _) in enumerate(items):
            f.write("Definition xc_%d : list Z := (%s).\n" % (i, term))
        for lo in range(0, len(items), 50):    # keep the source lines of the final list short
            f.write("Definition xc_all_%d : list (list Z) := [%s].\n"
                    % (lo // 50, "; ".join("xc_%d" % i for i in range(lo, min(len(items), lo + 50)))))
        f.write("Eval vm_compute in (%s).\n" % " ++ ".join("xc_all_%d" % k for k in range((len(items) + 49) // 50)))
    rc, out, err = vlib.sh(["timeout", str(timeout), "coqc", "-Q", vlib.COQ, "VB", "-w", "-all", fn],
                           cwd=ctx.work, timeout=timeout + 30)
    ctx.cov["in_coq_seconds"] = round(time.time() - t0, 1)
    if rc != 0:
        ctx.broken.append("xcheck:%s: %s did not evaluate (rc=%d): %s" % (name, fn, rc, " ".join((err or out).split())[-400:]))
        return 0
    got = parse_answer(out)
    if got is None or len(got) != len(items):
        ctx.broken.append("xcheck:%s: cannot read the answer of %s (%s results for %d terms): %s"
                          % (name, fn, "no" if got is None else len(got), len(items), " ".join(out.split())[:200]))
        return 0
    bad = []
    for (cid, term, exp), g in zip(items, got):
        want = norm(exp if isinstance(exp, str) else expect(exp))
        if g != want:
            bad.append((cid, term, g, want))
    ctx.cov["in_coq_reevaluated"] = len(items) - len(bad)
    for cid, term, g, want in bad[:3]:
        ctx.broken.append("xcheck:%s: extracted model and in-Coq evaluation differ on case %s: term %s: in-Coq %s, extracted %s"
                          % (name, cid, " ".join(term.split())[:300], g[:200], want[:200]))
    return len(bad)
