"""C14 — POP payouts follow the reward specification for every endorsement pattern."""
import os
import vlib

LEVEL = "proof"
HARNESSES = [("h_rewards", "rel")]
ASSUMPTIONS = [
    "double parameters are converted to fixed point by the C++ side ((uint64_t)(d*1e8)); the model receives the "
    "converted integers; every conversion is re-checked against the Python/IEEE mirror on each run",
    "parameter doubles are in [0, 1.8e11) so that the double->uint64_t conversion is defined",
    "the payloads provider holds the ATV of every applied endorsement (getATV failure path not modelled)",
    "the harness maps the real ALT/VBK trees to the abstract input (payout id, VBK height of the block of proof or "
    "'not on the best chain') by reading getEndorsedBy()/getBestChain() itself",
]
META = {
    "text": "Coq theorems (all inputs, unbounded endorsement lists and chains) over a hand-written model of "
            "DefaultPopRewardsCalculator + PopRewardsBigDecimal with explicit 256-bit wrap, uint64 payout accumulation "
            "and throw/abort/SIGFPE outcomes. Under decidable, stated bounds (params_okb: converted doubles < 2^64, "
            "thresholds >= slope start, a ratio for every round, capped reward < 2^64; heights < 2^31; < 2^32 "
            "endorsements per block): C14_u256_refines_Z (+_block_reward): the 256-bit arithmetic never wraps; "
            "C14_block_reward_eq_spec / C14_reward_eq_spec: calculateBlockReward and getPopPayout equal an independently "
            "written by-regime specification (flat round, below/above slope start, threshold cap, keystone round, "
            "minimum difficulty, score from relative VBK publication height, difficulty averaged over the preceding "
            "blocks, endorsed block = delay-1 behind the tip, empty when the chain is too short); "
            "C14_same_payout_info_summed: a payout info's entry is the sum of its shares, no entry without a counted "
            "endorsement; C14_payout_order_independent: the payout map does not depend on the endorsement order; "
            "C14_sum_le_block_reward: total paid <= block reward <= capped reward (the true inequality: shares are "
            "rounded down, the total can be smaller); C14_block_reward_le_cap; C14_default_params_ok (library "
            "defaults, regenerated from the source, satisfy the bounds). For EVERY wrap function and parameter set: "
            "C14_only_best_chain_endorsements, C14_no_endorsement_no_pay. No theorem is _partial or _refuted. The "
            "model is executable and compared with the real calculator (pure helpers on random well-formed and "
            "degenerate parameter sets incl. the wrap regime; getPopPayout/calculatePayouts/Inner/score/difficulty on "
            "real ALT/VBK trees built with MockMiner incl. VBK forks, ALT reorgs, duplicate payout infos); wherever "
            "the side conditions hold the extracted specification is evaluated too, so a disagreement is a concrete "
            "failing input; the harness also evaluates the direct oracle (payees = endorsers on the best chain, "
            "total <= block reward) on the implementation.",
    "note": "Trusted: Coq kernel, extraction (ExtrOcamlBasic), OCaml driver, C++ harness and its tree->abstract-view "
            "mapping (reads getEndorsedBy/getBestChain itself), tools/gen_rewardparams.py (regex over the headers, fails "
            "closed on an unknown member/operator shape; cross-checked against the library's own defaults by the "
            "`pardefault` op). ArithUint256 is modelled as Z mod 2^256 (the byte-level model is C18's). The "
            "double->fixed conversion (uint64_t)(d*1e8) is binary64 arithmetic, not modelled in Coq: mirrored in "
            "Python, compared with the C++ on every run (observation: it truncates, so table entries 23 and 36 are "
            "6766427 and 3267968, one unit below the decimal literals). Not modelled: getATV failure path, "
            "logging, the VBK_ASSERT preconditions of getPopPayout about the tree state. Mutating `>` to `>=` at the "
            "slope start is behaviour-preserving for well-formed parameters (penalty 0 at the boundary) and is only "
            "visible for thresholds below the slope start (abort). Modelled not verified: MockMiner, tree code "
            "maintaining endorsedBy (C01/C04). thorough tier does not run coqchk.",
    "technique": "Coq proof (refinement calculator-model = specification over Z, induction over endorsement lists) + "
                 "extraction-based differential correspondence + direct oracle on the implementation",
}

ONE = 100000000


# ---------------------------------------------------------------- parameter sets
def conv(d):
    return int(d * 100000000.0)


def dtok(d):
    return "%s/%x" % (float(d).hex(), conv(float(d)))


DEFAULT_TABLE = [1.0] * 12 + [0.48296816, 0.31551694, 0.23325824, 0.18453616, 0.15238463, 0.12961255, 0.11265630,
                              0.09955094, 0.08912509, 0.08063761, 0.07359692, 0.06766428, 0.06259873, 0.05822428,
                              0.05440941, 0.05105386, 0.04807993, 0.04542644, 0.04304458, 0.04089495, 0.03894540,
                              0.03716941, 0.03554497, 0.03405359, 0.03267969, 0.03141000, 0.03023319, 0.02913950,
                              0.02812047, 0.02716878, 0.02627801, 0.02544253, 0.02465739, 0.02391820, 0.02322107,
                              0.02256255, 0.02193952, 0.02134922]


def default_par(ki=5, settle=50, delay=50):
    return dict(ki=ki, settle=settle, delay=delay, kround=3, rounds=4, flatround=2, useflat=1, interval=50,
                start=1.0, slopeN=0.2, slopeK=0.21325, thrN=2.0, thrK=3.0, ratios=[0.97, 1.03, 1.07, 3.0],
                table=list(DEFAULT_TABLE))


def rand_double(r, hi):
    """a double in [0, hi]: mostly short decimals (as in source code), sometimes arbitrary binary64"""
    k = r.below(10)
    if k < 4:
        return r.below(int(hi * 100) + 1) / 100.0
    if k < 8:
        return r.below(int(hi * 10 ** 8) + 1) / 1e8
    return (r.bits(53) / float(1 << 53)) * hi


def rand_par(r, wf):
    """wf: well-formed (no abort/throw expected) ; else anything incl. degenerate values"""
    p = default_par()
    p["ki"] = r.choice([1, 2, 3, 4, 5, 5, 5, 7, 10, 20]) if wf or r.chance(9, 10) else 0
    p["rounds"] = r.range(2, 6) if wf else r.range(0, 7)
    nrat = p["rounds"] + r.range(0, 2) if wf else r.range(0, 7)
    p["kround"] = r.below(max(1, nrat)) if wf else r.range(0, 7)
    p["flatround"] = r.below(max(1, p["rounds"])) if r.chance(4, 5) else r.range(0, 7)
    p["useflat"] = r.below(2)
    p["interval"] = r.range(1, 60) if wf or r.chance(9, 10) else 0
    p["start"] = 1.0 if r.chance(1, 2) else rand_double(r, 3.0)
    p["slopeN"] = rand_double(r, 1.5)
    p["slopeK"] = rand_double(r, 1.5)
    if wf or r.chance(3, 4):
        p["thrN"] = p["start"] + rand_double(r, 3.0)
        p["thrK"] = p["start"] + rand_double(r, 4.0)
    else:
        p["thrN"] = rand_double(r, 3.0)
        p["thrK"] = rand_double(r, 3.0)
    p["ratios"] = [rand_double(r, 4.0) for _ in range(nrat)]
    if r.chance(1, 2):
        p["table"] = list(DEFAULT_TABLE)
    else:
        n = r.range(1, 60) if wf else r.range(0, 60)
        p["table"] = [1.0 if r.chance(1, 3) else rand_double(r, 1.2) for _ in range(n)]
    if not wf and r.chance(1, 6):
        # huge doubles: the fixed-point values approach 2^64
        for k in ("start", "slopeN", "thrN", "thrK"):
            if r.chance(1, 2):
                p[k] = rand_double(r, 1.0) * 1.8e11
        if p["ratios"]:
            p["ratios"][0] = rand_double(r, 1.0) * 1.8e11
    return p


def par_line(p):
    return "par %x %x %x %x %x %x %d %x %s %s %s %s %s R:%s T:%s" % (
        p["ki"], p["settle"], p["delay"], p["kround"], p["rounds"], p["flatround"], p["useflat"], p["interval"],
        dtok(p["start"]), dtok(p["slopeN"]), dtok(p["slopeK"]), dtok(p["thrN"]), dtok(p["thrK"]),
        ",".join(dtok(x) for x in p["ratios"]), ",".join(dtok(x) for x in p["table"]))


def boundary_values(r, p):
    """scores/difficulties aimed at the regime boundaries of parameter set p"""
    vs = {0, 1, ONE - 1, ONE, ONE + 1, 2 * ONE, 3 * ONE, 5 * ONE}
    for d in (p["start"], p["thrN"], p["thrK"]):
        c = conv(d)
        for k in (-1, 0, 1):
            if c + k >= 0:
                vs.add(c + k)
                vs.add(2 * (c + k))
    return sorted(vs)


class Cases:
    """a list of lines with ids; remembers for each line the context needed to replay it alone"""

    def __init__(self, prefix):
        self.prefix = prefix
        self.lines = []          # (id, text)
        self.ctx = {}            # id -> list of earlier line texts needed (par / scen)
        self.cur_par = None
        self.cur_scen = []
        self.hist = {}

    def add(self, text):
        cid = "%s%d" % (self.prefix, len(self.lines) + 1)
        op = text.split(" ", 1)[0]
        self.hist[op] = self.hist.get(op, 0) + 1
        if op in ("par", "pardefault"):
            self.ctx[cid] = []
            self.cur_par = text
        elif op == "scen":
            self.ctx[cid] = [self.cur_par] if self.cur_par else []
            self.cur_scen = self.ctx[cid] + [text]
        elif op.rstrip("!") in ("pay", "payat", "payin", "score", "diff"):
            self.ctx[cid] = self.cur_scen + ([self.cur_par] if self.cur_par else [])
        else:
            self.ctx[cid] = [self.cur_par] if self.cur_par else []
        self.lines.append((cid, text))
        return cid


# ---------------------------------------------------------------- pure cases
def gen_pure(ctx, scale):
    r = ctx.rng.fork()
    c = Cases("p")
    c.add("pardefault")
    dp = default_par()
    bv = boundary_values(r, dp)
    # every round type x regime boundaries on the library's default parameters
    for h in list(range(0, 26)) + [49, 50, 51, 100, 2 ** 31 - 1]:
        for s in bv:
            for d in (0, ONE - 1, ONE, ONE + 1, 2 * ONE, 25 * ONE):
                c.add("br %x %x %x" % (h, s, d))
    for h in range(0, 60):
        c.add("round %x" % h)
    for h in (2 ** 31 - 1, 2 ** 31, 2 ** 32 - 1):
        c.add("round %x" % h)
    for rel in list(range(-2, 56)) + [2 ** 31 - 1, -2 ** 31]:
        c.add("mult %s" % (("-%x" % -rel) if rel < 0 else "%x" % rel))
    for rel in list(range(0, 53)) + [2 ** 31, 2 ** 32 - 1]:
        for s, b in ((ONE, 97000000), (3 * ONE, 510000000), (0, ONE), (7, ONE), (12345678901, 299999999)):
            c.add("mr %x %x %x" % (rel, s, b))
    # double conversions
    for d in [0.0, 1.0, 0.97, 1.03, 1.07, 0.21325, 0.06766428, 0.03267969, 1e-9, 0.99999999, 0.999999999, 1e10,
              1.8e11, 123456.789]:
        c.add("conv %s %x" % (float(d).hex(), conv(d)))
    for _ in range(200 * scale):
        d = rand_double(r, r.choice([1.0, 5.0, 1000.0, 1e9, 1.8e11]))
        c.add("conv %s %x" % (float(d).hex(), conv(d)))
    # the fixed-point operators incl. the 256-bit wrap
    for _ in range(300 * scale):
        a = r.bits(r.choice([1, 27, 28, 64, 100, 200, 228, 229, 230, 255, 256]))
        b = r.bits(r.choice([0, 1, 27, 28, 64, 100, 200, 256]))
        c.add("bdops %x %x" % (a, b))
    # random parameter sets
    nsets = 60 * scale
    for i in range(nsets):
        wf = r.chance(2, 3)
        p = rand_par(r, wf)
        p["settle"], p["delay"] = 50, 50
        c.add(par_line(p))
        bv = boundary_values(r, p)
        hs = [r.below(4 * max(1, p["ki"]) + 3) for _ in range(6)] + [0, p["ki"], r.bits(31)]
        for _ in range(40):
            h = r.choice(hs)
            k = r.below(10)
            if k < 5:
                s = r.choice(bv)
                d = r.choice([0, ONE - 1, ONE, ONE + 1, 2 * ONE, r.choice(bv)])
                if r.chance(1, 2) and d > 0:
                    # aim the ratio s*1e8/d exactly at a boundary
                    tgt = r.choice(bv)
                    d = max(ONE, d)
                    s = max(0, tgt * d // ONE + r.range(-1, 1))
            elif k < 8:
                s = r.bits(r.range(1, 100))
                d = r.bits(r.range(1, 100))
            else:
                s = r.bits(r.choice([128, 200, 229, 230, 256]))
                d = r.bits(r.choice([1, 64, 128, 256]))
            c.add("br %x %x %x" % (h, s, d))
        for _ in range(8):
            rel = r.choice([0, 1, len(p["table"]) - 1, len(p["table"]), r.below(70)])
            s = r.choice([0, 1, ONE, r.bits(r.range(1, 90)), r.bits(256)])
            b = r.choice([0, ONE, r.bits(r.range(1, 100)), r.bits(250)])
            c.add("mr %x %x %x" % (max(0, rel), s, b))
        for _ in range(3):
            c.add("round %x" % r.choice(hs))
        rel = r.choice([-1, 0, len(p["table"]) - 1, len(p["table"]), len(p["table"]) + 1])
        c.add("mult %s" % (("-%x" % -rel) if rel < 0 else "%x" % rel))
    return c


# ---------------------------------------------------------------- tree scenarios
def gen_scenario(r, settle):
    """returns (script tokens, list of endorsed heights, tip height)"""
    toks = []
    h = r.range(1, 2 * settle)          # current ALT tip height
    toks.append("a%d" % h)
    endorsed = set()
    nev = r.range(2, 7)
    pool = [r.range(1, 9) for _ in range(r.range(1, 4))]     # few payout ids -> duplicates
    pend_fork = False
    for _ in range(nev):
        lo = max(1, h + 1 - settle + 1)
        cands = list(range(lo, h + 1))
        k = r.below(10)
        targets = [r.choice(cands) for _ in range(r.range(1, 3))]
        if k < 3:
            targets = [targets[0]]
        for t in targets:
            for _ in range(r.choice([1, 1, 2, 3, 6])):
                toks.append("e%d.%d" % (t, r.choice(pool) if r.chance(3, 4) else r.range(1, 40)))
            endorsed.add(t)
        gap = r.choice([1, 1, 1, 2, 3, 5, 13, 14]) if r.chance(9, 10) else r.range(40, 55)
        toks.append("v%d" % gap)
        if r.chance(1, 3):
            # more endorsements of the same blocks a few VBK blocks later, same ALT containing block
            t = r.choice(targets)
            for _ in range(r.range(1, 3)):
                toks.append("e%d.%d" % (t, r.choice(pool)))
            toks.append("v%d" % r.choice([1, 2, 11, 12, 13]))
        toks.append("a1")
        h += 1
        if r.chance(1, 3):
            # VBK fork: the last `back` VBK blocks (with their endorsements) leave the best chain
            back = r.range(1, 3)
            if r.chance(1, 2):
                t = r.choice(list(range(max(1, h + 1 - settle + 1), h + 1)))
                toks.append("e%d.%d" % (t, r.choice(pool)))
                endorsed.add(t)
            toks.append("f%d.%d" % (back, back + r.range(1, 3)))
            toks.append("a1")
            h += 1
        if r.chance(1, 8) and h > 3:
            k2 = r.range(1, 2)
            toks.append("r%d" % k2)
            h -= k2
            toks.append("a%d" % (k2 + 1))
            h += k2 + 1
    return toks, sorted(x for x in endorsed if x <= h), h


def gen_tree(ctx, scale):
    r = ctx.rng.fork()
    c = Cases("t")
    nscen = 10 * scale
    for i in range(nscen):
        ki = r.choice([2, 3, 4, 5, 5, 7])
        settle = r.choice([4, 6, 10, 15])
        base = default_par(ki, settle, settle)
        base["interval"] = r.choice([1, 2, 5, 50])
        c.add(par_line(base))
        toks, endorsed, h = gen_scenario(r, settle)
        # pad so that getPopPayout(tip) with delay d0 pays one of the endorsed blocks
        d0 = settle + r.range(0, 5)
        tgt = r.choice(endorsed) if endorsed else h
        tip = max(h, tgt + d0 - 1)
        if tip > h:
            toks.append("a%d" % (tip - h))
        d0 = tip - tgt + 1
        c.add("scen " + " ".join(toks))
        # every endorsed block through getPopPayout by moving the payout delay (>= settle: legal; < settle: abort)
        for e in endorsed:
            d = tip - e + 1
            q = dict(base, delay=d)
            c.add(par_line(q))
            c.add("pay!")
        for d in (0, 1, tip + 1, tip + 2, d0):
            c.add(par_line(dict(base, delay=d)))
            c.add("pay!")
        c.add(par_line(dict(base, delay=d0)))
        hs = sorted(set(endorsed + [max(0, e - 1) for e in endorsed] + [e + 1 for e in endorsed if e + 1 <= tip] + [0, tip]))
        for e in hs:
            c.add("payat! %x" % e)
            c.add("score! %x" % e)
            c.add("diff! %x" % e)
        bv = boundary_values(r, base)
        for e in endorsed:
            for _ in range(6):
                c.add("payin! %x %x %x" % (e, r.choice(bv), r.choice([0, ONE, 2 * ONE, r.choice(bv)])))
        # other parameter sets on the same tree
        for _ in range(6):
            p = rand_par(r, r.chance(4, 5))
            p["settle"] = r.choice([settle, 1, 0, settle + 3])
            p["delay"] = tip - (r.choice(endorsed) if endorsed else tip) + 1
            c.add(par_line(p))
            c.add("pay!")
            for e in endorsed:
                c.add("payat! %x" % e)
    return c


# ---------------------------------------------------------------- running
def write_lines(path, lines):
    with open(path, "w") as f:
        for cid, text in lines:
            f.write("%s %s\n" % (cid, text))


def fork_mark(lines, mres):
    """run an op in a forked child when the model predicts that the call terminates the process"""
    out = []
    for cid, text in lines:
        m = mres.get(cid, "")
        if m.startswith("abort") or m.startswith("fpe"):
            op, sp, rest = text.partition(" ")
            if not op.endswith("!"):
                text = op + "!" + sp + rest
        out.append((cid, text))
    return out


def run_pure(model, H, lines, work, tag="pure"):
    """model first (decides which calls run in a forked child), then the implementation"""
    fm = os.path.join(work, tag + "_model.txt")
    write_lines(fm, lines)
    rc1, mres, _, merr = vlib.run_lines([model], fm)
    fh = os.path.join(work, tag + "_impl.txt")
    write_lines(fh, fork_mark(lines, mres))
    rc2, ires, orc, ierr = vlib.run_lines([H], fh)
    err = "" if rc1 == 0 and rc2 == 0 else "model rc=%d impl rc=%d %s" % (rc1, rc2, (merr + ierr)[-300:])
    return mres, ires, orc, err, set(), []


def run_tree(model, H, lines, work, tag="tree"):
    """implementation first: the abstract view observed for each scenario is the model's input.
    Every query runs in a forked child of the harness (a call may terminate the process)."""
    fh = os.path.join(work, tag + "_impl.txt")
    write_lines(fh, lines)
    rc2, ires, orc, ierr = vlib.run_lines([H], fh)
    mlines, skipped, views, builderr = [], set(), [], []
    dead = False
    for cid, text in lines:
        op = text.split(" ", 1)[0]
        if op == "scen":
            res = ires.get(cid, "")
            if res.startswith("ok "):
                dead = False
                mlines.append((cid, "scen " + res[3:]))
                views.append(res[3:])
            else:
                dead = True
                builderr.append("%s -> %s" % (text[:200], res[:200]))
                skipped.add(cid)
        elif op in ("par", "pardefault") or not dead:
            mlines.append((cid, text))
        else:
            skipped.add(cid)
    fm = os.path.join(work, tag + "_model.txt")
    write_lines(fm, mlines)
    rc1, mres, _, merr = vlib.run_lines([model], fm)
    err = "" if rc1 == 0 and rc2 == 0 else "model rc=%d impl rc=%d %s" % (rc1, rc2, (merr + ierr)[-300:])
    return mres, ires, orc, err, skipped, (views, builderr)


def view_stats(cov, view):
    for t in view.split():
        if t.startswith("B"):
            es = t.split(":", 1)[1].split(",")
            cov["endorsed_blocks"] += 1
            cov["endorsements"] += len(es)
            on = [e for e in es if not e.endswith(".x")]
            cov["endorsements_off_best_chain"] += len(es) - len(on)
            pids = [e.split(".")[0] for e in on]
            if len(pids) != len(set(pids)):
                cov["blocks_with_duplicate_payout_info"] += 1
            if on:
                hsv = [int(e.split(".")[1], 16) for e in on]
                cov["max_relative_vbk_height"] = max(cov["max_relative_vbk_height"], max(hsv) - min(hsv))


def is_tree(lines):
    return any(l.split(" ", 1)[0] == "scen" for l in lines)


def load_corpus(pure, tree):
    d = os.path.join(vlib.VERIF, "corpus", "C14")
    if not os.path.isdir(d):
        return
    for f in sorted(os.listdir(d)):
        ls = [l.strip() for l in open(os.path.join(d, f)) if l.strip() and l[0] != "#"]
        tgt = tree if is_tree(ls) else pure
        for l in ls:
            tgt.add(l)


def run(ctx):
    import time
    t0 = time.time()
    ctx.prove()
    timing = {"prove_s": round(time.time() - t0, 1)}
    okm, model, mlog = vlib.build_model("Rewards")
    okh, hs, hlog = vlib.build_harness(["h_rewards"])
    if not okm:
        ctx.broken.append("model-build: " + mlog[-300:])
    if not okh:
        ctx.broken.append("harness-build: " + hlog[-300:])
    if not (okm and okh):
        return
    H = hs["h_rewards"]
    timing["build_s"] = round(time.time() - t0 - timing["prove_s"], 1)
    ctx.cov["timing"] = timing
    scale = 1 if ctx.tier == "quick" else 12
    pure = Cases("p")
    tree = Cases("t")
    if ctx.replay and "lines" in ctx.replay:
        tgt = tree if is_tree(ctx.replay["lines"]) else pure
        for l in ctx.replay["lines"]:
            tgt.add(l)
    else:
        load_corpus(pure, tree)
        for _, t in gen_pure(ctx, scale).lines:
            pure.add(t)
        for _, t in gen_tree(ctx, scale).lines:
            tree.add(t)

    bad = []          # (text, context lines, model, impl)
    oracle = []       # (context lines + text, oracle text)
    total = 0
    vc = {"scenarios": 0, "endorsed_blocks": 0, "endorsements": 0, "endorsements_off_best_chain": 0,
          "blocks_with_duplicate_payout_info": 0, "max_relative_vbk_height": 0, "scenario_build_errors": 0}
    for cs, runner, tag in ((pure, run_pure, "pure"), (tree, run_tree, "tree")):
        if not cs.lines:
            continue
        t1 = time.time()
        mres, ires, orc, err, skipped, extra = runner(model, H, cs.lines, ctx.work, tag)
        timing[tag + "_run_s"] = round(time.time() - t1, 1)
        if err:
            ctx.broken.append("runner(%s): %s" % (tag, err))
        if tag == "tree":
            views, builderr = extra
            vc["scenarios"] = len(views) + len(builderr)
            vc["scenario_build_errors"] = len(builderr)
            for v in views:
                view_stats(vc, v)
            for b in builderr[:3]:
                ctx.broken.append("corr:scenario-build: " + b)
            ctx.cov["tree_nonempty_payouts"] = sum(1 for v in mres.values() if "=" in v)
        byid = dict(cs.lines)
        for cid, text in cs.lines:
            if cid in skipped:
                continue
            total += 1
            if mres.get(cid) != ires.get(cid):
                bad.append((text, [l for l in cs.ctx[cid] if l], mres.get(cid), ires.get(cid)))
        for cid, t in orc:
            if cid in byid:
                oracle.append(([l for l in cs.ctx[cid] if l] + [byid[cid]], t))
        ctx.cov[tag + "_outcomes"] = {k: sum(1 for v in mres.values() if v.startswith(k))
                                      for k in ("ok", "throw", "abort", "fpe")}
        ctx.cov[tag + "_spec_evaluated_mismatches"] = sum(1 for v in mres.values() if "SPEC-MISMATCH" in v)
        for cid, text in cs.lines[:2] + cs.lines[-1:]:
            ctx.sample({"line": text[:300], "model": (mres.get(cid) or "")[:200], "impl": (ires.get(cid) or "")[:200]})
    ctx.cov["scenario_views"] = vc
    ctx.cov["op_histogram"] = {k: pure.hist.get(k, 0) + tree.hist.get(k, 0) for k in set(pure.hist) | set(tree.hist)}
    ctx.cov["evaluations"] = total
    ctx.cov["distinct_nontrivial"] = len({t for _, t in pure.lines if not t.startswith("par")}) + \
        len({(tuple(tree.ctx[i]), t) for i, t in tree.lines if not t.startswith("par")})
    ctx.cov["rule"] = ("pure: every height 0..25 x regime-boundary scores x difficulties on the library defaults, random "
                       "well-formed and degenerate parameter sets with scores aimed at slope start / thresholds and the "
                       "256-bit wrap regime, fixed-point operators, double conversions; trees: MockMiner scenarios "
                       "(duplicate payout infos, several VBK heights, VBK forks, ALT reorgs), every endorsed block paid "
                       "through getPopPayout by moving the payout delay, calculatePayouts/Inner, other parameter sets; "
                       "distinct = distinct (context, op line)")
    ctx.cov["disagreements_checked"] = total
    ctx.cov["traces_validated_against_impl"] = total - len(bad)
    ctx.cov["trusted_base"] = list(ASSUMPTIONS)
    if not ctx.replay and tree.lines:
        if vc["endorsements_off_best_chain"] == 0 or vc["blocks_with_duplicate_payout_info"] == 0 or \
                ctx.cov.get("tree_nonempty_payouts", 0) == 0:
            ctx.broken.append("coverage: generated scenarios exercised no off-chain endorsement / duplicate payout "
                              "info / non-empty payout")

    # direct oracle failures on the implementation: concrete failing inputs
    for lines, t in oracle[:3]:
        ctx.violation({"kind": "input", "lines": lines, "oracle": t,
                       "what": "direct property oracle failed on the implementation"})
    # disagreements: re-run the single case in isolation (excludes flakiness and order dependence), then report it
    reported = 0
    for text, cx, m, i in bad:
        if reported >= 4:
            break
        lines = cx + [text]
        rep = Cases("r")
        for l in lines:
            rep.add(l)
        runner = run_tree if is_tree(lines) else run_pure
        mr, ir, _, _, _, _ = runner(model, H, rep.lines, ctx.work, "rerun")
        last = rep.lines[-1][0]
        if mr.get(last) == ir.get(last):
            continue   # not reproducible in isolation
        reported += 1
        ctx.violation({"kind": "input", "lines": lines, "model": mr.get(last), "impl": ir.get(last),
                       "what": "implementation differs from the model of the calculator, which is proved equal to "
                               "the reward specification under the stated bounds (a SPEC-MISMATCH tag in the model "
                               "result would flag a model/specification difference instead)"})
    if bad and not ctx.violations:
        ctx.broken.append("corr:Rewards: first disagreeing input %s model=%s impl=%s (not reproducible in isolation)"
                          % (bad[0][0][:200], bad[0][2], bad[0][3]))
