"""C14 — POP payouts follow the reward specification for every endorsement pattern."""
import os
import vlib
from props import _xcheck as X

LEVEL = "proof"
HARNESSES = [("h_rewards", "rel")]
ASSUMPTIONS = [
    "double parameters are converted to fixed point by the C++ side ((uint64_t)(d*1e8)); the model receives the "
    "converted integers; every conversion is re-checked against the Python/IEEE mirror on each run",
    "parameter doubles are in [0, 1.8e11) so that the double->uint64_t conversion is defined",
    "the payloads provider holds the ATV of every applied endorsement (getATV failure path not modelled)",
    "the harness maps the real ALT/VBK trees to the abstract input (payout id, VBK height of the block of proof or "
    "'not on the best chain') by reading getEndorsedBy()/getBestChain() itself",
]
META = {
    "text": "Coq theorems (all inputs, unbounded endorsement lists and chains) over a hand-written model of "
            "DefaultPopRewardsCalculator + PopRewardsBigDecimal with explicit 256-bit wrap, uint64 payout accumulation "
            "and throw/abort/SIGFPE outcomes. Under decidable, stated bounds (params_okb: converted doubles < 2^64, "
            "thresholds >= slope start, a ratio for every round, capped reward < 2^64; heights < 2^31; < 2^32 "
            "endorsements per block): C14_u256_refines_Z (+_block_reward): the 256-bit arithmetic never wraps; "
            "C14_block_reward_eq_spec / C14_reward_eq_spec: calculateBlockReward and getPopPayout equal an independently "
            "written by-regime specification (flat round, below/above slope start, threshold cap, keystone round, "
            "minimum difficulty, score from relative VBK publication height, difficulty averaged over the preceding "
            "blocks, endorsed block = delay-1 behind the tip, empty when the chain is too short); "
            "C14_same_payout_info_summed: a payout info's entry is the sum of its shares, no entry without a counted "
            "endorsement; C14_payout_order_independent: the payout map does not depend on the endorsement order; "
            "C14_sum_le_block_reward: total paid <= block reward <= capped reward (the true inequality: shares are "
            "rounded down, the total can be smaller); C14_block_reward_le_cap; C14_default_params_ok (library "
            "defaults, regenerated from the source, satisfy the bounds). For EVERY wrap function and parameter set: "
            "C14_only_best_chain_endorsements, C14_no_endorsement_no_pay, and locality: C14_difficulty_only_window / "
            "C14_payouts_only_window / C14_get_pop_payout_only_window (difficulty and payouts are functions of the "
            "averaging-interval blocks preceding the endorsed block, getPopPayout of the delay+interval blocks below the "
            "tip; C14_get_pop_payout_window / C14_difficulty_window: the executable truncated evaluation equals the "
            "model on the full chain). Monotonicity of the specification: C14_share_monotone_weight / _reward; "
            "C14_block_reward_antitone_difficulty / C14_block_reward_monotone_score up to the start of the slope; "
            "C14_curve_monotone_refuted: beyond the slope start the curve is not monotone for every admissible "
            "parameter set (witness slope 1.0). No theorem is _partial. The "
            "model is executable and compared with the real calculator (pure helpers on random well-formed and "
            "degenerate parameter sets incl. the wrap regime; getPopPayout/calculatePayouts/Inner/score/difficulty on "
            "real ALT/VBK trees built with MockMiner incl. VBK forks, ALT reorgs, duplicate payout infos, sustained "
            "endorsement histories with difficulty above the 1.0 clamp and slope start/thresholds on the reachable "
            "score ratios; window ops: the model answers from the truncated chain only while the real calculator runs "
            "on the full tree, with endorsed blocks below the window); wherever "
            "the side conditions hold the extracted specification is evaluated too, so a disagreement is a concrete "
            "failing input; the harness also evaluates the direct oracle (payees = endorsers on the best chain, "
            "total <= block reward) on the implementation.",
    "note": "Trusted: Coq kernel, extraction (ExtrOcamlBasic), OCaml driver, C++ harness and its tree->abstract-view "
            "mapping (reads getEndorsedBy/getBestChain itself), tools/gen_rewardparams.py (regex over the headers, fails "
            "closed on an unknown member/operator shape; cross-checked against the library's own defaults by the "
            "`pardefault` op). ArithUint256 is modelled as Z mod 2^256 (the byte-level model is C18's). The "
            "double->fixed conversion (uint64_t)(d*1e8) is modelled with Coq primitive floats (Rewards/ConvDefs.v, not "
            "extractable): C14_conv_double_u64, C14_default_conversion (the generated converted defaults = the float "
            "model on the source literals), C14_conversion_exact_refuted; every double of a run (conv lines, par "
            "tokens) is evaluated in Coq by vm_compute and compared with the C++ result; the Python mirror only "
            "produces the inputs (observation: it truncates, so table entries 23 and 36 are "
            "6766427 and 3267968, one unit below the decimal literals). Not modelled: getATV failure path, "
            "logging, the VBK_ASSERT preconditions of getPopPayout about the tree state. Mutating `>` to `>=` at the "
            "slope start is behaviour-preserving for well-formed parameters (penalty 0 at the boundary) and is only "
            "visible for thresholds below the slope start (abort). Modelled not verified: MockMiner, tree code "
            "maintaining endorsedBy (C01/C04). thorough tier does not run coqchk. A sample of 220 cases per run (every "
            "driver op that calls the model, incl. the specification tests behind SPEC-MISMATCH) is re-evaluated inside "
            "Coq by vm_compute and compared with the extracted model's output, so extraction is cross-checked, not "
            "trusted blindly (props/_xcheck.py).",
    "technique": "Coq proof (refinement calculator-model = specification over Z, induction over endorsement lists) + "
                 "extraction-based differential correspondence + direct oracle on the implementation",
}

ONE = 100000000


# ---------------------------------------------------------------- parameter sets
def conv(d):
    return int(d * 100000000.0)


def dtok(d):
    return "%s/%x" % (float(d).hex(), conv(float(d)))


DEFAULT_TABLE = [1.0] * 12 + [0.48296816, 0.31551694, 0.23325824, 0.18453616, 0.15238463, 0.12961255, 0.11265630,
                              0.09955094, 0.08912509, 0.08063761, 0.07359692, 0.06766428, 0.06259873, 0.05822428,
                              0.05440941, 0.05105386, 0.04807993, 0.04542644, 0.04304458, 0.04089495, 0.03894540,
                              0.03716941, 0.03554497, 0.03405359, 0.03267969, 0.03141000, 0.03023319, 0.02913950,
                              0.02812047, 0.02716878, 0.02627801, 0.02544253, 0.02465739, 0.02391820, 0.02322107,
                              0.02256255, 0.02193952, 0.02134922]


def default_par(ki=5, settle=50, delay=50):
    return dict(ki=ki, settle=settle, delay=delay, kround=3, rounds=4, flatround=2, useflat=1, interval=50,
                start=1.0, slopeN=0.2, slopeK=0.21325, thrN=2.0, thrK=3.0, ratios=[0.97, 1.03, 1.07, 3.0],
                table=list(DEFAULT_TABLE))


def rand_double(r, hi):
    """a double in [0, hi]: mostly short decimals (as in source code), sometimes arbitrary binary64"""
    k = r.below(10)
    if k < 4:
        return r.below(int(hi * 100) + 1) / 100.0
    if k < 8:
        return r.below(int(hi * 10 ** 8) + 1) / 1e8
    return (r.bits(53) / float(1 << 53)) * hi


def rand_par(r, wf):
    """wf: well-formed (no abort/throw expected) ; else anything incl. degenerate values"""
    p = default_par()
    p["ki"] = r.choice([1, 2, 3, 4, 5, 5, 5, 7, 10, 20]) if wf or r.chance(9, 10) else 0
    p["rounds"] = r.range(2, 6) if wf else r.range(0, 7)
    nrat = p["rounds"] + r.range(0, 2) if wf else r.range(0, 7)
    p["kround"] = r.below(max(1, nrat)) if wf else r.range(0, 7)
    p["flatround"] = r.below(max(1, p["rounds"])) if r.chance(4, 5) else r.range(0, 7)
    p["useflat"] = r.below(2)
    p["interval"] = r.range(1, 60) if wf or r.chance(9, 10) else 0
    p["start"] = 1.0 if r.chance(1, 2) else rand_double(r, 3.0)
    p["slopeN"] = rand_double(r, 1.5)
    p["slopeK"] = rand_double(r, 1.5)
    if wf or r.chance(3, 4):
        p["thrN"] = p["start"] + rand_double(r, 3.0)
        p["thrK"] = p["start"] + rand_double(r, 4.0)
    else:
        p["thrN"] = rand_double(r, 3.0)
        p["thrK"] = rand_double(r, 3.0)
    p["ratios"] = [rand_double(r, 4.0) for _ in range(nrat)]
    if r.chance(1, 2):
        p["table"] = list(DEFAULT_TABLE)
    else:
        n = r.range(1, 60) if wf else r.range(0, 60)
        p["table"] = [1.0 if r.chance(1, 3) else rand_double(r, 1.2) for _ in range(n)]
    if not wf and r.chance(1, 6):
        # huge doubles: the fixed-point values approach 2^64
        for k in ("start", "slopeN", "thrN", "thrK"):
            if r.chance(1, 2):
                p[k] = rand_double(r, 1.0) * 1.8e11
        if p["ratios"]:
            p["ratios"][0] = rand_double(r, 1.0) * 1.8e11
    return p


def par_line(p):
    return "par %x %x %x %x %x %x %d %x %s %s %s %s %s R:%s T:%s" % (
        p["ki"], p["settle"], p["delay"], p["kround"], p["rounds"], p["flatround"], p["useflat"], p["interval"],
        dtok(p["start"]), dtok(p["slopeN"]), dtok(p["slopeK"]), dtok(p["thrN"]), dtok(p["thrK"]),
        ",".join(dtok(x) for x in p["ratios"]), ",".join(dtok(x) for x in p["table"]))


def boundary_values(r, p):
    """scores/difficulties aimed at the regime boundaries of parameter set p"""
    vs = {0, 1, ONE - 1, ONE, ONE + 1, 2 * ONE, 3 * ONE, 5 * ONE}
    for d in (p["start"], p["thrN"], p["thrK"]):
        c = conv(d)
        for k in (-1, 0, 1):
            if c + k >= 0:
                vs.add(c + k)
                vs.add(2 * (c + k))
    return sorted(vs)


SCEN_OPS = ("pay", "payat", "payin", "score", "diff", "payw", "payatw", "diffw")


class Cases:
    """a list of lines with ids; remembers for each line the context needed to replay it alone"""

    def __init__(self, prefix):
        self.prefix = prefix
        self.lines = []          # (id, text)
        self.ctx = {}            # id -> list of earlier line texts needed (par / scen)
        self.cur_par = None
        self.cur_scen = []
        self.hist = {}

    def add(self, text):
        cid = "%s%d" % (self.prefix, len(self.lines) + 1)
        op = text.split(" ", 1)[0]
        self.hist[op] = self.hist.get(op, 0) + 1
        if op in ("par", "pardefault"):
            self.ctx[cid] = []
            self.cur_par = text
        elif op == "scen":
            self.ctx[cid] = [self.cur_par] if self.cur_par else []
            self.cur_scen = self.ctx[cid] + [text]
        elif op.rstrip("!") in SCEN_OPS:
            self.ctx[cid] = self.cur_scen + ([self.cur_par] if self.cur_par else [])
        else:
            self.ctx[cid] = [self.cur_par] if self.cur_par else []
        self.lines.append((cid, text))
        return cid


# ---------------------------------------------------------------- pure cases
def gen_pure(ctx, scale):
    r = ctx.rng.fork()
    c = Cases("p")
    c.add("pardefault")
    dp = default_par()
    bv = boundary_values(r, dp)
    # every round type x regime boundaries on the library's default parameters
    for h in list(range(0, 26)) + [49, 50, 51, 100, 2 ** 31 - 1]:
        for s in bv:
            for d in (0, ONE - 1, ONE, ONE + 1, 2 * ONE, 25 * ONE):
                c.add("br %x %x %x" % (h, s, d))
    for h in range(0, 60):
        c.add("round %x" % h)
    for h in (2 ** 31 - 1, 2 ** 31, 2 ** 32 - 1):
        c.add("round %x" % h)
    for rel in list(range(-2, 56)) + [2 ** 31 - 1, -2 ** 31]:
        c.add("mult %s" % (("-%x" % -rel) if rel < 0 else "%x" % rel))
    for rel in list(range(0, 53)) + [2 ** 31, 2 ** 32 - 1]:
        for s, b in ((ONE, 97000000), (3 * ONE, 510000000), (0, ONE), (7, ONE), (12345678901, 299999999)):
            c.add("mr %x %x %x" % (rel, s, b))
    # double conversions
    for d in [0.0, 1.0, 0.97, 1.03, 1.07, 0.21325, 0.06766428, 0.03267969, 1e-9, 0.99999999, 0.999999999, 1e10,
              1.8e11, 123456.789]:
        c.add("conv %s %x" % (float(d).hex(), conv(d)))
    for _ in range(200 * scale):
        d = rand_double(r, r.choice([1.0, 5.0, 1000.0, 1e9, 1.8e11]))
        c.add("conv %s %x" % (float(d).hex(), conv(d)))
    # the fixed-point operators incl. the 256-bit wrap
    for _ in range(300 * scale):
        a = r.bits(r.choice([1, 27, 28, 64, 100, 200, 228, 229, 230, 255, 256]))
        b = r.bits(r.choice([0, 1, 27, 28, 64, 100, 200, 256]))
        c.add("bdops %x %x" % (a, b))
    # random parameter sets
    nsets = 60 * scale
    for i in range(nsets):
        wf = r.chance(2, 3)
        p = rand_par(r, wf)
        p["settle"], p["delay"] = 50, 50
        c.add(par_line(p))
        bv = boundary_values(r, p)
        hs = [r.below(4 * max(1, p["ki"]) + 3) for _ in range(6)] + [0, p["ki"], r.bits(31)]
        for _ in range(40):
            h = r.choice(hs)
            k = r.below(10)
            if k < 5:
                s = r.choice(bv)
                d = r.choice([0, ONE - 1, ONE, ONE + 1, 2 * ONE, r.choice(bv)])
                if r.chance(1, 2) and d > 0:
                    # aim the ratio s*1e8/d exactly at a boundary
                    tgt = r.choice(bv)
                    d = max(ONE, d)
                    s = max(0, tgt * d // ONE + r.range(-1, 1))
            elif k < 8:
                s = r.bits(r.range(1, 100))
                d = r.bits(r.range(1, 100))
            else:
                s = r.bits(r.choice([128, 200, 229, 230, 256]))
                d = r.bits(r.choice([1, 64, 128, 256]))
            c.add("br %x %x %x" % (h, s, d))
        for _ in range(8):
            rel = r.choice([0, 1, len(p["table"]) - 1, len(p["table"]), r.below(70)])
            s = r.choice([0, 1, ONE, r.bits(r.range(1, 90)), r.bits(256)])
            b = r.choice([0, ONE, r.bits(r.range(1, 100)), r.bits(250)])
            c.add("mr %x %x %x" % (max(0, rel), s, b))
        for _ in range(3):
            c.add("round %x" % r.choice(hs))
        rel = r.choice([-1, 0, len(p["table"]) - 1, len(p["table"]), len(p["table"]) + 1])
        c.add("mult %s" % (("-%x" % -rel) if rel < 0 else "%x" % rel))
    return c


# ---------------------------------------------------------------- tree scenarios
def gen_scenario(r, settle):
    """returns (script tokens, list of endorsed heights, tip height)"""
    toks = []
    h = r.range(1, 2 * settle)          # current ALT tip height
    toks.append("a%d" % h)
    endorsed = set()
    nev = r.range(2, 7)
    pool = [r.range(1, 9) for _ in range(r.range(1, 4))]     # few payout ids -> duplicates
    pend_fork = False
    for _ in range(nev):
        lo = max(1, h + 1 - settle + 1)
        cands = list(range(lo, h + 1))
        k = r.below(10)
        targets = [r.choice(cands) for _ in range(r.range(1, 3))]
        if k < 3:
            targets = [targets[0]]
        for t in targets:
            for _ in range(r.choice([1, 1, 2, 3, 6])):
                toks.append("e%d.%d" % (t, r.choice(pool) if r.chance(3, 4) else r.range(1, 40)))
            endorsed.add(t)
        gap = r.choice([1, 1, 1, 2, 3, 5, 13, 14]) if r.chance(9, 10) else r.range(40, 55)
        toks.append("v%d" % gap)
        if r.chance(1, 3):
            # more endorsements of the same blocks a few VBK blocks later, same ALT containing block
            t = r.choice(targets)
            for _ in range(r.range(1, 3)):
                toks.append("e%d.%d" % (t, r.choice(pool)))
            toks.append("v%d" % r.choice([1, 2, 11, 12, 13]))
        toks.append("a1")
        h += 1
        if r.chance(1, 3):
            # VBK fork: the last `back` VBK blocks (with their endorsements) leave the best chain
            back = r.range(1, 3)
            if r.chance(1, 2):
                t = r.choice(list(range(max(1, h + 1 - settle + 1), h + 1)))
                toks.append("e%d.%d" % (t, r.choice(pool)))
                endorsed.add(t)
            toks.append("f%d.%d" % (back, back + r.range(1, 3)))
            toks.append("a1")
            h += 1
        if r.chance(1, 8) and h > 3:
            k2 = r.range(1, 2)
            toks.append("r%d" % k2)
            h -= k2
            toks.append("a%d" % (k2 + 1))
            h += k2 + 1
    return toks, sorted(x for x in endorsed if x <= h), h


def gen_tree(ctx, scale):
    r = ctx.rng.fork()
    c = Cases("t")
    nscen = 10 * scale
    for i in range(nscen):
        ki = r.choice([2, 3, 4, 5, 5, 7])
        settle = r.choice([4, 6, 10, 15])
        base = default_par(ki, settle, settle)
        base["interval"] = r.choice([1, 2, 5, 50])
        c.add(par_line(base))
        toks, endorsed, h = gen_scenario(r, settle)
        # pad so that getPopPayout(tip) with delay d0 pays one of the endorsed blocks
        d0 = settle + r.range(0, 5)
        tgt = r.choice(endorsed) if endorsed else h
        tip = max(h, tgt + d0 - 1)
        if tip > h:
            toks.append("a%d" % (tip - h))
        d0 = tip - tgt + 1
        c.add("scen " + " ".join(toks))
        # every endorsed block through getPopPayout by moving the payout delay (>= settle: legal; < settle: abort)
        for e in endorsed:
            d = tip - e + 1
            q = dict(base, delay=d)
            c.add(par_line(q))
            c.add("pay!")
            c.add("payw!")
        for d in (0, 1, tip + 1, tip + 2, d0):
            c.add(par_line(dict(base, delay=d)))
            c.add("pay!")
        c.add(par_line(dict(base, delay=d0)))
        hs = sorted(set(endorsed + [max(0, e - 1) for e in endorsed] + [e + 1 for e in endorsed if e + 1 <= tip] + [0, tip]))
        for e in hs:
            c.add("payat! %x" % e)
            c.add("score! %x" % e)
            c.add("diff! %x" % e)
            c.add("diffw! %x" % e)
            c.add("payatw! %x" % e)
        bv = boundary_values(r, base)
        for e in endorsed:
            for _ in range(6):
                c.add("payin! %x %x %x" % (e, r.choice(bv), r.choice([0, ONE, 2 * ONE, r.choice(bv)])))
        # other parameter sets on the same tree
        for _ in range(6):
            p = rand_par(r, r.chance(4, 5))
            p["settle"] = r.choice([settle, 1, 0, settle + 3])
            p["delay"] = tip - (r.choice(endorsed) if endorsed else tip) + 1
            c.add(par_line(p))
            c.add("pay!")
            c.add("payw!")
            for e in endorsed:
                c.add("payat! %x" % e)
    gen_history(r, c, 3 * scale)
    return c


def gen_history(r, c, nscen):
    """sustained endorsement histories: every block of a run of consecutive ALT blocks is endorsed 0..4 times at
    several relative VBK heights, so the averaged difficulty leaves the 1.0 clamp and the relative score
    score/difficulty moves across the start of the slope and the thresholds; short averaging intervals so that
    endorsed blocks lie BELOW the window; slope start / thresholds of extra parameter sets are put on the small
    rationals k/m that integer scores over averaged difficulties produce"""
    for _ in range(nscen):
        ki = r.choice([2, 3, 4, 5, 5, 7])
        settle = r.choice([6, 10, 15])
        base = default_par(ki, settle, settle)
        base["interval"] = r.choice([1, 2, 3, 5])
        c.add(par_line(base))
        h = r.range(1, 4)
        toks = ["a%d" % h]
        endorsed = []
        pool = [r.range(1, 9) for _ in range(3)]
        for _ in range(r.range(8, 13)):
            k = r.choice([0, 1, 1, 2, 2, 3, 4])
            if k:
                endorsed.append(h)
                for _ in range(k):
                    toks.append("e%d.%d" % (h, r.choice(pool)))
                toks.append("v%d" % r.choice([1, 1, 2, 12, 13]))
                if r.chance(1, 3):
                    toks.append("e%d.%d" % (h, r.choice(pool)))
                    toks.append("v%d" % r.choice([1, 2, 12, 13]))
            toks.append("a1")
            h += 1
        tip = h + settle - 1
        toks.append("a%d" % (settle - 1))
        c.add("scen " + " ".join(toks))
        for e in endorsed:
            c.add(par_line(dict(base, delay=tip - e + 1)))
            c.add("pay!")
            c.add("payw!")
        c.add(par_line(base))
        for e in sorted(set(endorsed + [x + 1 for x in endorsed])):
            c.add("diff! %x" % e)
            c.add("diffw! %x" % e)
            c.add("payat! %x" % e)
            c.add("payatw! %x" % e)
        for _ in range(4):
            q = dict(base, interval=r.choice([1, 2, 3, 4, 5, 50]), rounds=r.range(2, 5))
            q["start"] = r.choice([0.5, 2.0 / 3, 0.75, 1.0, 1.0, 4.0 / 3, 1.5])
            q["thrN"] = q["start"] + r.choice([0.0, 0.25, 0.5, 1.0, 1.5])
            q["thrK"] = q["start"] + r.choice([0.0, 0.5, 1.0, 2.0])
            q["kround"] = r.below(4)
            q["flatround"] = r.below(q["rounds"])
            for e in endorsed:
                c.add(par_line(dict(q, delay=tip - e + 1)))
                c.add("pay!")
                c.add("payw!")
                c.add("diffw! %x" % e)


# ---------------------------------------------------------------- in-Coq cross-check of the extraction
XLOG = []     # (id, op, args, parameter line | None, scenario line | None, answer) of the model's cases of this run
XC_REQUIRES = "Rewards.BigDecDefs Rewards.CalcDefs Rewards.SpecDefs Rewards.BoundsDefs Rewards.WindowDefs"
XC_SKIPPED = ["par", "scen", "conv"]    # state-setting / echo lines of the driver: no model function is called
# encoders + the driver's own glue (ocaml/Rewards_driver.ml: at_height, the SPEC-MISMATCH tests) restated in Gallina
XC_PREAMBLE = """
Definition xo_z (r : outcome Z) : list Z := match r with Ok v => [0; v] | Throw => [1] | Abort => [2] | Fpe => [3] end.
Definition xo_m (r : outcome (list (Z * Z))) : list Z :=
  match r with Ok m => [0; Z.of_nat (length m)] ++ flat_map (fun kv => [fst kv; snd kv]) m | Throw => [1] | Abort => [2] | Fpe => [3] end.
Definition xl (l : list Z) : list Z := Z.of_nat (length l) :: l.
Fixpoint x_at (h : Z) (c : list Block) : Block * list Block :=
  match c with [] => (Build_Block (-1) [], []) | b :: r => if b_height b =? h then (b, r) else x_at h r end.
Fixpoint x_ins (k : Z) (l : list Z) : list Z :=
  match l with [] => [k] | x :: r => if k <? x then k :: l else if k =? x then l else x :: x_ins k r end.
Fixpoint x_leq (a b : list Z) : bool :=
  match a, b with [], [] => true | x :: r, y :: t => (x =? y) && x_leq r t | _, _ => false end.
Definition x_mis_pay (p : Params) (b : Block) (prevs : list Block) (r : outcome (list (Z * Z))) : bool :=
  match r with
  | Ok m => params_okb p && block_okb b && chain_okb prevs &&
            negb (x_leq (map fst m) (fold_right x_ins [] (spec_payees b)) && forallb (fun kv => spec_paid p b prevs (fst kv) =? snd kv) m)
  | _ => false end.
Definition x_br (p : Params) (h s d : Z) : list Z :=
  let r := block_reward256 p h s d in
  let cond := params_okb p && (h <? 2 ^ 31) && (s <? 2 ^ 128) && (d <? 2 ^ 160) in
  xo_z r ++ [xc_b (match r with
                   | Ok v => cond && negb ((spec_block_reward p h s d =? v) &&
                                           match round_for_block p h with Ok rd => v <=? spec_cap p rd | _ => false end)
                   | _ => cond end)].
Definition x_bdops (a b : Z) : list Z :=
  [bd_add wrap256 a b; bd_sub wrap256 a b; bd_mul wrap256 a b] ++ match bd_div wrap256 a b with Ok v => [0; v] | _ => [1] end ++
  [match a ?= b with Lt => 0 | Eq => 1 | Gt => 2 end; bd_integer_fraction a; bd_decimal_fraction a; bd_of_u64 wrap256 (low64 a)].
Definition x_pay (p : Params) (c : list Block) : list Z :=
  let r := get_pop_payout256 p c in
  xo_m r ++ [xc_b (match spec_endorsed p c with
                   | Some (b, prevs) => x_mis_pay p b prevs r
                   | None => match r with Ok (_ :: _) => true | _ => false end end)].
Definition x_payat (p : Params) (c : list Block) (h : Z) : list Z :=
  let '(b, prevs) := x_at h c in let r := calc_payouts256 p b prevs in xo_m r ++ [xc_b (x_mis_pay p b prevs r)].
Definition x_payin (p : Params) (c : list Block) (h s d : Z) : list Z := xo_m (payouts_inner256 p (fst (x_at h c)) s d).
Definition x_score (p : Params) (c : list Block) (h : Z) : list Z :=
  let b := fst (x_at h c) in let r := score256 p (b_ends b) in
  xo_z r ++ [xc_b (match r with Ok v => params_okb p && block_okb b && negb (spec_score p (b_ends b) =? v) | _ => false end)].
Definition x_diff (p : Params) (c : list Block) (h : Z) : list Z :=
  let prevs := snd (x_at h c) in let r := difficulty256 p prevs in
  xo_z r ++ [xc_b (match r with Ok v => params_okb p && chain_okb prevs && negb (spec_difficulty p prevs =? v) | _ => false end)].
Definition x_diffw (p : Params) (c : list Block) (h : Z) : list Z := xo_z (difficulty_win256 p (snd (x_at h c))).
Definition x_payatw (p : Params) (c : list Block) (h : Z) : list Z :=
  let '(b, prevs) := x_at h c in let r := calc_payouts_win256 p b prevs in xo_m r ++ [xc_b (x_mis_pay p b (window p prevs) r)].
Definition x_payw (p : Params) (c : list Block) : list Z := xo_m (get_pop_payout_win256 p c).
Definition x_pardefault : list Z :=
  let p := default_params in
  [p_ki p; p_settle p; p_delay p; p_kround p; p_rounds p; p_flatround p; xc_b (p_useflat p); p_interval p;
   p_start p; p_slopeN p; p_slopeK p; p_thrN p; p_thrK p] ++ xl (p_ratios p) ++ xl (p_table p).
"""


def xc_collect(model_input, mres):
    """replay the state of the driver (current parameter set, current chain) over the lines it was fed"""
    par = scen = None
    for line in open(model_input):
        t = line.split()
        if len(t) < 2:
            continue
        op = t[1].rstrip("!")
        if op in ("par", "pardefault"):
            par = None if op == "pardefault" else t[2:]
        if op == "scen":
            scen = t[2:]
        if op not in XC_SKIPPED and mres.get(t[0]) is not None:
            XLOG.append((t[0], op, t[2:], par, scen, mres[t[0]]))


def xc_params(a):
    """Gallina record of a `par` line (the fixed-point integer after the `/` of every double token)"""
    sc = lambda tok: X.z(int(tok.split("/")[1], 16))
    ls = lambda tok: X.zlist([int(x.split("/")[1], 16) for x in tok[2:].split(",")] if len(tok) > 2 else [])
    H = lambda tok: X.z(X.unhex(tok))
    ki, settle, delay, kround, rounds, flatround, useflat, interval, start, sn, sk, tn, tk, r, t = a
    return "(Build_Params %s)" % " ".join([H(ki), H(settle), H(delay), sc(start), sc(sn), sc(sk), H(kround), H(rounds),
                                          H(flatround), X.b(useflat == "1"), ls(r), sc(tn), sc(tk), H(interval), ls(t)])


def xc_chain(toks):
    """Gallina chain (tip first, one block per height 0..tip) of a model-side `scen` line, as parse_view builds it"""
    tip, blocks = 0, {}
    for t in toks:
        if t[0] == "T":
            tip = int(t[1:], 16)
        elif t[0] == "B":
            h, es = t[1:].split(":")
            blocks[int(h, 16)] = [e.split(".") for e in es.split(",")]
    out = []
    for h in range(tip, -1, -1):
        es = ["Build_Endorsement %s %s" % (X.z(int(p, 16)), X.oz(None if b == "x" else int(b, 16))) for p, b in blocks.get(h, [])]
        out.append("Build_Block %d %s" % (h, "[" + "; ".join(es) + "]" if es else "(@nil Endorsement)"))
    return "[" + "; ".join(out) + "]"


def xc_expected(op, ans):
    """the driver's answer as the xo_z / xo_m (+ SPEC-MISMATCH flag) encoding; None when the answer is not a result"""
    r = ans.split()
    tag = {"ok": 0, "throw": 1, "abort": 2, "fpe": 3}.get(r[0])
    if tag is None:
        return None
    mis = [1 if "SPEC-MISMATCH" in ans else 0]
    vals = [x for x in r[1:] if not x.startswith("SPEC-MISMATCH") and x not in ("payees", "amounts", "outcome", "not-enough-blocks")]
    if op in ("br", "score", "diff"):
        return [tag] + [X.unhex(v) for v in vals] + mis
    if op in ("mr", "round", "mult", "diffw"):
        return [tag] + [X.unhex(v) for v in vals]
    if op in ("pay", "payat", "payin", "payw", "payatw"):
        e = [tag]
        if tag == 0:
            e.append(len(vals))
            for kv in vals:
                k, v = kv.split("=")
                e += [X.unhex(k), X.unhex(v)]
        return e + (mis if op not in ("payin", "payw") else [])
    if op == "bdops":
        add, sub, mul, div, cmp, fi, fd, of = vals
        return [X.unhex(add), X.unhex(sub), X.unhex(mul)] + ([1] if div == "throw" else [0, X.unhex(div)]) + \
            [{"lt010": 0, "eq111": 1, "gt001": 2}[cmp], X.unhex(fi), X.unhex(fd), X.unhex(of)]
    if op == "pardefault":
        i, j = vals.index("R"), vals.index("T")
        nums = lambda l: [X.unhex(v) for v in l]
        return nums(vals[:i]) + [j - i - 1] + nums(vals[i + 1:j]) + [len(vals) - j - 1] + nums(vals[j + 1:])
    return None


def run_xcheck(ctx, want=220):
    """a deterministic sample of this run's model cases (every op of the driver that calls the model) is re-evaluated
    inside Coq on the Gallina definitions and compared with what the extracted model answered"""
    H = lambda t: X.z(X.unhex(t))
    smp = X.sample(ctx.rng.fork(), XLOG, want, kind=lambda e: (e[1], e[5].split()[0], "SPEC-MISMATCH" in e[5]))
    defs, names, items, hist = [], {}, [], {}

    def shared(kind, key, render):
        if (kind, key) not in names:
            names[(kind, key)] = "xs%s_%d" % (kind, len(names))
            defs.append("Definition %s := %s." % (names[(kind, key)], render()))
        return names[(kind, key)]
    for cid, op, a, par, scen, ans in smp:
        exp = xc_expected(op, ans)
        if exp is None or (op in SCEN_OPS and scen is None):
            continue       # MODEL-ERROR lines (no block at that height, malformed input): nothing was computed
        p = "default_params" if par is None else shared("p", tuple(par), lambda: xc_params(par))
        c = None if scen is None else shared("c", tuple(scen), lambda: xc_chain(scen))
        term = {"br": lambda: "x_br %s %s %s %s" % (p, H(a[0]), H(a[1]), H(a[2])),
                "mr": lambda: "xo_z (miner_reward256 %s %s %s %s)" % (p, H(a[0]), H(a[1]), H(a[2])),
                "mult": lambda: "[0; score_multiplier %s %s]" % (p, H(a[0])),
                "round": lambda: "xo_z (round_for_block %s %s)" % (p, H(a[0])),
                "bdops": lambda: "x_bdops %s %s" % (H(a[0]), H(a[1])),
                "pardefault": lambda: "x_pardefault",
                "pay": lambda: "x_pay %s %s" % (p, c),
                "payat": lambda: "x_payat %s %s %s" % (p, c, H(a[0])),
                "payin": lambda: "x_payin %s %s %s %s %s" % (p, c, H(a[0]), H(a[1]), H(a[2])),
                "score": lambda: "x_score %s %s %s" % (p, c, H(a[0])),
                "diff": lambda: "x_diff %s %s %s" % (p, c, H(a[0])),
                "diffw": lambda: "x_diffw %s %s %s" % (p, c, H(a[0])),
                "payatw": lambda: "x_payatw %s %s %s" % (p, c, H(a[0])),
                "payw": lambda: "x_payw %s %s" % (p, c)}.get(op)
        if term is None:
            ctx.broken.append("xcheck:Rewards: no Gallina rendering for op %s" % op)
            continue
        items.append(("%s/%s %s" % (cid, op, " ".join(a)[:120]), term(), exp))
        hist[op] = hist.get(op, 0) + 1
    X.xcheck(ctx, "Rewards", XC_REQUIRES, items, XC_PREAMBLE + "\n".join(defs))
    ctx.cov["in_coq_ops"] = dict(sorted(hist.items()))
    ctx.cov["in_coq_skipped_ops"] = list(XC_SKIPPED)


# ---------------------------------------------------------------- running
def write_lines(path, lines):
    with open(path, "w") as f:
        for cid, text in lines:
            f.write("%s %s\n" % (cid, text))


def fork_mark(lines, mres):
    """run an op in a forked child when the model predicts that the call terminates the process"""
    out = []
    for cid, text in lines:
        m = mres.get(cid, "")
        if m.startswith("abort") or m.startswith("fpe"):
            op, sp, rest = text.partition(" ")
            if not op.endswith("!"):
                text = op + "!" + sp + rest
        out.append((cid, text))
    return out


def run_pure(model, H, lines, work, tag="pure"):
    """model first (decides which calls run in a forked child), then the implementation"""
    fm = os.path.join(work, tag + "_model.txt")
    write_lines(fm, lines)
    rc1, mres, _, merr = vlib.run_lines([model], fm)
    fh = os.path.join(work, tag + "_impl.txt")
    write_lines(fh, fork_mark(lines, mres))
    rc2, ires, orc, ierr = vlib.run_lines([H], fh)
    err = "" if rc1 == 0 and rc2 == 0 else "model rc=%d impl rc=%d %s" % (rc1, rc2, (merr + ierr)[-300:])
    return mres, ires, orc, err, set(), []


def run_tree(model, H, lines, work, tag="tree"):
    """implementation first: the abstract view observed for each scenario is the model's input.
    Every query runs in a forked child of the harness (a call may terminate the process)."""
    fh = os.path.join(work, tag + "_impl.txt")
    write_lines(fh, lines)
    rc2, ires, orc, ierr = vlib.run_lines([H], fh)
    mlines, skipped, views, builderr = [], set(), [], []
    dead = False
    for cid, text in lines:
        op = text.split(" ", 1)[0]
        if op == "scen":
            res = ires.get(cid, "")
            if res.startswith("ok "):
                dead = False
                mlines.append((cid, "scen " + res[3:]))
                views.append(res[3:])
            else:
                dead = True
                builderr.append("%s -> %s" % (text[:200], res[:200]))
                skipped.add(cid)
        elif op in ("par", "pardefault") or not dead:
            mlines.append((cid, text))
        else:
            skipped.add(cid)
    fm = os.path.join(work, tag + "_model.txt")
    write_lines(fm, mlines)
    rc1, mres, _, merr = vlib.run_lines([model], fm)
    err = "" if rc1 == 0 and rc2 == 0 else "model rc=%d impl rc=%d %s" % (rc1, rc2, (merr + ierr)[-300:])
    return mres, ires, orc, err, skipped, (views, builderr)


def view_stats(cov, view):
    for t in view.split():
        if t.startswith("B"):
            es = t.split(":", 1)[1].split(",")
            cov["endorsed_blocks"] += 1
            cov["endorsements"] += len(es)
            on = [e for e in es if not e.endswith(".x")]
            cov["endorsements_off_best_chain"] += len(es) - len(on)
            pids = [e.split(".")[0] for e in on]
            if len(pids) != len(set(pids)):
                cov["blocks_with_duplicate_payout_info"] += 1
            if on:
                hsv = [int(e.split(".")[1], 16) for e in on]
                cov["max_relative_vbk_height"] = max(cov["max_relative_vbk_height"], max(hsv) - min(hsv))


def window_stats(lines, ires, mres):
    """window ops (model evaluated on the truncated chain vs the real calculator on the full tree): how many, in how
    many an endorsed block with a counted endorsement lies below the window (the truncation removes something that
    would change the result if it were read), how many difficulties are above the 1.0 clamp"""
    st = {"ops": 0, "endorsed_block_below_window": 0, "agree": 0, "difficulty_above_min": 0, "nonempty_payout": 0}
    interval = delay = 0
    tip, hs = 0, []
    for cid, text in lines:
        t = text.split()
        op = t[0].rstrip("!")
        if op == "par":
            delay, interval = int(t[3], 16), int(t[8], 16)
        elif op == "scen":
            v = ires.get(cid, "").split()
            tip = ([int(x[1:], 16) for x in v if x[0] == "T"] or [0])[0]
            hs = [int(x[1:].split(":")[0], 16) for x in v if x[0] == "B" and
                  any(not e.endswith(".x") for e in x.split(":")[1].split(","))]
        elif op in ("diffw", "payatw", "payw"):
            st["ops"] += 1
            e = int(t[1], 16) if op != "payw" else tip - (delay - 1)
            if op == "payw" and delay < 1:
                continue
            if any(h < e - interval for h in hs):
                st["endorsed_block_below_window"] += 1
            m = mres.get(cid, "")
            if m == ires.get(cid):
                st["agree"] += 1
            if op == "diffw" and m.startswith("ok ") and int(m.split()[1], 16) > ONE:
                st["difficulty_above_min"] += 1
            if op != "diffw" and "=" in m:
                st["nonempty_payout"] += 1
    return st


def check_conv_in_coq(ctx, all_lines, ires_all, limit=2500):
    """Rewards/ConvDefs.conv_double (primitive floats, vm_compute) on the doubles of this run: every `conv` line is
    compared with what the C++ PopRewardsBigDecimal(double) returned; every double token d/hex of the `par` lines is
    compared with its hex part (which the `par` op compared with the C++ conversion)"""
    import re
    want = {}
    for cid, text in all_lines:
        t = text.split()
        if t[0] == "conv":
            r = ires_all.get(cid, "")
            if r.startswith("ok "):
                want.setdefault(t[1], int(r.split()[1], 16))
        elif t[0] == "par" and ires_all.get(cid, "").startswith("ok"):
            for tok in re.findall(r"(-?0x[0-9a-f.]+p[+-]\d+)/([0-9a-f]+)", text):
                want.setdefault(tok[0], int(tok[1], 16))
    keys = sorted(want)[:limit]
    ctx.cov["conv_doubles_checked_in_coq"] = 0
    if not keys:
        return
    v = os.path.join(ctx.work, "conv_cases.v")
    with open(v, "w") as f:
        f.write("From Coq Require Import ZArith List Floats.\nImport ListNotations.\nFrom VB Require Import Rewards.ConvDefs.\n"
                "Local Open Scope Z_scope.\nDefinition cz (o : option Z) : Z := match o with Some z => z | None => -1 end.\n")
        for lo in range(0, len(keys), 50):
            f.write("Definition cv_%d : list Z := [%s].\n" % (lo // 50, "; ".join(
                "cz (conv_double (%s)%%float)" % k for k in keys[lo:lo + 50])))
        f.write("Eval vm_compute in (%s).\n" % " ++ ".join("cv_%d" % i for i in range((len(keys) + 49) // 50)))
    rc, out, err = vlib.sh(["timeout", "300", "coqc", "-Q", vlib.COQ, "VB", "-w", "-all", v], cwd=ctx.work, timeout=330)
    got = [int(x) for x in re.findall(r"-?\d+", out.split("=", 1)[1].rsplit(":", 1)[0])] if rc == 0 and "=" in out else None
    if got is None or len(got) != len(keys):
        ctx.broken.append("corr:ConvDefs.conv_double: in-Coq evaluation failed (rc=%d %s)" % (rc, " ".join((err or out).split())[-300:]))
        return
    for k, g in zip(keys, got):
        if g != want[k]:
            ctx.violation({"kind": "input", "lines": ["conv %s %x" % (k, want[k])], "model": "%x" % g if g >= 0 else "undefined",
                           "impl": "%x" % want[k], "what": "PopRewardsBigDecimal(double) differs from the binary64 model "
                           "ConvDefs.conv_double evaluated in Coq"})
            return
    ctx.cov["conv_doubles_checked_in_coq"] = len(keys)


def is_tree(lines):
    return any(l.split(" ", 1)[0] == "scen" for l in lines)


def load_corpus(pure, tree):
    d = os.path.join(vlib.VERIF, "corpus", "C14")
    if not os.path.isdir(d):
        return
    for f in sorted(os.listdir(d)):
        ls = [l.strip() for l in open(os.path.join(d, f)) if l.strip() and l[0] != "#"]
        tgt = tree if is_tree(ls) else pure
        for l in ls:
            tgt.add(l)


def run(ctx):
    import time
    t0 = time.time()
    ctx.prove()
    timing = {"prove_s": round(time.time() - t0, 1)}
    okm, model, mlog = vlib.build_model("Rewards")
    okh, hs, hlog = vlib.build_harness(["h_rewards"])
    if not okm:
        ctx.broken.append("model-build: " + mlog[-300:])
    if not okh:
        ctx.broken.append("harness-build: " + hlog[-300:])
    if not (okm and okh):
        return
    H = hs["h_rewards"]
    timing["build_s"] = round(time.time() - t0 - timing["prove_s"], 1)
    ctx.cov["timing"] = timing
    scale = 1 if ctx.tier == "quick" else 12
    pure = Cases("p")
    tree = Cases("t")
    if ctx.replay and "lines" in ctx.replay:
        tgt = tree if is_tree(ctx.replay["lines"]) else pure
        for l in ctx.replay["lines"]:
            tgt.add(l)
    else:
        load_corpus(pure, tree)
        for _, t in gen_pure(ctx, scale).lines:
            pure.add(t)
        for _, t in gen_tree(ctx, scale).lines:
            tree.add(t)

    bad = []          # (text, context lines, model, impl)
    conv_src = [[], {}]
    oracle = []       # (context lines + text, oracle text)
    total = 0
    vc = {"scenarios": 0, "endorsed_blocks": 0, "endorsements": 0, "endorsements_off_best_chain": 0,
          "blocks_with_duplicate_payout_info": 0, "max_relative_vbk_height": 0, "scenario_build_errors": 0}
    for cs, runner, tag in ((pure, run_pure, "pure"), (tree, run_tree, "tree")):
        if not cs.lines:
            continue
        t1 = time.time()
        mres, ires, orc, err, skipped, extra = runner(model, H, cs.lines, ctx.work, tag)
        timing[tag + "_run_s"] = round(time.time() - t1, 1)
        xc_collect(os.path.join(ctx.work, tag + "_model.txt"), mres)
        conv_src[0] += list(cs.lines)
        conv_src[1].update(ires)
        if err:
            ctx.broken.append("runner(%s): %s" % (tag, err))
        if tag == "tree":
            views, builderr = extra
            vc["scenarios"] = len(views) + len(builderr)
            vc["scenario_build_errors"] = len(builderr)
            for v in views:
                view_stats(vc, v)
            for b in builderr[:3]:
                ctx.broken.append("corr:scenario-build: " + b)
            ctx.cov["tree_nonempty_payouts"] = sum(1 for v in mres.values() if "=" in v)
            ctx.cov["window"] = window_stats(cs.lines, ires, mres)
        byid = dict(cs.lines)
        for cid, text in cs.lines:
            if cid in skipped:
                continue
            total += 1
            if mres.get(cid) != ires.get(cid):
                bad.append((text, [l for l in cs.ctx[cid] if l], mres.get(cid), ires.get(cid)))
        for cid, t in orc:
            if cid in byid:
                oracle.append(([l for l in cs.ctx[cid] if l] + [byid[cid]], t))
        ctx.cov[tag + "_outcomes"] = {k: sum(1 for v in mres.values() if v.startswith(k))
                                      for k in ("ok", "throw", "abort", "fpe")}
        ctx.cov[tag + "_spec_evaluated_mismatches"] = sum(1 for v in mres.values() if "SPEC-MISMATCH" in v)
        for cid, text in cs.lines[:2] + cs.lines[-1:]:
            ctx.sample({"line": text[:300], "model": (mres.get(cid) or "")[:200], "impl": (ires.get(cid) or "")[:200]})
    if conv_src[0]:
        t1 = time.time()
        check_conv_in_coq(ctx, conv_src[0], conv_src[1])
        timing["conv_in_coq_s"] = round(time.time() - t1, 1)
    if not ctx.replay:
        t1 = time.time()
        run_xcheck(ctx)
        timing["xcheck_s"] = round(time.time() - t1, 1)
    ctx.cov["scenario_views"] = vc
    ctx.cov["op_histogram"] = {k: pure.hist.get(k, 0) + tree.hist.get(k, 0) for k in set(pure.hist) | set(tree.hist)}
    ctx.cov["evaluations"] = total
    ctx.cov["distinct_nontrivial"] = len({t for _, t in pure.lines if not t.startswith("par")}) + \
        len({(tuple(tree.ctx[i]), t) for i, t in tree.lines if not t.startswith("par")})
    ctx.cov["rule"] = ("pure: every height 0..25 x regime-boundary scores x difficulties on the library defaults, random "
                       "well-formed and degenerate parameter sets with scores aimed at slope start / thresholds and the "
                       "256-bit wrap regime, fixed-point operators, double conversions; trees: MockMiner scenarios "
                       "(duplicate payout infos, several VBK heights, VBK forks, ALT reorgs), every endorsed block paid "
                       "through getPopPayout by moving the payout delay, calculatePayouts/Inner, other parameter sets; "
                       "distinct = distinct (context, op line)")
    ctx.cov["disagreements_checked"] = total
    ctx.cov["traces_validated_against_impl"] = total - len(bad)
    ctx.cov["trusted_base"] = list(ASSUMPTIONS)
    if not ctx.replay and tree.lines:
        if vc["endorsements_off_best_chain"] == 0 or vc["blocks_with_duplicate_payout_info"] == 0 or \
                ctx.cov.get("tree_nonempty_payouts", 0) == 0:
            ctx.broken.append("coverage: generated scenarios exercised no off-chain endorsement / duplicate payout "
                              "info / non-empty payout")
        ws = ctx.cov.get("window", {})
        if not (ws.get("endorsed_block_below_window") and ws.get("difficulty_above_min") and ws.get("nonempty_payout")):
            ctx.broken.append("coverage: no window op with an endorsed block below the window / a difficulty above "
                              "the minimum / a non-empty payout")

    # direct oracle failures on the implementation: concrete failing inputs
    for lines, t in oracle[:3]:
        ctx.violation({"kind": "input", "lines": lines, "oracle": t,
                       "what": "direct property oracle failed on the implementation"})
    # disagreements: re-run the single case in isolation (excludes flakiness and order dependence), then report it
    reported = 0
    for text, cx, m, i in bad:
        if reported >= 4:
            break
        lines = cx + [text]
        rep = Cases("r")
        for l in lines:
            rep.add(l)
        runner = run_tree if is_tree(lines) else run_pure
        mr, ir, _, _, _, _ = runner(model, H, rep.lines, ctx.work, "rerun")
        last = rep.lines[-1][0]
        if mr.get(last) == ir.get(last):
            continue   # not reproducible in isolation
        reported += 1
        ctx.violation({"kind": "input", "lines": lines, "model": mr.get(last), "impl": ir.get(last),
                       "what": "implementation differs from the model of the calculator, which is proved equal to "
                               "the reward specification under the stated bounds (a SPEC-MISMATCH tag in the model "
                               "result would flag a model/specification difference instead)"})
    if bad and not ctx.violations:
        ctx.broken.append("corr:Rewards: first disagreeing input %s model=%s impl=%s (not reproducible in isolation)"
                          % (bad[0][0][:200], bad[0][2], bad[0][3]))
