"""C04 — no contextually invalid POP payload is ever part of an activated chain."""
import vlib
from props import _rules as R

LEVEL = "proof"
HARNESSES = [("h_rules", "rel")]
ASSUMPTIONS = [
    "configuration relations asserted by the library hold (maxReorg > settlement, preserve >= settlement); in the "
    "finalization histories additionally preserve >= settlement + 2*keystoneInterval + 2, so that the previous "
    "keystones of a still-endorsable block are not deallocated",
    "the altchain delivers a body only for a known header and calls setState/comparePopScore within their documented "
    "preconditions (the harness answers SKIP otherwise)",
    "comparePopScore may answer 0 for a not yet examined invalid candidate when neither chain crosses a keystone "
    "boundary (the comparator's shortcut before any validation); the candidate is then not activated",
]
META = {
    "text": "Theorems (Coq, all worlds/states/bodies): the commands' validity checks as coded (connectBlock duplicate "
            "check, AddVbkBlock, AddVTB/addPayloads/validateBTCContext/AddVbkEndorsement, CheckPublicationData, "
            "AddAltEndorsement, in command order) accept a block body iff the declarative rule set ctx_valid holds, with "
            "the declared effects; a block violating a rule is refused together with every chain containing it "
            "(apply-as-a-fold); a refusal always names an invalid block; FULL invariant on the as-coded POP state "
            "machine (Pop/Sm*.v, every VBK_ASSERT explicit): the command groups of a body translated to the machine's "
            "AddRef/AddEnd/Need/Poison commands all execute iff the body is ctx_valid (simulation), hence in every "
            "state reachable by any history of connectBlock/setState/comparePopScore (any scorer) the active chain "
            "consists of contextually valid blocks only (C04_active_payloads_valid, C04_active_block_valid; uses "
            "reachable_good / applied_blocks_executed of the state machine model). Forks (Rules/Fork*.v): the verdict on "
            "a candidate depends on its own chain only, whatever other forks exist or were removed "
            "(C04_verdict_independent_of_other_forks, C04_verdict_iff_own_chain_valid, C04_dup_rule_own_chain), and the "
            "payload index shared by all forks as coded (add per block, remove per block with key clean-up only for an "
            "empty set, isStatefulDuplicate) answers exactly the per-chain duplicate check after any history of blocks "
            "accepted and dropped (C04_shared_index_dup_check_is_own_chain). "
            "Tie to the code: extracted model vs rebuilt library on every verdict of generated "
            "histories (22 rule-breaking mutations + 9 boundary non-violations at random depth, random call orders; "
            "shared-payload histories: the same VBK context block / VTB / ATV in blocks of 2-3 sibling forks, one holder "
            "removed by removeSubtree / removePayloads / the mempool's temporary block (taken and removed, or tried and "
            "withdrawn) / deallocation of a parallel block at finalization, then repeated in a chain that still holds it "
            "(refused) and in one that does not (accepted); restart histories: incremental saves and a reload (a fresh "
            "instance loaded from the storage continues the history) around BTC blocks referenced by several applied VTBs "
            "at different VBK heights, one of them withdrawn again, then a VTB valid only through the withdrawn reference "
            "(refused) and the boundary ones (accepted)), "
            "plus the direct oracle: an independent C++ re-check of every payload on the active chain.",
    "note": "Documented deviation of the observation: the property text demands comparePopScore > 0 for an invalid "
            "candidate; when neither chain crosses a keystone boundary the comparator answers 0 before it examines the "
            "candidate (which is then neither validated nor activated; setState on it fails). The check accepts exactly "
            "this case and counts it in coverage.rules.comparePopScore_on_planted_invalid_candidate; any other answer "
            "than 'tip wins' is a violation. "
            "Trusted: Coq kernel, extraction, OCaml driver, C++ harness incl. the independent audit, id mirror of the "
            "generator. Modelled not verified: contextual SP header rules (C15), MAX_VBKPOPTX_PER_VBK_BLOCK is in the "
            "model but not reached by the generator (1025 pop txs in one VBK block), VBK-level validity of the "
            "containing block.",
    "technique": "Coq proof (reflection of the coded checks against a declarative rule set) + extraction-based "
                 "differential correspondence + direct oracle",
}


def cases_for(ctx):
    r = ctx.rng
    rounds = 4 if ctx.tier == "quick" else 60
    cases = []
    k = 0
    for _ in range(rounds):
        for m in R.VIOLATIONS + R.BOUNDARIES:
            g = R.case_c04(r.fork(), m)
            if g is None:
                continue
            k += 1
            cases.append(("h%d" % k, g))
    # the same payload in blocks of sibling forks, one holder removed (removeSubtree / removePayloads / the mempool's
    # temporary block / deallocation of a parallel block at finalization), then repeated
    for _ in range(2 if ctx.tier == "quick" else 30):
        for kind, path in R.shared_combos():
            k += 1
            cases.append(("s%d" % k, R.case_shared(r.fork(), kind, path)))
    # restarts inside the history (incremental saves, reload): BTC blocks referenced by several applied VTBs at
    # different VBK heights, one of them withdrawn again, then a VTB that is valid only through the withdrawn reference
    for _ in range(3 if ctx.tier == "quick" else 40):
        for path in R.RESTART_PATHS:
            k += 1
            cases.append(("t%d" % k, R.case_restart(r.fork(), path)))
    return cases


def run(ctx):
    ctx.prove()
    if ctx.replay and "lines" in ctx.replay:
        cases = [("r1", R.gen_from_replay(ctx.replay))]
    else:
        cases = R.load_corpus(vlib, "C04") + cases_for(ctx)
    ctx.cov["rule"] = ("one history per (rule-breaking mutation | boundary non-violation) x round: random honest tree, "
                       "offending block at random depth, 0-2 descendants, random header/body order and set/cmp order; "
                       "one history per (payload kind x removal path) x round with a payload shared between sibling forks; "
                       "one history per withdrawal path x round with saves and a restart; "
                       "distinct = distinct (rule, depth, descendants, script length)")
    R.check(vlib, ctx, "C04", cases)
