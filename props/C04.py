"""C04 — no contextually invalid POP payload is ever part of an activated chain."""
import vlib
from props import _rules as R

LEVEL = "proof"
HARNESSES = [("h_rules", "rel")]
ASSUMPTIONS = [
    "configuration relations asserted by the library hold (maxReorg > settlement, preserve >= settlement); in the "
    "finalization histories additionally preserve >= settlement + 2*keystoneInterval + 2, so that the previous "
    "keystones of a still-endorsable block are not deallocated",
    "the altchain delivers a body only for a known header and calls setState/comparePopScore within their documented "
    "preconditions (the harness answers SKIP otherwise)",
    "comparePopScore may answer 0 for a not yet examined invalid candidate when neither chain crosses a keystone "
    "boundary (the comparator's shortcut before any validation); the candidate is then not activated",
]
META = {
    "text": "Theorems (Coq, all worlds/states/bodies): the commands' validity checks as coded (connectBlock duplicate "
            "check, AddVbkBlock, AddVTB/addPayloads/validateBTCContext/AddVbkEndorsement, CheckPublicationData, "
            "AddAltEndorsement, in command order) accept a block body iff the declarative rule set ctx_valid holds, with "
            "the declared effects; a block violating a rule is refused together with every chain containing it "
            "(apply-as-a-fold); a refusal always names an invalid block; FULL invariant on the as-coded POP state "
            "machine (Pop/Sm*.v, every VBK_ASSERT explicit): the command groups of a body translated to the machine's "
            "AddRef/AddEnd/Need/Poison commands all execute iff the body is ctx_valid (simulation), hence in every "
            "state reachable by any history of connectBlock/setState/comparePopScore (any scorer) the active chain "
            "consists of contextually valid blocks only (C04_active_payloads_valid, C04_active_block_valid; uses "
            "reachable_good / applied_blocks_executed of the state machine model). Tie to the code: extracted model vs rebuilt library on every verdict of generated "
            "histories (16 rule-breaking mutations + 6 boundary non-violations at random depth, random call orders), "
            "plus the direct oracle: an independent C++ re-check of every payload on the active chain.",
    "note": "Documented deviation of the observation: the property text demands comparePopScore > 0 for an invalid "
            "candidate; when neither chain crosses a keystone boundary the comparator answers 0 before it examines the "
            "candidate (which is then neither validated nor activated; setState on it fails). The check accepts exactly "
            "this case and counts it in coverage.rules.comparePopScore_on_planted_invalid_candidate; any other answer "
            "than 'tip wins' is a violation. "
            "Trusted: Coq kernel, extraction, OCaml driver, C++ harness incl. the independent audit, id mirror of the "
            "generator. Modelled not verified: contextual SP header rules (C15), MAX_VBKPOPTX_PER_VBK_BLOCK is in the "
            "model but not reached by the generator (1025 pop txs in one VBK block), VBK-level validity of the "
            "containing block.",
    "technique": "Coq proof (reflection of the coded checks against a declarative rule set) + extraction-based "
                 "differential correspondence + direct oracle",
}


def cases_for(ctx):
    r = ctx.rng
    rounds = 4 if ctx.tier == "quick" else 60
    cases = []
    k = 0
    for _ in range(rounds):
        for m in R.VIOLATIONS + R.BOUNDARIES:
            g = R.case_c04(r.fork(), m)
            if g is None:
                continue
            k += 1
            cases.append(("h%d" % k, g))
    return cases


def run(ctx):
    ctx.prove()
    if ctx.replay and "lines" in ctx.replay:
        cases = [("r1", R.gen_from_replay(ctx.replay))]
    else:
        cases = R.load_corpus(vlib, "C04") + cases_for(ctx)
    ctx.cov["rule"] = ("one history per (rule-breaking mutation | boundary non-violation) x round: random honest tree, "
                       "offending block at random depth, 0-2 descendants, random header/body order and set/cmp order; "
                       "distinct = distinct (rule, depth, descendants, script length)")
    R.check(vlib, ctx, "C04", cases)
