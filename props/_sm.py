"""Shared machinery of the POP state machine checks C01 / C02 / C20.

  SmGen      WorldGen + planted invalid payloads whose invalidity is certain by construction, and the
             translation of every ALT block body into the model's command groups (Pop/SmDefs.v)
  SmHistory  random op driver (honest blocks, planted blocks, "valid only next to the other chain" scenarios)
  run_script harness runner that survives an abort (VBK_ASSERT) of the library: the crashing history is
             reported, the remaining histories are run in a fresh process
  model_script / compare_model   the same op list driven through the extracted model

Model command syntax (one ALT block):   conn <a> <parent> <dup 0|1> <group>;<group>;...   group = cmd,cmd,...
   R<x>.<p>  AddRef x with parent p      E<e>.<c>.<b>  AddEnd (endorsed, containing, block of proof)
   N<x>      Need x (no effect, fails iff x unknown)      X  Poison (always fails)
"""
import os
import vlib
from props._world import WorldGen, History

import re
ATV_BAD_KINDS = ["fork", "expired", "unkn", "nobop"]
# finding: after a failed setState / non-switching comparePopScore whose VTB temporarily moved the BTC best chain to a
# fork of EQUAL work, the BTC best chain is not moved back (nothing else differs)
BTC_TIE_KEY = "C02:btc-tip-not-restored-on-tie"
CACHED_VERDICT_KEY = "C01:verdict-0-vs-1-cached-invalid"
BTC_TIE_RE = re.compile(r"views differ: -\[BTC best b\d+\] \+\[BTC best b\d+\]$")
# planted VTBs: btcgap = BTC context does not connect (fails before the command group is built);
# wunkn / wexpired = passes the stateless checks and the BTC-context check, fails INSIDE its command group after its
# BTC blocks were added (endorsed VBK block unknown to the instance / more than vbk_settle behind the containing one)
VTB_BAD_KINDS = ["btcgap", "wunkn", "wexpired"]


class SmGen(WorldGen):
    def __init__(self, rng, cfg=None):
        super().__init__(rng, cfg)
        self.bad = {}        # payload id -> kind (planted invalid payloads)
        self.dup = {}        # alt id -> True when the body repeats a payload id of an ancestor
        self.side = None     # an ALT block on a fork of its own (child of a0, empty body)
        self.unshown = None  # an ALT block whose header is never shown to any instance
        self.planted_blocks = {}  # alt id -> description

    # ------------------------------------------------------------------ helpers
    def vpar(self, v):
        return self.vbk[v]["parent"]

    def vbk_settle(self):
        return self.cfg.get("vbk_settle", 400)

    def vanc(self, v):
        out = set()
        while v is not None:
            out.add(v)
            v = self.vbk[v]["parent"]
        return out

    def vtb_pool(self, known):
        """VBK blocks an honest VTB contained in the next block on vtip may endorse: known to the chain, on vtip's
        own VBK chain, not expired"""
        on_tip = self.vanc(self.vtip)
        lim = min(8, self.vbk_settle() - 1)
        ht = self.vbk[self.vtip]["height"]
        return [v for v in sorted(known, key=lambda v: int(v[1:])) if v in on_tip and self.vbk[v]["height"] >= ht - lim]

    def make_xvtb(self, endorsed, last_known_btc, vparent=None, bparent=None):
        """as make_vtb, but the containing VBK block is assembled by hand (harness op `xvtb`): the miner does not
        apply the VTB to its own tree, so the VTB may be contextually invalid"""
        w = self.make_vtb(endorsed, last_known_btc, vparent, bparent)
        self.lines[-1] = "on A x" + self.lines[-1]
        return w

    def make_mvtb(self, specs, vparent=None):
        """several honest VTBs contained in ONE new VBK block on `vparent` (harness op `mvtb`).
        specs = [(endorsed, bparent | "prev", last known btc | "prev")]; "prev" = block of proof of the previous one"""
        vparent = vparent or self.vtip
        vid = "v%d" % self.nv
        self.nv += 1
        self.vbk[vid] = dict(parent=vparent, height=self.vbk[vparent]["height"] + 1)
        ws, bids, words = [], [], []
        for (e, bp, last) in specs:
            wid = "w%d" % self.nw
            self.nw += 1
            bid = "b%d" % self.nb
            self.nb += 1
            def real(x):
                return bids[-1] if x == "prev" else (bids[int(x[1:])] if x.startswith("#") else x)
            rbp, rlast = real(bp), real(last)
            self.btc[bid] = dict(parent=rbp, height=self.btc[rbp]["height"] + 1)
            self.vtb[wid] = dict(endorsed=e, containing=vid, bop=bid, last=rlast, bctx=self.bpath(rlast, bid))
            if self.btc[bid]["height"] > self.btc[self.btip]["height"]:
                self.btip = bid
            ws.append(wid)
            bids.append(bid)
            words += [wid, e, bp, last]
        self.emit("on A mvtb %s %s" % (vparent, " ".join(words)), " ".join([vid] + bids))
        if self.vbk[vid]["height"] > self.vbk[self.vtip]["height"]:
            self.vtip = vid
        return ws

    def ensure_side(self, anc=()):
        """an ALT block that is NOT on the chain `anc` (a child of a0 with an empty body)"""
        if self.side is None or self.side in anc:
            self.side = self.new_alt("a0")
            self.set_pd(self.side)
        return self.side

    def ensure_unshown(self, anc=()):
        if self.unshown is None or self.unshown in anc:
            self.unshown = self.new_alt("a0")
            self.set_pd(self.unshown)
        return self.unshown

    def honest_ctx(self, aid, atvs, vtbs, extra=()):
        a = self.alt[aid]
        known = set(self.alt[a["parent"]]["kv"])
        need = [self.vtb[w]["containing"] for w in vtbs] + [self.atv[t]["bop"] for t in atvs] + list(extra)
        c = []
        for n in need:
            for v in self.vpath(known | set(c), n):
                if v not in c:
                    c.append(v)
        c.sort(key=lambda v: (self.vbk[v]["height"], int(v[1:])))
        return c

    def chain_payload_ids(self, aid):
        """payload ids (ctx vbk, vtb, atv) carried by the proper ancestors of aid"""
        s = set()
        for x in self.ancestry(aid)[:-1]:
            b = self.alt[x]
            s |= set(b["ctx"]) | set(b["vtbs"]) | set(b["atvs"])
        return s

    def is_dup(self, aid):
        b = self.alt[aid]
        mine = set(b["ctx"]) | set(b["vtbs"]) | set(b["atvs"])
        return bool(mine & self.chain_payload_ids(aid))

    def last_btc(self, parent, vtbs):
        kb = set(self.alt[parent]["kb"])
        for w in vtbs:
            kb |= set(self.vtb[w]["bctx"])
        return max(kb, key=lambda b: (self.btc[b]["height"], -int(b[1:])))

    # ------------------------------------------------------------------ blocks
    def honest_block(self, parent, n_atv=None, n_vtb=None, empty_chance=(1, 3)):
        """as WorldGen.honest_block, with fewer VTBs (creating one costs ~0.1 s in the registry's miner)"""
        r = self.r
        if r.chance(*empty_chance):
            aid = self.new_alt(parent)
            self.set_pd(aid)
            return aid
        na = n_atv if n_atv is not None else r.below(3)
        nv = n_vtb if n_vtb is not None else (1 if (not getattr(self, "no_vtb", False)) and r.chance(1, 5) else 0)
        return self.build_block(parent, n_vtb=nv, n_atv=na)

    def make_payloads(self, parent, height, n_vtb, n_atv, n_extra, kb=None, endorsable=None):
        """fresh honest payloads for a block of the given height on `parent`'s chain"""
        r = self.r
        if getattr(self, "no_vtb", False):
            n_vtb = 0
        anc = self.ancestry(parent)
        settle = self.settle()
        cands = endorsable if endorsable is not None else \
            [x for x in anc if x != "a0" and height - self.alt[x]["height"] <= settle]
        kb = set(kb if kb is not None else self.alt[parent]["kb"])
        vtbs, atvs = [], []
        for j in range(n_vtb):
            pool = self.vtb_pool(self.alt[parent]["kv"])
            if not pool:
                continue
            e = r.choice(pool)
            last = max(kb, key=lambda b: (self.btc[b]["height"], -int(b[1:])))
            w = self.make_vtb(e, last)
            kb |= set(self.vtb[w]["bctx"])
            vtbs.append(w)
        for j in range(n_atv):
            if cands:
                atvs.append(self.make_atv(r.choice(cands), payout=r.choice(["010203", "aabb", "cc"])))
        extra = [self.mine_vbk() for _ in range(n_extra)]
        return vtbs, atvs, extra, kb

    def build_block(self, parent, n_vtb=0, n_atv=0, n_extra=0, plant=None):
        """new ALT block on `parent` with fresh honest payloads, optionally one planted invalid payload"""
        h = self.alt[parent]["height"] + 1
        vtbs, atvs, extra, _ = self.make_payloads(parent, h, n_vtb, n_atv, n_extra)
        return self.build_from(parent, vtbs, atvs, extra, plant)

    def build_from(self, parent, vtbs, atvs, extra=(), plant=None):
        """new ALT block on `parent` carrying the given (honest) payloads.
        plant = None | ("ctx", j) | ("vtb", j) | ("atv", j, kind) | ("dupatv",) | ("dupctx",):
        one invalid payload whose invalidity is certain by construction replaces / joins them."""
        r = self.r
        aid = self.new_alt(parent)
        anc = self.ancestry(aid)[:-1]
        h = self.alt[aid]["height"]
        settle = self.settle()
        cands = [x for x in anc if x != "a0" and h - self.alt[x]["height"] <= settle]
        vtbs, atvs = list(vtbs), list(atvs)
        pk = plant[0] if plant else None
        drop_from = None
        if pk == "vtb":
            j = plant[1]
            kind = plant[2] if len(plant) > 2 else "btcgap"
            # optional (bparent, last known) for the in-group failing kinds: lets a scenario aim the VTB's BTC blocks
            # at a chosen BTC fork
            hint_bp, hint_last = getattr(self, "btc_hint", None) or (None, None)
            known = sorted(self.alt[parent]["kv"], key=lambda v: int(v[1:]))
            if kind == "wexpired":
                old = [v for v in known if v in self.vanc(self.vtip)
                       and self.vbk[self.vtip]["height"] + 1 - self.vbk[v]["height"] > self.vbk_settle()]
                if old:
                    w = self.make_xvtb(r.choice(old), hint_last or self.last_btc(parent, vtbs[:j]), bparent=hint_bp)
                else:
                    kind = "wunkn"
            if kind == "wunkn":
                # endorsed VBK block: a sibling of the VBK tip that is never delivered to any instance
                if self.vtip == "v0":
                    self.mine_vbk()
                x = self.mine_vbk(parent=self.vpar(self.vtip))
                w = self.make_xvtb(x, hint_last or self.last_btc(parent, vtbs[:j]), bparent=hint_bp)
            if kind == "btcgap":
                pool = self.vtb_pool(known)
                ahead = self.mine_btc()              # a BTC block this chain has never been shown
                w = self.make_vtb(r.choice(pool or [self.vtip]), ahead)
            self.bad[w] = kind
            if j < len(vtbs):
                vtbs[j] = w
            else:
                vtbs.append(w)
        if pk == "atv":
            j, kind = plant[1], plant[2]
            if kind == "expired":
                old = [x for x in anc if x != "a0" and h - self.alt[x]["height"] > settle]
                if not old:
                    kind = "fork"
                else:
                    t = self.make_atv(r.choice(old))
            if kind == "fork":
                # an ALT block on a sibling fork; preferably one the history instance has seen (connected, activated,
                # abandoned), below the new block and inside the settlement interval
                fp = [x for x in sorted(getattr(self, "fork_pool", ()), key=lambda a: int(a[1:]))
                      if x in self.alt and x not in anc and x != "a0" and 0 < h - self.alt[x]["height"] <= settle]
                t = self.make_atv(r.choice(fp) if fp else self.ensure_side(anc))
            elif kind == "unkn":
                t = self.make_atv(self.ensure_unshown(anc))
            elif kind == "nobop":
                spacer = self.mine_vbk()
                t = self.make_atv(r.choice(cands) if cands else self.ensure_side(anc))
                drop_from = spacer
            self.bad[t] = kind
            if j < len(atvs):
                atvs[j] = t
            else:
                atvs.append(t)
        if pk == "dupatv":
            pool = [t for x in anc for t in self.alt[x]["atvs"]]
            if pool:
                atvs.append(r.choice(pool))
        ctx = self.honest_ctx(aid, atvs, vtbs, extra)
        override = None
        if drop_from is not None:
            # the ATV's block of proof cannot connect: its parent and everything above is withheld
            hcut = self.vbk[drop_from]["height"]
            override = [v for v in ctx if self.vbk[v]["height"] < hcut]
        if pk == "ctx":
            j = plant[1]
            if j + 1 < len(ctx):
                override = ctx[:j] + ctx[j + 1:]     # ctx[j+1] now sits at position j without its parent
                self.bad[(aid, "ctx")] = j
        if pk == "dupctx":
            pool = [v for x in anc for v in self.alt[x]["ctx"]]
            if pool:
                override = [pool[-1]] + ctx
        self.set_pd(aid, atvs=atvs, vtbs=vtbs, ctx=override if override is not None else ctx)
        self.fix_kb(aid)
        if plant:
            self.planted_blocks[aid] = plant
        return aid

    def fix_kb(self, aid):
        """BTC blocks known after the block: planted VTBs deliver nothing (the miner's own tree never saw them)"""
        a = self.alt[aid]
        kb = set(self.alt[a["parent"]]["kb"])
        for w in a["vtbs"]:
            if not self.bad.get(w):
                kb |= set(self.vtb[w]["bctx"])
        a["kb"] = kb

    def positions(self, aid):
        """failure positions available in the (honest) body of aid: one per command group"""
        b = self.alt[aid]
        c = max(0, len(b["ctx"]) - 1)
        js = sorted({j for j in (0, 1, c // 2, c - 1) if 0 <= j < c})
        pos = [("ctx", j) for j in js]
        pos += [("vtb", j) for j in range(len(b["vtbs"]))]
        pos += [("atv", j) for j in range(len(b["atvs"]))]
        return pos

    # ------------------------------------------------------------------ model translation
    def groups(self, aid):
        b = self.alt[aid]
        gs = []
        for v in b["ctx"]:
            gs.append("R%s.%s" % (v, self.vpar(v)))
        for w in b["vtbs"]:
            x = self.vtb[w]
            if self.bad.get(w) in ("wunkn", "wexpired"):
                # the BTC context is added, then the endorsement command fails: the group rolls back
                cmds = ["N%s" % x["containing"]]
                for bb in x["bctx"]:
                    cmds.append("R%s.%s" % (bb, self.btc[bb]["parent"]))
                gs.append(",".join(cmds + ["X"]))
                continue
            if self.bad.get(w):
                gs.append("N%s,X" % x["containing"])
                continue
            cmds = ["N%s" % x["containing"]]
            for bb in x["bctx"]:
                cmds.append("R%s.%s" % (bb, self.btc[bb]["parent"]))
            cmds.append("E%s.%s.%s" % (x["endorsed"], x["containing"], x["bop"]))
            gs.append(",".join(cmds))
        for t in b["atvs"]:
            x = self.atv[t]
            head = "R%s.%s" % (x["bop"], self.vpar(x["bop"]))
            kind = self.bad.get(t)
            if kind in ("fork", "expired", "unkn"):
                gs.append(head + ",X")
            else:
                gs.append(head + ",E%s.%s.%s" % (x["endorsed"], aid, x["bop"]))
        return gs

    def conn_line(self, aid):
        b = self.alt[aid]
        gs = self.groups(aid)
        return "conn %s %s %d %s" % (aid, b["parent"], 1 if self.is_dup(aid) else 0, ";".join(gs) if gs else "-")


class SmHistory(History):
    """History over an SmGen; `planted` > 0 adds blocks with invalid payloads and hole scenarios"""

    def __init__(self, gen, inst="A", planted=0, destructive=True):
        super().__init__(gen, inst)
        self.planted = planted
        self.destructive = destructive
        self.dead = set()     # subtrees removed from the instance; never shown again when payloads are planted:
        # re-accepting a removed FAILED_POP block and then a child header aborts in raiseValidity
        # (block_index.hpp:202) - a defect outside these properties, reported separately

    def on(self, *words):
        super().on(*words)
        if words[0] == "cmp":
            super().on("sm")     # lets the model resolve its score oracle (see ocaml/Pop_driver.ml)

    def show(self, aid, order="random"):
        if self.dead and any(x in self.dead for x in self.g.ancestry(aid)):
            return
        super().show(aid, order)

    def pick_parent(self):
        avoid_invalid = self.planted and not self.r.chance(1, 6)
        holes = {b for _, b in getattr(self.g, "hole", [])}
        for _ in range(20):
            p = super().pick_parent()
            anc = self.g.ancestry(p)
            if self.dead and any(x in self.dead for x in anc):
                continue
            if avoid_invalid and any(x in self.g.planted_blocks or x in holes for x in anc):
                continue
            return p
        return "a0"

    def planted_block(self):
        g, r = self.g, self.r
        parent = self.pick_parent()
        kinds = [("ctx", 0), ("vtb", 0, r.choice(VTB_BAD_KINDS)), ("atv", 0, r.choice(ATV_BAD_KINDS)), ("dupatv",), ("dupctx",)]
        p = r.choice(kinds)
        n_vtb = 1 if p[0] == "vtb" else r.below(2)
        n_atv = 1 if p[0] == "atv" else r.below(2)
        a = g.build_block(parent, n_vtb=n_vtb, n_atv=n_atv, n_extra=2 if p[0] == "ctx" else r.below(2), plant=p)
        return a

    def hole_scenario(self):
        """candidate chain B valid only thanks to VBK context delivered by the active chain A:
        A = fork .. a_ctx (context only, no endorsements); B = fork .. b_e whose ATV's block of proof sits on
        top of a VBK block only A delivers. B is endorsed, A is not, so B wins the score when applied
        next to A and must then fail when validated alone."""
        g, r = self.g, self.r
        fork = self.pick_parent()
        la, lb = r.range(1, 3), r.range(1, 3)
        # prefix of chain B first (its honest payloads must not deliver what A delivers later)
        b = fork
        for i in range(lb - 1):
            b = g.build_block(b, n_atv=r.below(2))
        # chain A: the last block delivers fresh VBK context, no endorsements
        a = fork
        for i in range(la):
            a = g.build_block(a, n_extra=r.range(1, 2) if i == la - 1 else 0)
        deliver = g.alt[a]["ctx"][-1]
        # last block of B: ATVs whose blocks of proof hang on `deliver`; nothing of it is in B's context
        bid = g.new_alt(b)
        anc = g.ancestry(bid)[:-1]
        own = [x for x in anc if x not in g.ancestry(fork)]
        endorsed = own or ([fork] if fork != "a0" else [])
        if not endorsed:
            g.set_pd(bid)
            return a, bid
        ts = []
        vp = deliver
        for e in endorsed:
            t = g.make_atv(e, vparent=vp)
            vp = g.atv[t]["bop"]
            ts.append(t)
        g.set_pd(bid, atvs=ts, ctx=[])
        g.hole = getattr(g, "hole", [])
        g.hole.append((a, bid))
        return a, bid

    def early_scenario(self):
        """payload valid only thanks to SP state introduced by LATER SP blocks: VTB w2 sits in VBK block c2, its
        block of proof b2 connects (empty BTC context) to b1, and b1 is delivered only by VTB w1 contained in a VBK
        block ABOVE c2. x1 carries w1 (valid), its child x2 carries w2 (invalid: when c2 was mined nobody had
        published b1). Then the VBK chain is reorganised below w1's containing block, on top of both."""
        g, r = self.g, self.r
        if getattr(g, "early", None):
            return None      # once per history: afterwards the BTC view depends on which VBK fork is the best one
        parent = self.pick_parent()
        pool = g.vtb_pool(g.alt[parent]["kv"])
        if not pool:
            return None
        g.no_vtb = True      # (honest VTBs mined later would have to know which VBK fork every chain ends up on)
        b1 = g.mine_btc()
        w2 = g.make_xvtb(r.choice(pool), b1, bparent=b1)
        c2 = g.vtb[w2]["containing"]
        g.bad[w2] = "wearly"
        mid = c2
        for _ in range(r.below(2)):
            mid = g.mine_vbk(parent=mid)
        w1 = g.make_vtb(c2, g.last_btc(parent, []), vparent=mid)
        c1 = g.vtb[w1]["containing"]
        x1 = g.new_alt(parent)
        g.set_pd(x1, vtbs=[w1])
        x2 = g.new_alt(x1)
        g.set_pd(x2, vtbs=[w2])
        g.fix_kb(x2)
        g.planted_blocks[x2] = ("vtb", 0, "wearly")
        # a longer VBK fork on top of `mid`: w1's containing block leaves the VBK best chain
        f = mid
        fork = []
        for _ in range(r.range(2, 3)):
            f = g.mine_vbk(parent=f)
            fork.append(f)
        x3 = g.new_alt(x2)
        g.set_pd(x3, ctx=fork)
        y3 = g.new_alt(x1)
        g.set_pd(y3, ctx=fork)
        g.early = getattr(g, "early", [])
        g.early.append((x1, x2, x3, y3))
        self.show(x1, order="inorder")
        self.on("set", x1)
        self.show(x2, order="inorder")
        self.on(r.choice(["set", "cmp"]), x2)
        self.on("sm")
        self.show(x3, order="inorder")
        self.on("set", x3)
        self.on("sm")
        self.show(y3, order="inorder")
        self.on(r.choice(["set", "cmp"]), y3)
        self.on("react")
        self.on("sm")
        return x2

    def shared_btc_scenario(self):
        """two ALT forks whose VTBs reference the SAME BTC block from VBK blocks of different heights: chain B: b1
        carries a VTB whose block of proof is the shared BTC block s; b2 carries a VTB that connects only through s
        (empty BTC context); b3 carries an ATV so that B scores. Fork A: a1 carries a VTB whose BTC context contains
        s again (second reference to s, from another VBK height; mined before or after B's second VTB). B is
        validated, A activated, B compared against A (the winner stays applied while the loser is reverted underneath
        it: non-LIFO release of A's reference), then the instance walks back and forth and re-activates."""
        g, r = self.g, self.r
        if getattr(g, "early", None) or getattr(g, "shared", None) or getattr(g, "no_vtb", False):
            return None
        fork = self.pick_parent()
        if any(x in g.planted_blocks for x in g.ancestry(fork)):
            return None
        pool = g.vtb_pool(g.alt[fork]["kv"])
        if not pool:
            return None
        base = g.best_known_btc(fork)
        if base not in g.bpath(None, g.btip) and base != "b0":
            return None
        kvf = g.alt[fork]["kv"]

        def endorsable():
            # recomputed for every VTB: the VBK tip moves on, endorsements must stay inside the settlement interval;
            # the parent of the containing block is delivered by the same ALT block and always endorsable
            return g.vtb_pool(kvf) or [g.vtip]
        wb1 = g.make_vtb(r.choice(endorsable()), base)
        s_blk = g.vtb[wb1]["bop"]
        for _ in range(r.below(3)):
            g.mine_vbk()
        order = ["b2", "a"] if r.chance(1, 2) else ["a", "b2"]
        wb2 = wa = None
        for o in order:
            if o == "b2":
                wb2 = g.make_vtb(r.choice(endorsable() + [g.vtip]), s_blk)
            else:
                wa = g.make_vtb(r.choice(endorsable()), base)
            for _ in range(r.below(3)):
                g.mine_vbk()
        b1 = g.build_from(fork, [wb1], [], ())
        b2 = g.build_from(b1, [wb2], [], ())
        b3 = g.build_from(b2, [], [g.make_atv(r.choice([b1, b2])) for _ in range(r.range(1, 2))], ())
        a1 = g.build_from(fork, [wa], [], ())
        a2 = g.build_from(a1, [], [g.make_atv(a1)] if r.chance(1, 3) else [], ())
        g.shared = (fork, [b1, b2, b3], [a1, a2])
        self.show(b3, order="inorder")
        self.show(a2, order="inorder")
        self.on("set", b3)
        self.on("set", r.choice([a1, a2]))
        self.on("cmp", b3)
        self.on("sm")
        self.on("set", r.choice([b1, fork]))
        self.on("set", b3)
        self.on("sm")
        self.on("react")
        for _ in range(r.below(3)):
            self.on(r.choice(["set", "cmp"]), r.choice([fork, b1, b2, b3, a1, a2]))
        self.on("react")
        self.on("sm")
        return b3

    def step(self):
        r = self.r
        if getattr(self, "shared_pct", 0) and r.chance(self.shared_pct, 100):
            if self.shared_btc_scenario() is not None:
                return
        if self.planted and r.chance(self.planted, 100):
            if getattr(self, "early_pct", 0) and r.chance(self.early_pct, 100):
                if self.early_scenario() is not None:
                    return
            if r.chance(1, 3):
                a, b = self.hole_scenario()
                self.show(a, order="inorder")
                self.show(b, order="inorder")
                self.on("set", a)
                self.on("cmp", b)
                if r.chance(1, 2):
                    self.on("set", b)
                return
            a = self.planted_block()
            self.show(a)
            self.on(r.choice(["set", "cmp"]), a)
            return
        if not self.destructive:
            # like History.step but without rm / rmpl
            k = r.below(100)
            ids = sorted(self.g.alt, key=lambda a: int(a[1:]))
            if k < 40:
                a = self.g.honest_block(self.pick_parent())
                if r.chance(3, 4):
                    self.show(a)
                    if r.chance(2, 3):
                        self.on(r.choice(["set", "set", "cmp"]), a)
                return
            if k < 55:
                self.show(r.choice(ids))
                return
            if k < 75:
                self.on("set", r.choice(ids))
                return
            self.on("cmp", r.choice(ids))
            return
        n0 = len(self.g.lines)
        super().step()
        if self.planted:
            for l in self.g.lines[n0:]:
                t = l.split()
                if len(t) == 4 and t[0] == "on" and t[2] == "rm":
                    self.dead |= {y for y in self.g.alt if t[3] in self.g.ancestry(y)}


# ---------------------------------------------------------------------------------------------
# running scripts
# ---------------------------------------------------------------------------------------------
def split_histories(lines):
    """[(first line index, last+1)] of the histories (a history starts at a `begin` line)"""
    starts = [i for i, l in enumerate(lines) if l.split()[1] == "begin"]
    return [(s, (starts[k + 1] if k + 1 < len(starts) else len(lines))) for k, s in enumerate(starts)]


def run_script(binpath, lines, work, tag="s", timeout=1500):
    """run the script through the harness; returns (results, oracle failures, crashes)
    crashes = [(history lines, crashing line, stderr tail)]"""
    results, oracle, crashes = {}, [], []
    hist = split_histories(lines)
    pos = 0
    rounds = 0
    while pos < len(lines) and rounds < 8:
        rounds += 1
        chunk = lines[pos:]
        p = os.path.join(work, "%s-%d.txt" % (tag, rounds))
        with open(p, "w") as f:
            f.write("\n".join(chunk) + "\n")
        rc, res, orc, err = vlib.run_lines([binpath], p, timeout=timeout)
        results.update(res)
        oracle += orc
        if rc == 0:
            break
        # abort / crash: first line without an answer
        bad = None
        for i in range(pos, len(lines)):
            if lines[i].split()[0] not in results:
                bad = i
                break
        if bad is None:
            break
        hs = [h for h in hist if h[0] <= bad < h[1]]
        s, e = hs[0] if hs else (pos, len(lines))
        crashes.append((lines[s:e], lines[bad], "rc=%d %s" % (rc, " ".join(err.split())[-400:])))
        pos = e
    return results, oracle, crashes


def history_of(lines, cid):
    """the lines of the history that contains case id `cid`"""
    for s, e in split_histories(lines):
        ids = {l.split()[0] for l in lines[s:e]}
        if cid in ids:
            return lines[s:e]
    return []


# ---------------------------------------------------------------------------------------------
# the model side
# ---------------------------------------------------------------------------------------------
def model_script(lines, results, gens):
    """translate a harness script (with the harness answers) into the model's script.
    gens: {history prefix: SmGen}. Ops on instance A only. Lines to compare keep their id."""
    out = []
    cmp_ids = []
    state = None
    n_aux = 0

    pre = "h"

    def aux(s):
        nonlocal n_aux
        n_aux += 1
        out.append("%s_x%d %s" % (pre, n_aux, s))

    for li, l in enumerate(lines):
        t = l.split()
        cid, op = t[0], t[1]
        res = results.get(cid)
        if op == "begin":
            pre = cid.rsplit("_", 1)[0]
            g = gens.get(pre)
            state = dict(g=g, hdr={"a0"}, body={"a0"}, conn={"a0"}) if g is not None else None
            if g is not None:
                ki = g.cfg.get("alt_ki", 5)
                aux("begin %d%s" % (ki, " alt" if alt_only(g) else ""))
            continue
        if state is None or res is None:
            continue
        g = state["g"]
        if op != "on" or t[2] != "A":
            continue
        c = t[3]
        if c == "hdr" and (res == "ok" or res.startswith("fail")):
            state["hdr"].add(t[4])
        elif c == "body" and (res.startswith("connected") or res.startswith("stored")):
            state["body"].add(t[4])
            # connect cascade
            stack = [t[4]]
            while stack:
                x = stack.pop()
                if x in state["conn"] or x not in state["body"] or g.alt[x]["parent"] not in state["conn"]:
                    continue
                state["conn"].add(x)
                aux(g.conn_line(x))
                for y, b in g.alt.items():
                    if b["parent"] == x and y in state["hdr"]:
                        stack.append(y)
        elif c == "set" and not res.startswith("SKIP"):
            out.append("%s set %s" % (cid, t[4]))
            cmp_ids.append(cid)
        elif c == "cmp" and not res.startswith("SKIP"):
            known = t[4] in state["conn"]
            exp = "-"
            if li + 1 < len(lines):
                n = lines[li + 1].split()
                if n[1:] == ["on", "A", "sm"] and results.get(n[0]):
                    exp = (alt_part(results[n[0]]) if alt_only(g) else results[n[0]]).replace(" ", "~")
            out.append("%s cmp %s %s %s" % (cid, t[4] if known else "-", res, exp))
            cmp_ids.append(cid)
        elif c == "sm":
            out.append("%s sm" % cid)
            cmp_ids.append(cid)
        elif c == "react" and res.startswith("react"):
            # C20: the model's sweep (Pop/SmLaterDefs.v react over full_ids) against the harness's: same number of
            # fully valid blocks tried, every answer true, same state afterwards (the next sm line)
            out.append("%s react" % cid)
            cmp_ids.append(cid)
    return out, cmp_ids


def cached_verdict_case(ra, rb, fa, fb):
    """the listed finding C01:verdict-0-vs-1-cached-invalid, exactly: verdicts {1, 0}; the instance answering 1 held a
    failure mark (FAILED_BLOCK/POP/CHILD) on the candidate BEFORE the call; the instance answering 0 held it unvalidated
    (level below MAYBE, no mark). fa/fb = `flags` answers "<level>:<marks>:<active>"; without them (old corpus
    witness) only the verdict pair (history instance 1, fresh twin 0) is required."""
    if {ra, rb} != {"0", "1"}:
        return False
    if fa is None or fb is None:
        return ra == "1" and rb == "0"
    one, zero = (fa, fb) if ra == "1" else (fb, fa)
    try:
        l1, m1 = one.split(":")[0], one.split(":")[1]
        l0, m0 = zero.split(":")[0], zero.split(":")[1]
    except Exception:
        return False
    return m1 != "-" and m0 == "-" and int(l0) < 3


def alt_only(g):
    """histories in which a VBK reorganisation takes applied VTBs off the VBK best chain: SP fork resolution is outside
    the model, only the ALT part of the state (tip, applied count, levels, flags) is compared there"""
    return bool(getattr(g, "early", None))


def alt_part(dump):
    return " |".join(dump.split(" |")[:2])


def norm_impl(op_line, res):
    """canonical form of a harness answer for comparison with the model"""
    t = op_line.split()
    if t[3] == "set":
        return "true" if res == "true" else "false"
    return res


# ---------------------------------------------------------------------------------------------
# plugin metadata
# ---------------------------------------------------------------------------------------------
_NOTE = ("Trusted: Coq kernel, extraction (ExtrOcamlBasic), ocaml/Pop_driver.ml, harness/h_sm.cpp + world.hpp "
         "(canonicalisation, id<->hash mapping), the generator's translation of block bodies into command groups "
         "(props/_sm.py: VBK context block = AddRef, VTB = Need containing + AddRef per BTC context block + AddEnd, "
         "ATV = AddRef block of proof + AddEnd; planted invalid payloads = Poison). The score comparison inside "
         "comparePopScore is an oracle parameter of the model (property C03); in the correspondence run its sign is "
         "taken from the implementation's answer and everything else (short-cuts, validity levels, rollbacks, final "
         "state) is computed by the model. Modelled, not verified: the VBK/BTC trees below the command interface "
         "(acceptBlockHeader, addPayloads) are abstracted to a reference-count machine; SP fork resolution, "
         "finalization and save/load are outside this model.")
_TECH = "Coq proof (induction over op histories, invariants) + extraction-based differential correspondence + direct oracles"
META_C02 = {
    "text": "Theorems (Coq, closed under the global context; all trees, payload assignments, failing positions (n,k), scorers, "
            "histories; no _partial left): every state reachable by connectBlock / setState / comparePopScore is 'quiet' (tree "
            "well formed, tip applied, appliedBlockCount = length of root..tip) and there EXACTLY root..tip is flagged applied. "
            "CommandGroup::execute and applyBlock are atomic, unExecute/unapplyBlock exact inverses. setState, comparePopScore "
            "and connectBlock never reach an assert of the modelled code from a reachable state, for any known target / "
            "candidate (valid, failing at any position next to the active chain or alone, already invalid, ahead, behind, on a "
            "fork, unknown). setState: true => target is tip, exactly root..target applied; false => tip, counter, the applied "
            "flag of every block unchanged and P unchanged as a multiset. comparePopScore: result >= 0 => tip, counter, applied "
            "flags and P unchanged; result < 0 => candidate is tip, exactly root..candidate applied. Both change nothing but "
            "validity marks and only on the target/candidate branch (levels raised only on ancestors-or-self of the target, "
            "FAILED_POP only there, FAILED_CHILD only on proper descendants of a branch block that got FAILED_POP). Outside the "
            "model (the real VBK/BTC trees below the command interface, finalization, altchain invalidate/revalidate, the tip "
            "candidate set) the property is checked on the implementation: full ALT/VBK/BTC snapshot before/after every call "
            "with the allowance of DESIGN section 7 under enumeration of the failing group position, and the step-by-step "
            "correspondence with the extracted model. Histories include planted VTBs failing inside their command group, "
            "exactly tied VBK forks and exactly tied BTC forks moved by the target before its planted failure. Accepted "
            "validity mark: the cached validity LEVEL of a VBK/BTC block may differ before/after (failure flags, ACTIVE and "
            "all other fields are compared exactly; witness corpus/C02/sp_fork_level_raised.json). Open finding reported "
            "under key C02:btc-tip-not-restored-on-tie (witness corpus/C02/btc_tip_not_restored_on_tie.json).",
    "note": _NOTE, "technique": _TECH,
}
META_C01 = {
    "text": "Theorems (Coq, closed): every command of the reference-count machine has an exact inverse; for EVERY state "
            "reachable by any history of connectBlock / setState / comparePopScore (any scorer) over any tree with any "
            "payloads: P = bootstrap state + exactly the effects of the blocks flagged applied (C01_applied_canonical), those "
            "blocks are exactly root..tip (C01_applied_exactly), hence two histories ending with the same active chain (same "
            "payloads on root..tip) give the same reference count for every SP block and the same endorsement multiset "
            "(C01_history_independence_partial) - the fresh instance shown only the final chain is one such history. "
            "_partial because payouts and the comparePopScore verdict (functions of P and the chain outside this model, "
            "properties C14/C03) are not proved equal; that part is checked on the implementation by the twin oracle (history "
            "vs fresh instance: POP projection of the ALT/VBK/BTC views, getPopPayout, comparePopScore against shown candidates).",
    "note": _NOTE, "technique": _TECH,
}
META_C20 = {
    "text": "Theorems (Coq, closed; no _partial left): for EVERY reachable state (any history of connectBlock / setState / "
            "comparePopScore with any scorer, any tree, payloads, failing positions): C20_reactivation - setState to a block at "
            "level CAN_BE_APPLIED that is not invalidated returns TRUE (fork search, unapply to the fork, apply the branch: no "
            "assert is hit, no command group fails); C20_full_validity_truthful - every block at CAN_BE_APPLIED replays "
            "successfully ALONE from the bootstrap state; C20_chain_full - every block of root..tip is applied, not failed and "
            "at CAN_BE_APPLIED; the level logic of applyBlock (the fully-valid level is raised only on a fully valid parent and "
            "only when the applied-block counter says nothing but root..parent is applied; a block applied next to another "
            "chain or on a MAYBE parent is never reported fully valid by that application); the unapply discipline. Over all "
            "CONTINUATIONS of all histories: a block reported fully valid in any of the three ways (level, successful setState, "
            "won comparison) keeps the level and setState to it returns TRUE from every later state in which it has no failure "
            "mark (C20_later_reactivation, C20_reported_full_persists, C20_levels_never_lowered); a block whose own ancestry does "
            "not replay alone is at the fully-valid level in NO reachable state (C20_never_full_unless_valid_alone, "
            "C20_full_means_validated_alone); applyBlock executes a block's commands in body order and unapplyBlock reverts them "
            "in exactly the reverse order, as equalities of protecting states (C20_apply_executes_in_order, "
            "C20_unapply_reverts_in_reverse, C20_unvalidated_unapplied_first). The model's re-activation sweep (react over "
            "full_ids, C20_react_sweep_sound) is run against every `react` of the harness on the modelled histories: same "
            "number of blocks tried, all answers true, same state afterwards. Outside the "
            "model (finalization, altchain invalidate/revalidate/removeSubtree, the real VBK/BTC trees below the command "
            "interface) the property is checked on the implementation: every block that ever reported full validity or won a "
            "setState/compare is re-activated at random later points (planted invalid payloads, candidates valid only thanks "
            "to the competing chain, invalidate/revalidate/remove); the apply/unapply event trace of the real PopStateMachine "
            "(guarded hook) is checked against the documented discipline; the model's validity levels are compared exactly.",
    "note": _NOTE + " The trace part uses the guarded hook veriblock/pop/verif_hooks.hpp (popTraceHook) when the repo provides it.",
    "technique": _TECH,
}


# ---------------------------------------------------------------------------------------------
# history generators
# ---------------------------------------------------------------------------------------------
class Script:
    def __init__(self):
        self.lines = []
        self.gens = {}
        self.equal = []       # (id, id, what) answers that must be equal (C01)
        self.cached_ok = set()  # first id of a verdict pair whose candidate is invalid by construction
        self.flagids = {}     # that id -> (id of `on A flags c`, id of `on B flags c`) issued right before the call
        self.guard = {}       # first id of an equal pair -> (history prefix, (tip line id, candidate)): SP carve-out
        self.modelled = set() # history prefixes whose ops are all modelled
        self.stats = {}

    def add(self, g, modelled=True):
        pre = "h%d" % len(self.gens)
        self.gens[pre] = g
        base = len(self.lines)
        ls = g.script(prefix=pre + "_c")
        self.lines += ls
        if modelled:
            self.modelled.add(pre)
        return pre

    def bump(self, k, n=1):
        self.stats[k] = self.stats.get(k, 0) + n


def small_cfg(r):
    settle = r.range(3, 6)
    cfg = {"alt_ki": r.range(2, 3), "alt_settle": settle, "payout_delay": settle, "payout_avg": 3}
    if r.chance(1, 2):
        cfg["vbk_settle"] = r.range(3, 8)      # small enough for expired VBK endorsements to be constructible
    return cfg


def gen_c02_history(seed, cfg, shape, sc, sidx):
    """one history per shape: main chain, an honest branch of the given shape (template), then one more
    branch per command-group position carrying the same honest payloads plus one planted invalid payload"""
    r = vlib.Rng(seed)
    g = SmGen(r, cfg)
    H = SmHistory(g)
    side = g.ensure_side()
    g.ensure_unshown()
    H.show(side, order="inorder")
    m, fork_i, blocks, order = shape
    a = "a0"
    main = []
    for i in range(m):
        a = g.build_block(a, n_vtb=1 if r.chance(1, 6) else 0, n_atv=r.below(2), n_extra=r.below(2))
        main.append(a)
    H.show(a, order="inorder")
    H.on("set", a)
    fork = (["a0"] + main)[fork_i]
    hf = g.alt[fork]["height"]
    settle = g.settle()
    # template payloads (endorsing blocks of the common ancestry only, so that every branch can carry them)
    tmpl = []
    kb = None
    for i, (nv, na, ne) in enumerate(blocks):
        h = hf + 1 + i
        endorsable = [x for x in g.ancestry(fork) if x != "a0" and h - g.alt[x]["height"] <= settle]
        vt, at, ex, kb = g.make_payloads(fork, h, nv, na, ne, kb=kb, endorsable=endorsable)
        tmpl.append((vt, at, ex))

    def instantiate(plant):
        b = fork
        ids = []
        for i, (vt, at, ex) in enumerate(tmpl):
            b = g.build_from(b, vt, at, ex, plant=plant[1] if plant and plant[0] == i else None)
            ids.append(b)
        return ids

    honest = instantiate(None)
    H.show(honest[-1], order=order)
    H.on("sm")
    H.on(r.choice(["set", "cmp"]), honest[-1])
    H.on("sm")
    H.on("set", main[-1])
    k = 0
    for i, bid in enumerate(honest):
        plist = list(g.positions(bid))
        if i > 0 and r.chance(1, 3):
            plist.append(r.choice([("dupatv",), ("dupctx",)]))
        if r.chance(1, 3):
            # one more VTB, after the honest ones, that fails inside its command group
            plist.append(("vtb", len(g.alt[bid]["vtbs"]), r.choice(["wunkn", "wexpired"])))
        for pos in plist:
            if pos[0] == "atv":
                pos = ("atv", pos[1], ATV_BAD_KINDS[(sidx + i + pos[1] + k) % 4])
            if pos[0] == "vtb" and len(pos) == 2:
                pos = ("vtb", pos[1], VTB_BAD_KINDS[(sidx + i + pos[1] + k) % 3])
            k += 1
            br = instantiate((i, pos))
            H.show(br[-1], order=order)
            if r.chance(1, 3):
                H.on("sm")
            H.on("set" if k % 2 else "cmp", br[-1])
            H.on("sm")
            if r.chance(1, 3):
                if i > 0:
                    # the part of the branch below the failing block stays usable
                    H.on(r.choice(["set", "cmp"]), br[i - 1])
                    H.on("sm")
                H.on("set", r.choice(main))
                H.on("sm")
            sc.bump("c02_positions")
            sc.bump("c02_kind_" + pos[0] + ("_" + pos[2] if len(pos) > 2 else ""))
    H.on("react")
    H.on("sm")
    return g


def gen_c02(ctx, sc, n_shapes, maxn, maxg, n_random):
    r = ctx.rng
    for s in range(n_shapes):
        cfg = small_cfg(r)
        n = r.range(1, maxn)
        blocks = []
        for i in range(n):
            tot = r.range(1, maxg)
            nv = 1 if r.chance(1, 4) else 0
            na = r.below(min(3, tot - nv) + 1)
            ne = max(0, tot - nv - na - 1) if r.chance(1, 2) else r.below(2)
            blocks.append((nv, na, ne + 1))
        m = r.range(1, 4)
        shape = (m, r.range(0, m), blocks, r.choice(["inorder", "random"]))
        g = gen_c02_history(r.next(), cfg, shape, sc, s)
        sc.add(g)
        sc.bump("c02_shapes")
        sc.bump("c02_shape_%dx%d" % (n, maxg))
    for _ in range(n_random):
        g = SmGen(r.fork(), small_cfg(r))
        H = SmHistory(g, planted=30, destructive=False)
        H.shared_pct = 8
        for i in range(30):
            H.step()
            if i % 5 == 4:
                H.on("sm")
        H.on("react")
        H.on("sm")
        sc.add(g)
        sc.bump("c02_random")


def gen_c02_spfork(ctx, sc, n_hist):
    """SP forks in C02 histories: two VBK forks p, q from a common block, delivered by two consecutive ALT blocks of
    the active chain (p first; q mostly EXACTLY as long as p, so p stays the VBK best chain). The target ALT block
    first extends q (the VBK best chain moves to q) and then fails in a later command group. The snapshot oracle
    compares the same instance before and after, so a tie needs no carve-out."""
    r = ctx.rng
    for _ in range(n_hist):
        g = SmGen(r.fork(), small_cfg(r))
        H = SmHistory(g)
        a = "a0"
        for _ in range(r.below(3)):
            a = g.build_block(a, n_atv=r.below(2), n_extra=r.below(2))
        kv = g.alt[a]["kv"]
        base = max(kv, key=lambda v: (g.vbk[v]["height"], -int(v[1:])))
        # mode "lose": q is shorter and stays the losing fork; one of its blocks (delivered as plain context) contains a
        # VTB that only the target delivers, so the VTB group runs - and is rolled back - off the VBK best chain
        lose = r.chance(1, 3)
        if lose:
            k = r.range(2, 5)
            d = -r.range(1, min(2, k - 1))
        else:
            k = r.range(1, 4)
            d = r.choice([0, 0, 0, 0, 1, -1]) if k > 1 else r.choice([0, 0, 0, 1])
        p, q = [], []
        v = base
        for _ in range(k):
            v = g.mine_vbk(parent=v)
            p.append(v)
        v = base
        wq = None
        jq = r.below(k + d) if lose else -1
        for i in range(k + d):
            if i == jq:
                wq = g.make_vtb(v, g.last_btc(a, []), vparent=v)
                v = g.vtb[wq]["containing"]
            else:
                v = g.mine_vbk(parent=v)
            q.append(v)
        a1 = g.new_alt(a)
        g.set_pd(a1, ctx=p)
        a2 = g.new_alt(a1)
        g.set_pd(a2, ctx=q)
        H.show(a2, order="inorder")
        H.on("set", a2)
        H.on("sm")
        for t in range(r.range(1, 3)):
            par = r.choice([a2, a2, a1])
            if lose:
                g.vtip = p[-1]
                ats = [g.make_atv(r.choice([x for x in g.ancestry(par) if x != "a0"]))] if r.chance(1, 2) else []
                extra = [g.mine_vbk() for _ in range(r.below(2))]
                tgt = g.build_from(par, [wq], ats, extra, plant=("atv", len(ats), r.choice(ATV_BAD_KINDS)))
            else:
                g.vtip = q[-1]                        # payloads of the target are mined on top of q
                plant = r.choice([("atv", 0, r.choice(ATV_BAD_KINDS)), ("ctx", 1), ("vtb", 0, r.choice(VTB_BAD_KINDS)),
                                  ("atv", 1, r.choice(ATV_BAD_KINDS))])
                tgt = g.build_block(par, n_atv=r.below(2), n_extra=3 if plant[0] == "ctx" else r.range(1, 2), plant=plant)
            H.show(tgt, order="inorder")
            H.on(r.choice(["set", "set", "cmp"]), tgt)
            H.on("sm")
            if r.chance(1, 2):
                H.on("set", r.choice([a, a1, a2]))
                H.on("sm")
                H.on("set", a2)
            sc.bump("c02_spfork_targets")
        H.on("react")
        H.on("sm")
        sc.add(g)
        sc.bump("c02_spfork_histories")
        sc.bump("c02_spfork_vtb_in_losing_fork" if lose else ("c02_spfork_tied" if d == 0 else "c02_spfork_untied"))


def gen_c02_btcfork(ctx, sc, n_hist):
    """BTC forks in C02 histories: two BTC forks p, q from a common block, delivered through the BTC context of two
    VTBs carried by two consecutive ALT blocks of the active chain (p first; q mostly EXACTLY as long as p, so p stays
    the BTC best chain). The target ALT block extends q through a VTB (the BTC best chain moves to q) and then fails:
    either in a later command group (planted ATV) or inside the VTB group itself, after its BTC blocks were added."""
    r = ctx.rng
    for _ in range(n_hist):
        cfg = small_cfg(r)
        g = SmGen(r.fork(), cfg)
        H = SmHistory(g)
        a = "a0"
        for _ in range(r.below(2)):
            a = g.build_block(a, n_atv=r.below(2), n_extra=r.below(2))
        base = g.best_known_btc(a)
        k = r.range(1, 3)
        d = r.choice([0, 0, 0, 0, 1, -1]) if k > 1 else r.choice([0, 0, 0, 1])
        tips = []
        par = a
        blocks = []
        for n in (k, k + d):
            b = base
            for _ in range(n):
                b = g.mine_btc(parent=b)
            pool = g.vtb_pool(g.alt[par]["kv"]) or [g.vtip]
            w = g.make_vtb(r.choice(pool), base, bparent=b)
            tips.append(g.vtb[w]["bop"])
            par = g.build_from(par, [w], [], ())
            blocks.append(par)
        a1, a2 = blocks
        qtip = tips[1]
        H.show(a2, order="inorder")
        H.on("set", a2)
        H.on("sm")
        for t in range(r.range(1, 3)):
            parent = r.choice([a2, a2, a1])
            last = qtip if parent == a2 else base
            if r.chance(1, 2):
                # an honest VTB extends q, a later ATV group fails
                bp = qtip
                for _ in range(r.below(2)):
                    bp = g.mine_btc(parent=bp)
                pool = g.vtb_pool(g.alt[parent]["kv"]) or [g.vtip]
                w = g.make_vtb(r.choice(pool), last, bparent=bp)
                ats = [g.make_atv(r.choice([x for x in g.ancestry(parent) if x != "a0"]))] if r.chance(1, 2) else []
                tgt = g.build_from(parent, [w], ats, (), plant=("atv", len(ats), r.choice(ATV_BAD_KINDS)))
            else:
                # the VTB group itself fails after its BTC context / block of proof were added on top of q
                bp = qtip
                for _ in range(r.below(2)):
                    bp = g.mine_btc(parent=bp)
                g.btc_hint = (bp, last)
                tgt = g.build_from(parent, [], [], (), plant=("vtb", 0, r.choice(["wunkn", "wexpired"])))
                g.btc_hint = None
            H.show(tgt, order="inorder")
            H.on(r.choice(["set", "set", "cmp"]), tgt)
            H.on("sm")
            if r.chance(1, 2):
                H.on("set", r.choice([a, a1, a2]))
                H.on("sm")
                H.on("set", a2)
            sc.bump("c02_btcfork_targets")
        H.on("react")
        H.on("sm")
        sc.add(g)
        sc.bump("c02_btcfork_histories")
        sc.bump("c02_btcfork_tied" if d == 0 else "c02_btcfork_untied")


def gen_c20(ctx, sc, n_hist, steps):
    r = ctx.rng
    for k in range(n_hist):
        g = SmGen(r.fork(), small_cfg(r))
        destructive = (k % 2 == 1)
        H = SmHistory(g, planted=35, destructive=destructive)
        H.early_pct = 12
        H.shared_pct = 8
        for i in range(steps):
            H.step()
            if r.chance(1, 8):
                H.on("react")
            if i % 6 == 5:
                H.on("sm")
        H.on("valid")
        H.on("react")
        H.on("sm")
        sc.add(g, modelled=not destructive)
        sc.bump("c20_histories")
        sc.bump("c20_holes", len(getattr(g, "hole", [])))
        sc.bump("c20_valid_only_by_later_sp_blocks", len(getattr(g, "early", [])))
        sc.bump("c20_planted_blocks", len(g.planted_blocks))


def sp_tie(g, tips):
    """the property's carve-out: among the VBK blocks delivered by the given ALT chains, are two longest SP forks
    tied (regtest: work = length, no VTBs in these histories, so no POP score) or do three or more SP forks compete?"""
    kv = set()
    for t in tips:
        if t in g.alt:
            kv |= set(g.alt[t]["kv"])
    has_child = {g.vbk[v]["parent"] for v in kv if g.vbk[v]["parent"] in kv}
    leaves = [v for v in kv if v not in has_child]
    hmax = max(g.vbk[v]["height"] for v in leaves)
    if len(leaves) >= 3 or sum(1 for v in leaves if g.vbk[v]["height"] == hmax) >= 2:
        return True
    # the same for the BTC blocks delivered through VTB contexts
    kb = set()
    for t in tips:
        if t in g.alt:
            kb |= set(g.alt[t]["kb"])
    bchild = {g.btc[b]["parent"] for b in kb if g.btc[b]["parent"] in kb}
    bl = [b for b in kb if b not in bchild]
    bmax = max(g.btc[b]["height"] for b in bl)
    return len(bl) >= 3 or sum(1 for b in bl if g.btc[b]["height"] == bmax) >= 2


def c01_twin_tail(g, sc, r, spf, cands=None, n_cmp=4, shown=None, order=False):
    """twin A B (fresh instance shown only A's active chain), then the comparisons that must agree; with spf the
    comparisons are guarded by the SP carve-out (evaluated later on the tips the harness reports)"""
    pre = "h%d" % len(sc.gens)

    def both(what, *words, guard=None):
        ia = len(g.lines) + 1
        g.emit("on A " + " ".join(words))
        g.emit("on B " + " ".join(words))
        sc.equal.append(("%s_c%d" % (pre, ia), "%s_c%d" % (pre, ia + 1), what))
        if spf:
            sc.guard["%s_c%d" % (pre, ia)] = (pre, guard)

    def tipline():
        g.emit("on A tip")
        return "%s_c%d" % (pre, len(g.lines))

    g.emit("twin A B", "ok")
    t0 = tipline()
    both("POP state after the history vs fresh instance shown only the active chain", "obs", "pop", guard=(t0, None))
    both("payouts", "payouttip", guard=(t0, None))
    if order:
        both("ORDERED VTB ids of every VBK block (order of re-execution on an SP reorg)", "vtborder", guard=(t0, None))
    # Candidates with a planted invalid payload in their ancestry are compared on every encounter. One instance may hold
    # a cached failure mark on the candidate (validated earlier in its history, or at connect time because the
    # candidate's parent was its tip) and answer 1, while the other holds it unvalidated and answers 0 from the keystone
    # short-cut: exactly that case is reported under CACHED_VERDICT_KEY (see cached_verdict_case), every other
    # difference is a violation.
    ids = sorted(g.alt, key=lambda a: int(a[1:]))
    for _ in range(n_cmp):
        c = r.choice(cands) if cands and not r.chance(1, 4) else r.choice(ids)
        if shown is not None and r.chance(1, 3):
            # the candidate may be INVALID: a fresh block with one planted invalid ATV whose invalidity depends only on
            # the candidate's own ancestry (endorsed block on a sibling fork that only A has seen / never shown to
            # anybody / expired / block of proof not connecting). Both instances must give the same verdict.
            g.fork_pool = set(shown)
            kind = r.choice(["fork", "fork", "unkn", "expired", "nobop"])
            c = g.build_block(c, n_atv=r.below(2), n_extra=r.below(2), plant=("atv", r.below(2), kind))
            g.fork_pool = ()
            sc.bump("c01_twin_invalid_candidates")
            sc.bump("c01_twin_invalid_candidate_" + g.bad.get(g.alt[c]["atvs"][-1] if g.alt[c]["atvs"] else None, "other"))
        invalid_by_construction = any(y in g.planted_blocks for y in g.ancestry(c))
        g.emit("show A %s" % c)
        g.emit("show B %s" % c)
        t1 = tipline()
        if invalid_by_construction:
            # validity marks of the candidate on both instances right before the call (information for the
            # classification of a 1-vs-0 verdict pair, not compared)
            g.emit("on A flags %s" % c)
            g.emit("on B flags %s" % c)
            va = "%s_c%d" % (pre, len(g.lines) + 1)
            sc.cached_ok.add(va)
            sc.flagids[va] = ("%s_c%d" % (pre, len(g.lines) - 1), "%s_c%d" % (pre, len(g.lines)))
        both("comparePopScore verdict against candidate " + c, "cmp", c, guard=(t1, c))
        t2 = tipline()
        both("POP state after comparing with " + c, "obs", "pop", guard=(t2, None))
        both("payouts", "payouttip", guard=(t2, None))
        if order:
            both("ORDERED VTB ids of every VBK block after comparing with " + c, "vtborder", guard=(t2, None))


def gen_c01_multivtb(ctx, sc, n_hist):
    """several VTBs contained in ONE VBK block but carried by different ALT forks: vA.. on fork a1, a BTC-dependent run
    v1, v2(, v3) on chain b1..bn (each one's block of proof is the child of the previous one's, empty BTC context).
    b is validated, abandoned for a1, compared against again (the loser is unapplied UNDER the still applied winner:
    non-LIFO removal of VTB ids from the shared VBK block), then a heavier VBK fork branching below that VBK block is
    delivered and abandoned (the VBK state machine un-/re-executes the block's VTBs in their stored order).
    Twin rounds compare the POP projection and the ORDERED VTB ids of every VBK block."""
    r = ctx.rng
    for _ in range(n_hist):
        cfg = small_cfg(r)
        cfg.pop("vbk_settle", None)
        g = SmGen(r.fork(), cfg)
        g.no_vtb = True
        H = SmHistory(g, planted=0, destructive=False)
        a = "a0"
        for _ in range(r.below(3)):
            a = g.build_block(a, n_atv=r.below(2), n_extra=r.below(2))
        base_b = g.best_known_btc(a)
        pool = g.vtb_pool(g.alt[a]["kv"]) or [g.vtip]
        na, nb = r.range(1, 2), r.range(2, 3)
        # The BTC blocks of proof form ONE chain (no BTC fork, hence no BTC tie): VTB i is mined on top of VTB i-1's
        # block of proof. A's VTBs and B's first one start their BTC context after the block the common ancestry knows
        # (they bring all the blocks in between themselves); every later B VTB starts after the previous B VTB's block
        # of proof, i.e. it connects only through that block.
        owner = ["A"] * na + ["B"] * nb
        if r.chance(1, 2):
            r.shuffle(owner)
        fixed, prevb = [], None
        for i, o in enumerate(owner):
            bp = base_b if i == 0 else "prev"
            if o == "A" or prevb is None:
                fixed.append((r.choice(pool), bp, base_b))
            else:
                fixed.append((r.choice(pool), bp, "#%d" % prevb))
            if o == "B":
                prevb = i
        ws = g.make_mvtb(fixed)
        c = g.vtb[ws[0]]["containing"]
        wa = [w for w, o in zip(ws, owner) if o == "A"]
        wb = [w for w, o in zip(ws, owner) if o == "B"]
        a1 = g.build_from(a, wa, [], ())
        # chain b: the dependent VTBs in order, spread over the blocks; ATVs give it a POP score
        nblocks = r.range(3, 5)
        at = sorted(r.below(nblocks) for _ in wb)
        b, bs = a, []
        for i in range(nblocks):
            mine = [w for w, j in zip(wb, at) if j == i]
            ats = []
            if i > 0:
                anc = [x for x in g.ancestry(b) if x != "a0" and g.alt[b]["height"] + 1 - g.alt[x]["height"] <= g.settle()]
                ats = [g.make_atv(r.choice(anc)) for _ in range(r.range(0, 2))] if anc else []
            b = g.build_from(b, mine, ats, ())
            bs.append(b)
        bl = bs[-1]
        key = [a, a1] + bs
        H.show(a1, order="inorder")
        H.show(bl, order=r.choice(["inorder", "random"]))
        first = r.choice([a1, bl])
        H.on("set", first)
        H.on("set", bl)
        H.on("set", a1)
        H.on("cmp", bl)
        H.on("vtborder")
        for _ in range(r.below(3)):
            H.on(r.choice(["set", "cmp"]), r.choice(key))
        c01_twin_tail(g, sc, r, True, cands=key, n_cmp=1, shown=H.hdr, order=True)
        # a heavier VBK fork branching below the shared VBK block, delivered by a child of the current chain
        f = g.vpar(c)
        need = g.vbk[g.vtip]["height"] - g.vbk[f]["height"] + r.range(1, 2)
        fork = []
        for _ in range(need):
            f = g.mine_vbk(parent=f)
            fork.append(f)
        b6 = g.new_alt(bl)
        g.set_pd(b6, ctx=fork)
        a2 = g.new_alt(a1)
        g.set_pd(a2, ctx=fork)
        key += [b6, a2]
        H.show(b6, order="inorder")
        H.show(a2, order="inorder")
        H.on("set", bl)
        H.on("set", b6)
        H.on("vtborder")
        H.on("set", bl)
        H.on("vtborder")
        for rnd in range(2):
            for _ in range(r.below(3)):
                H.on(r.choice(["set", "cmp"]), r.choice(key))
            c01_twin_tail(g, sc, r, True, cands=key, n_cmp=2, shown=H.hdr, order=True)
        sc.add(g, modelled=False)
        sc.bump("c01_histories")
        sc.bump("c01_multi_vtb_one_vbk_block_histories")


def gen_c01_vtbfork(ctx, sc, n_hist, steps):
    """two competing VBK forks of DIFFERENT length whose winner is decided by one VTB: fork B is longer (wins on
    work), fork A is shorter but one of its non-leaf blocks contains a VTB endorsing a VBK keystone, published in BTC,
    so A wins POP fork resolution whenever that VTB is applied. ALT block x1 delivers both forks, its child x2 the VTB
    (or fork A and the VTB together); x2 and its relatives are activated, abandoned and re-activated between random
    steps. No tie, two forks: the VBK best chain is a function of the ALT active chain alone, so the twin comparison
    of the POP projection (incl. `VBK best`) applies in full (the carve-out detection stays on)."""
    r = ctx.rng
    for _ in range(n_hist):
        cfg = small_cfg(r)
        cfg.pop("vbk_settle", None)
        ki = r.choice([2, 2, 3, 3, 4])
        cfg["vbk_ki"] = ki
        if r.chance(1, 2):
            cfg["vbk_fd"] = r.range(2, 6)
        g = SmGen(r.fork(), cfg)
        g.no_vtb = True
        destructive = r.chance(1, 2)
        H = SmHistory(g, planted=0, destructive=destructive)
        a = "a0"
        for _ in range(r.below(3)):
            a = g.build_block(a, n_atv=r.below(2), n_extra=r.below(3))
        F = max(g.alt[a]["kv"], key=lambda v: (g.vbk[v]["height"], -int(v[1:])))
        hF = g.vbk[F]["height"]
        n = r.range(ki + 2, ki + 4)
        # endorsed block: a keystone of A AFTER the fork point (only those count); containing block: later, mostly not
        # the leaf of A
        ks = [i for i in range(1, n - 1) if (hF + i) % ki == 0]
        ei = r.choice(ks)
        cj = r.range(ei + 1, n - 1) if not r.chance(1, 6) else n
        A = []
        v = F
        for i in range(1, n + 1):
            if i == cj:
                w = g.make_vtb(A[ei - 1], g.last_btc(a, []), vparent=v)
                v = g.vtb[w]["containing"]
            else:
                v = g.mine_vbk(parent=v)
            A.append(v)
        B = []
        v = F
        for i in range(n + r.range(1, 3)):
            v = g.mine_vbk(parent=v)
            B.append(v)
        if r.chance(1, 2):
            order = A + B
        else:
            order = sorted(A + B, key=lambda x: (g.vbk[x]["height"], int(x[1:])))
        x1 = g.new_alt(a)
        x2 = g.new_alt(x1)
        if r.chance(2, 3):
            g.set_pd(x1, ctx=order)
            g.set_pd(x2, vtbs=[w], ctx=[])
        else:
            g.set_pd(x1, ctx=B)
            g.set_pd(x2, vtbs=[w], ctx=A)
        g.vtip = B[-1]        # later VBK blocks (ATVs, context) extend the longer fork: lengths never tie
        y2 = g.build_block(x1, n_atv=r.below(2), n_extra=r.below(2))
        # descendants of the VTB-carrying block deliver more VBK blocks (fork resolution runs again on top of the VTB)
        x3 = g.build_block(x2, n_atv=r.below(2), n_extra=r.below(3))
        x4 = g.build_block(x3, n_atv=r.below(2), n_extra=r.below(2))
        key = [a, x1, x2, y2, x3, x4]
        H.show(x4, order=r.choice(["inorder", "random"]))
        H.show(y2)
        H.on("set", r.choice([x2, x3, x4]))
        for i in range(steps):
            k = r.below(10)
            if k < 5:
                H.on(r.choice(["set", "set", "cmp"]), r.choice(key))
            else:
                H.step()
        # several twin rounds: the history instance re-applies the VTB-carrying block, the fresh twin sees it first
        # through show + comparePopScore (and the other way round)
        # The route to the final chain varies: in one jump from far below (x1 and x2 applied inside ONE deferred fork
        # resolution scope), from the sibling, or block by block - the twin always connects block by block.
        for rnd in range(3):
            route = r.below(3)
            tgt = r.choice(key)
            if route == 0:
                H.on("set", r.choice(["a0", a]))
                tgt = r.choice([x2, x3, x4, y2])
            elif route == 1:
                H.on("set", r.choice([y2, x1]))
            H.on(r.choice(["set", "set", "cmp"]), tgt)
            c01_twin_tail(g, sc, r, True, cands=key, n_cmp=2, shown=H.hdr)
            sc.bump("c01_twin_rounds_vtb_fork")
        sc.add(g, modelled=False)
        sc.bump("c01_histories")
        sc.bump("c01_vtb_decided_fork_histories")


def gen_c01(ctx, sc, n_hist, steps, sp_forks=0):
    """sp_forks: one history out of `sp_forks` (0 = none) has two competing VBK forks (ATVs only); the comparisons of
    such a history are guarded by the carve-out of the property text (sc.guard, evaluated on the tips reported by A)"""
    r = ctx.rng
    for k in range(n_hist):
        g = SmGen(r.fork(), small_cfg(r))
        destructive = (k % 3 != 2)
        spf = bool(sp_forks) and k % sp_forks == sp_forks - 1
        H = SmHistory(g, planted=0, destructive=destructive)
        fork_tips = None
        if spf:
            g.no_vtb = True
        early_at = r.below(steps) if (not spf and k % 4 == 1) else -1
        if not spf and k % 4 == 3:
            H.shared_pct = 10
        for i in range(steps):
            if spf and fork_tips is None and i >= steps // 4 and g.vbk[g.vtip]["height"] >= 3:
                # start a second VBK fork a few blocks behind the tip
                fp = g.vtip
                for _ in range(r.range(1, 3)):
                    fp = g.vbk[fp]["parent"] or fp
                first = g.vtip
                g.vtip = fp
                second = g.mine_vbk(parent=fp)
                g.vtip = second
                fork_tips = [first, second]
                cur = 1
                sc.bump("c01_sp_fork_histories")
            if fork_tips is not None:
                fork_tips[cur] = g.vtip
                cur = r.below(2)
                g.vtip = fork_tips[cur]
            if early_at == i:
                # VTBs out of temporal order + a VBK reorg below the later one, in A's history only
                H.early_scenario()
                sc.bump("c01_valid_only_by_later_sp_blocks")
            H.step()
            if not destructive and not spf and i % 8 == 7:
                H.on("sm")
        if fork_tips is not None:
            fork_tips[cur] = g.vtip
        c01_twin_tail(g, sc, r, spf, shown=H.hdr)
        sc.add(g, modelled=False)
        sc.bump("c01_histories")


def gen_corr_honest(ctx, sc, n_hist, steps):
    """honest, non-destructive histories compared step by step with the model"""
    r = ctx.rng
    for k in range(n_hist):
        g = SmGen(r.fork(), small_cfg(r))
        H = SmHistory(g, planted=0, destructive=False)
        for i in range(steps):
            H.step()
            if i % 3 == 2:
                H.on("sm")
        H.on("sm")
        sc.add(g)
        sc.bump("honest_modelled_histories")


# ---------------------------------------------------------------------------------------------
# the check
# ---------------------------------------------------------------------------------------------
def _reid(lines, tag):
    return ["%s%s" % (tag, l) for l in lines]


def load_corpus(pid):
    import json
    d = os.path.join(vlib.VERIF, "corpus", pid)
    out = []
    if os.path.isdir(d):
        for f in sorted(os.listdir(d)):
            if f.endswith(".json"):
                try:
                    out.append((f, json.load(open(os.path.join(d, f)))))
                except Exception:
                    pass
    return out


def run_model(model, mlines, work, tag):
    p = os.path.join(work, "model-%s.txt" % tag)
    with open(p, "w") as f:
        f.write("\n".join(mlines) + "\n")
    rc, res, _, err = vlib.run_lines([model], p, timeout=1500)
    return rc, res, err


def model_lines_of(mlines, pre):
    return [l for l in mlines if l.split()[0].rsplit("_", 1)[0] == pre]


def run_check(ctx, pid):
    import time
    quick = ctx.tier == "quick"
    ctx.prove()
    okh, hs, hlog = vlib.build_harness(["h_sm"])
    if not okh:
        ctx.broken.append("harness-build: " + hlog[-400:])
        return
    have_model = os.path.exists(os.path.join(vlib.VERIF, "coq", "Extract_Pop.v"))
    model = None
    if have_model:
        okm, model, mlog = vlib.build_model("Pop")
        if not okm:
            ctx.broken.append("model-build: " + mlog[-400:])
            model = None
    hbin = hs["h_sm"]
    sc = Script()
    t0 = time.time()
    if ctx.replay and "script" in ctx.replay:
        sc.lines = list(ctx.replay["script"])
        sc.equal = [tuple(e) for e in ctx.replay.get("equal", [])]
        sc.cached_ok = set(ctx.replay.get("cached_ok", []))
        sc.flagids = {a: tuple(v) for a, v in ctx.replay.get("flagids", {}).items()}
        replay_model = ctx.replay.get("model")
    else:
        replay_model = None
        # corpus first
        for j, (name, obj) in enumerate(load_corpus(pid)):
            if "script" in obj:
                tag = "k%d" % j
                sc.lines += _reid(obj["script"], tag)
                sc.equal += [(tag + a, tag + b, w) for a, b, w in obj.get("equal", [])]
                sc.cached_ok |= {tag + a for a in obj.get("cached_ok", [])}
                sc.flagids.update({tag + a: (tag + x, tag + y) for a, (x, y) in obj.get("flagids", {}).items()})
                sc.bump("corpus")
        if pid == "C02":
            if quick:
                gen_c02(ctx, sc, 25, 4, 4, 12)
                gen_c02_spfork(ctx, sc, 15)
                gen_c02_btcfork(ctx, sc, 10)
            else:
                gen_c02(ctx, sc, 500, 12, 6, 300)
                gen_c02_spfork(ctx, sc, 300)
                gen_c02_btcfork(ctx, sc, 200)
        elif pid == "C20":
            if quick:
                gen_c20(ctx, sc, 36, 30)
            else:
                gen_c20(ctx, sc, 600, 50)
        elif pid == "C01":
            if quick:
                gen_c01(ctx, sc, 60, 36)
                gen_c01_vtbfork(ctx, sc, 24, 12)
                gen_c01_multivtb(ctx, sc, 16)
                gen_corr_honest(ctx, sc, 20, 30)
            else:
                gen_c01(ctx, sc, 1500, 60, sp_forks=5)
                gen_c01_vtbfork(ctx, sc, 300, 30)
                gen_c01_multivtb(ctx, sc, 200)
                gen_corr_honest(ctx, sc, 300, 50)
    tgen = time.time() - t0
    lines = sc.lines
    results, oracle, crashes = run_script(hbin, lines, ctx.work, tag=pid, timeout=1200 if quick else 3 * 3600)
    trun = time.time() - t0 - tgen

    # generator self-check: the registry must have answered as predicted (ids line up)
    for pre, g in sc.gens.items():
        for i, e in enumerate(g.expect):
            if e is None:
                continue
            got = results.get("%s_c%d" % (pre, i + 1))
            if got is not None and got != e:
                ctx.broken.append("generator: %s line %d `%s` expected %s got %s" % (pre, i + 1, g.lines[i], e, got))
                break
        if ctx.broken:
            break

    # Violations are collected by kind and emitted with preference for diversity (the driver keeps five): at most two
    # library aborts, and a slot each for the first snapshot-oracle, model-disagreement, trace-oracle, re-activation and
    # twin failure, so that a replay shows the most specific evidence available.
    pending = {"abort": [], "snapshot": [], "btctie": [], "cachedverdict": [], "model": [], "trace": [], "react": [], "equal": []}
    nviol = 0
    # 1. crashes (assertion failures / aborts inside the library)
    for hist, line, err in crashes:
        nviol += 1
        pending["abort"].append(({"kind": "ops", "script": hist, "crash_at": line, "stderr": err,
                                  "what": "the library aborted (assertion / crash) while executing this call"}, False))
    # 2. direct oracles evaluated by the harness
    seen = set()
    seen_cat = set()
    for cid, text in oracle:
        pre = cid.rsplit("_", 1)[0]
        cat = "trace" if text.startswith("C20 trace") else ("react" if text.startswith("C20") else "snapshot")
        key = None
        if cat == "snapshot" and BTC_TIE_RE.search(text):
            # the ONLY before/after difference of the call is the BTC best chain tip: reported under a stable key
            cat, key = "btctie", BTC_TIE_KEY
        seen.add(pre)
        if (pre, cat) in seen_cat:
            continue
        seen_cat.add((pre, cat))
        nviol += 1
        obj = {"kind": "ops", "script": history_of(lines, cid), "at": cid, "oracle": text,
               "what": "direct oracle failed on the implementation (%s)" % cat}
        if key:
            obj["key"] = key
        pending[cat].append((obj, False))
    # 3. answers that must be equal (C01: instance with a history vs fresh twin)
    neq = 0
    carved = set()
    ncarved = 0
    for a, b, what in sc.equal:
        ra, rb = results.get(a), results.get(b)
        if ra is None or rb is None:
            continue
        gd = sc.guard.get(a)
        if gd is not None:
            gpre, (tid, cand) = gd
            gg = sc.gens.get(gpre)
            tipid = results.get(tid)
            if gpre in carved or gg is None or tipid not in gg.alt or \
                    sp_tie(gg, [tipid]) or (cand is not None and (sp_tie(gg, [cand]) or sp_tie(gg, [tipid, cand]))):
                carved.add(gpre)
                ncarved += 1
                continue
        neq += 1
        if ra != rb and a in sc.cached_ok and what.startswith("comparePopScore verdict") and \
                cached_verdict_case(ra, rb, *[results.get(x) for x in sc.flagids.get(a, (None, None))]):
            if not pending["cachedverdict"]:
                pre = a.rsplit("_", 1)[0]
                pending["cachedverdict"].append(({"kind": "ops", "script": history_of(lines, a), "at": [a, b], "A": ra, "B": rb,
                                                  "equal": [[x, y, w] for x, y, w in sc.equal if x.rsplit("_", 1)[0] == pre],
                                                  "cached_ok": sorted(x for x in sc.cached_ok if x.rsplit("_", 1)[0] == pre),
                                                  "flagids": {x: list(v) for x, v in sc.flagids.items() if x.rsplit("_", 1)[0] == pre},
                                                  "flags": [results.get(x) for x in sc.flagids.get(a, ())],
                                                  "key": CACHED_VERDICT_KEY,
                                                  "what": "verdict 1 (cached FAILED_POP) vs 0 (keystone short-cut, not validated) "
                                                          "against an invalid candidate: " + what}, False))
            continue
        if ra != rb:
            pre = a.rsplit("_", 1)[0]
            if (pre, "equal") in seen_cat:
                continue
            seen_cat.add((pre, "equal"))
            seen.add(pre)
            hist = history_of(lines, a)
            nviol += 1
            if len(pending["equal"]) >= 3:
                continue
            # replace digests by dumps for the report
            det = [l.replace(" obs pop", " dump pop") for l in hist]
            dres, _, _ = run_script(hbin, det, ctx.work, tag=pid + "-det", timeout=600)
            pending["equal"].append(({"kind": "ops", "script": hist,
                                      "equal": [[x, y, w] for x, y, w in sc.equal if x.rsplit("_", 1)[0] == pre],
                                      "cached_ok": sorted(x for x in sc.cached_ok if x.rsplit("_", 1)[0] == pre),
                                      "flagids": {x: list(v) for x, v in sc.flagids.items() if x.rsplit("_", 1)[0] == pre},
                                      "at": [a, b], "A": dres.get(a, ra)[:3000], "B": dres.get(b, rb)[:3000],
                                      "what": "instances with the same active chain differ: " + what}, False))
    # 4. correspondence with the model
    ncmp = nagree = 0
    react_cov = {"sweeps_compared": 0, "sweeps_agree": 0, "setstate_attempts_compared": 0}
    dis = []
    if model is not None:
        if replay_model is not None:
            mlines = list(replay_model)
            cmp_ids = [l.split()[0] for l in mlines if "_x" not in l.split()[0]]
        else:
            mod_lines = [l for l in lines if l.split()[0].rsplit("_", 1)[0] in sc.modelled]
            mlines, cmp_ids = model_script(mod_lines, results, sc.gens)
        if mlines:
            rc, mres, merr = run_model(model, mlines, ctx.work, pid)
            if rc != 0:
                ctx.broken.append("model-run: rc=%d %s" % (rc, merr[-300:]))
            byid = {l.split()[0]: l for l in lines}

            def want_of(cid, res):
                w = norm_impl(byid[cid], res)
                if byid[cid].split()[3] == "sm" and alt_only(sc.gens.get(cid.rsplit("_", 1)[0])):
                    w = alt_part(w)
                return w
            for cid in cmp_ids:
                if cid not in results or cid not in byid:
                    continue
                ncmp += 1
                want = want_of(cid, results[cid])
                got = mres.get(cid)
                if byid[cid].split()[3] == "react":
                    react_cov["sweeps_compared"] += 1
                    if got == want:
                        react_cov["sweeps_agree"] += 1
                        react_cov["setstate_attempts_compared"] += int(want.split("n=")[1].split()[0]) if "n=" in want else 0
                if got == want:
                    nagree += 1
                else:
                    dis.append((cid, got, want))
            bad_pre = []
            for cid, got, want in dis:
                pre = cid.rsplit("_", 1)[0]
                if pre in bad_pre:
                    continue
                bad_pre.append(pre)
                hist = history_of(lines, cid)
                ml = model_lines_of(mlines, pre)
                # re-run once to exclude flakiness
                r2, _, c2 = run_script(hbin, hist, ctx.work, tag=pid + "-re", timeout=600)
                if not c2 and want_of(cid, r2.get(cid, "")) == got:
                    continue
                if pre not in seen:     # otherwise a concrete failing input of the same history is reported as well
                    ctx.broken.append("corr:Pop.SmDefs.%s: first disagreeing call %s of history %s: model `%s` implementation `%s`"
                                      % (byid[cid].split()[3], cid, pre, (got or "")[:200], (want or "")[:200]))
                pending["model"].append(({"kind": "ops", "script": hist, "model": ml, "at": cid, "model_answer": got,
                                          "impl_answer": want,
                                          "what": "model (Pop/SmDefs.v) and implementation disagree; the direct oracles "
                                                  "found no failing input in this history"}, True))
                if len(bad_pre) >= 3:
                    break
    elif have_model is False:
        ctx.cov["trusted_base"].append("model correspondence not run: coq/Extract_Pop.v missing")

    # emit: the first of every specific kind, then at most two aborts, then whatever is left
    order = []
    for cat in ("snapshot", "model", "trace", "react", "equal", "btctie"):
        if pending[cat]:
            order.append(pending[cat].pop(0))
    order += pending["abort"][:2]
    for cat in ("snapshot", "trace", "react", "equal", "model"):
        order += pending[cat]
    order += pending["btctie"][:1]
    order += pending["cachedverdict"][:1]
    # a model disagreement counts as "no failing input found" only when nothing concrete is reported
    concrete = any(not ni for _, ni in order)
    for obj, ni in order:
        ctx.violation(obj, key=obj.get("key"), no_input=(ni and not concrete))

    # coverage
    ops = {}
    for l in lines:
        t = l.split()
        key = t[1] if t[1] != "on" else "on-" + t[3]
        ops[key] = ops.get(key, 0) + 1
    answers = {}
    for l in lines:
        t = l.split()
        if t[1] == "on" and t[3] in ("set", "cmp"):
            a = results.get(t[0], "?").split()[0]
            answers[t[3] + ":" + a] = answers.get(t[3] + ":" + a, 0) + 1
    nh = len(split_histories(lines))
    ctx.cov["evaluations"] = nh
    ctx.cov["distinct_nontrivial"] = len({tuple(" ".join(l.split()[1:]) for l in lines[s:e]) for s, e in split_histories(lines)}) if nh < 5000 else nh
    ctx.cov["rule"] = ("one evaluation = one history (script from `begin` to the next `begin`) run on the real library; "
                       "distinct = distinct op lists; every setState/comparePopScore call inside is checked by the C02 oracle")
    ctx.cov["disagreements_checked"] = ncmp
    ctx.cov["traces_validated_against_impl"] = nagree
    ctx.cov["distribution"] = {"histories": nh, "script_lines": len(lines), "op_histogram": ops, "answers": answers,
                               "generator": sc.stats, "equal_pairs_checked": neq, "equal_pairs_skipped_sp_carve_out": ncarved, "oracle_failures": len(oracle),
                               "crashes": len(crashes), "model_disagreements": len(dis),
                               "gen_s": round(tgen, 1), "harness_s": round(trun, 1)}
    ctx.cov["distribution"]["c20_react_model_vs_impl"] = react_cov
    ctx.cov["partial_theorems"] = [t for t in ctx.cov.get("theorems", []) if t.endswith("_partial")]
    for l in lines[:2] + lines[-2:]:
        ctx.sample({"line": l, "impl": (results.get(l.split()[0]) or "")[:200]})
    ctx.cov["trusted_base"] = ctx.cov.get("trusted_base", []) + [
        "score oracle of the model's comparePopScore = sign of the implementation's answer (scoring is property C03)",
        "props/_sm.py translation of PopData into command groups; harness/h_sm.cpp snapshot/allowance code",
    ]
