"""Shared machinery of the C11 / C06 plugins: value generators aimed at the
length-prefix boundaries, a small independent Python encoder (used to build
hostile / non-canonical variants of valid encodings: every length and count
field can be overridden), the case runner (model driver vs C++ harness) and the
crash bisection for the sanitizer runs."""
import hashlib
import os
import re
import vlib

# --------------------------------------------------------------------------
# constants: read back from the generated Coq file (same source as the proofs)
# --------------------------------------------------------------------------
def consts():
    p = os.path.join(vlib.COQ, "Gen", "Consts.v")
    res = {}
    if os.path.exists(p):
        for m in re.finditer(r"Definition (\w+) : Z := \(?(-?\d+)\)?\.", open(p).read()):
            res[m.group(1)] = int(m.group(2))
    return res


B58 = "123456789ABCDEFGHJKLMNPQRSTUVWXYZabcdefghijkmnopqrstuvwxyz"
B59 = B58 + "0"


def b_enc(b, alphabet):
    n = int.from_bytes(b, "big")
    s = ""
    base = len(alphabet)
    while n:
        n, r = divmod(n, base)
        s = alphabet[r] + s
    z = len(b) - len(b.lstrip(b"\0"))
    return alphabet[0] * z + s


def b_dec(s, alphabet):
    n = 0
    base = len(alphabet)
    for c in s:
        n = n * base + alphabet.index(c)
    z = len(s) - len(s.lstrip(alphabet[0]))
    return b"\0" * z + (n.to_bytes((n.bit_length() + 7) // 8, "big") if n else b"")


def address_from_pubkey(pk):
    data = "V" + b_enc(hashlib.sha256(pk).digest(), B58)[:24]
    cs = b_enc(hashlib.sha256(data.encode()).digest(), B58)[:5]
    return (1, b_dec(data + cs, B58))


def standard_address_as_type3_wire(addr):
    """wire bytes `03 len base59(text)` of a STANDARD address: accepted by the C++ (the type is derived from the text)"""
    text = b_enc(addr[1], B58)
    b = b_dec(text, B59)
    return bytes([3, len(b)]) + b


def multisig_address(r):
    n = r.range(2, 58)
    m = r.range(1, n)
    data = "V" + B58[m - 1] + B58[n - 1] + "".join(B58[r.below(58)] for _ in range(22))
    cs = b_enc(hashlib.sha256(data.encode()).digest(), B58)[:4]
    return (3, b_dec(data + cs + "0", B59))


# --------------------------------------------------------------------------
# value text (shared with the OCaml driver and the C++ harness)
# --------------------------------------------------------------------------
def hz(v):
    return ("-%x" % -v) if v < 0 else ("%x" % v)


def hb(b):
    return b.hex() if len(b) else "-"


class Rec(tuple):
    pass


def show(v):
    if isinstance(v, Rec):
        return "{" + ",".join(show(x) for x in v) + "}"
    if isinstance(v, list):
        return "[" + ";".join(show(x) for x in v) + "]"
    if isinstance(v, (bytes, bytearray)):
        return hb(bytes(v))
    if v is None:
        return "~"
    return hz(v)


# --------------------------------------------------------------------------
# generators
# --------------------------------------------------------------------------
LEN_BOUNDS = [0, 1, 2, 127, 128, 255, 256, 257, 65535, 65536]
I64 = [0, 1, -1, 127, 128, 255, 256, 32767, 32768, 65535, 65536, (1 << 24) - 1, 1 << 24, (1 << 31) - 1, 1 << 31,
       (1 << 32) - 1, 1 << 32, (1 << 40), (1 << 48) - 1, (1 << 56) - 1, 1 << 56, (1 << 63) - 1, -(1 << 63),
       -(1 << 31), -(1 << 31) - 1, -256, -255, -128]
I32 = [0, 1, -1, 127, 128, 255, 256, 65535, 65536, (1 << 24), (1 << 31) - 1, -(1 << 31), -2, 0x7fffff, 0x800000]


class Gen:
    def __init__(self, rng, big=False, over=False):
        self.r = rng
        self.big = big
        self.over = over      # hostile generator: sometimes one byte / one element MORE than the declared limit
        self.c = consts()
        self.hits = {}

    def hit(self, k):
        self.hits[k] = self.hits.get(k, 0) + 1

    def blen(self, mx, small=24):
        r = self.r
        if self.over and mx <= 20000 and r.chance(1, 4):
            self.hit("len=max+1")
            return mx + 1
        if r.chance(1, 3):
            c = [b for b in LEN_BOUNDS + [mx - 1, mx] if 0 <= b <= mx]
            n = r.choice(c)
            self.hit("len=%d" % n if n in (0, 1, 255, 256, 65535, 65536) else ("len=max" if n == mx else "len=other"))
            return n
        return r.below(min(mx, small) + 1)

    def bytes_(self, n):
        return self.r.bytes(n)

    def i64(self):
        r = self.r
        if r.chance(1, 2):
            v = r.choice(I64)
            self.hit("i64=" + ("neg" if v < 0 else "zero" if v == 0 else "max" if v == (1 << 63) - 1 else "bound"))
            return v
        v = r.bits(r.range(1, 63))
        return -v if r.chance(1, 4) else v

    def i32(self):
        r = self.r
        if r.chance(1, 2):
            return r.choice(I32)
        v = r.bits(r.range(1, 31))
        return -v if r.chance(1, 4) else v

    def u32(self):
        r = self.r
        return r.choice([0, 1, 0xff, 0x100, 0xffff, 0x7fffffff, 0x80000000, 0xffffffff]) if r.chance(1, 3) else r.bits(32)

    def address(self):
        r = self.r
        if r.chance(1, 6):
            self.hit("addr=multisig")
            return Rec(multisig_address(r))
        return Rec(address_from_pubkey(r.bytes(r.range(0, 40))))

    def coin(self):
        return self.i64()

    def output(self):
        return Rec((self.address(), self.coin()))

    def btctx(self):
        mx = 70000  # covers the 65535/65536 prefix boundary; the extracted model recurses once per byte
        return self.bytes_(self.blen(mx, 200))

    def btcblock(self):
        return Rec((self.i32(), self.bytes_(32), self.bytes_(32), self.u32(), self.u32(), self.u32()))

    def vbkblock(self, low=False):
        r = self.r
        h = r.below(8000) if low else self.i32()
        nonce = r.choice([0, 1, (1 << 40) - 1, 1 << 39, 0xffffffff, 1 << 32]) if r.chance(1, 3) else r.bits(40)
        ver = r.choice([0, 1, 2, -1, 32767, -32768]) if r.chance(1, 2) else r.bits(15)
        return Rec((h, ver, self.bytes_(12), self.bytes_(9), self.bytes_(9), self.bytes_(16), self.u32(), self.i32(), nonce))

    def altblock(self):
        r = self.r
        a = self.c["ALT_HASH_SIZE"]
        hl = a + 1 if self.over and r.chance(1, 4) else a
        return Rec((self.bytes_(hl), self.bytes_(r.choice([0, 1, a - 1, a]) if r.chance(1, 2) else r.below(a + 1)), self.i32(), self.u32()))

    def keystones(self):
        return Rec((self.bytes_(self.blen(255, 40)), self.bytes_(self.blen(255, 40))))

    def ctxinfo(self):
        return Rec((self.i32(), self.keystones()))

    def authctx(self):
        return Rec((self.ctxinfo(), self.bytes_(32)))

    def ids(self, n, small=4):
        r = self.r
        k = r.choice([0, 1, 2, 255, 256]) if r.chance(1, 6) else r.below(small)
        return [self.bytes_(n + 1 if self.over and r.chance(1, 30) else n) for _ in range(k)]

    def vbkendorsement(self):
        return Rec((self.bytes_(32), self.bytes_(24), self.bytes_(24), self.bytes_(32)))

    def altendorsement(self):
        return Rec((self.bytes_(32), self.bytes_(self.blen(255, 40)), self.bytes_(self.blen(255, 40)), self.bytes_(24)))

    def popstate(self, f):
        r = self.r
        es = [f() for _ in range(r.below(4))]
        if es and r.chance(1, 4):
            es.append(Rec((es[0][0],) + tuple(f())[1:]))   # duplicate id
        return es

    def storedbtc(self):
        r = self.r
        nrefs = r.choice([0, 1, 255, 256]) if r.chance(1, 5) else r.below(5)
        return Rec((self.i32(), self.btcblock(), self.u32(), Rec((self.ids(32), [self.i32() for _ in range(nrefs)]))))

    def storedvbk(self):
        return Rec((self.i32(), self.vbkblock(), self.u32(),
                    Rec((self.ids(32), self.ids(32), self.u32(), self.ids(32), self.popstate(self.vbkendorsement)))))

    def storedalt(self):
        return Rec((self.i32(), self.altblock(), self.u32(),
                    Rec((self.ids(32), self.ids(32), self.ids(32), self.ids(12), self.popstate(self.altendorsement)))))

    def layers(self):
        r = self.r
        n = r.choice([0, 1, 2, 39, 40]) if r.chance(1, 3) else r.below(6)
        if self.over and r.chance(1, 4):
            n = 41
        self.hit("layers=%d" % n if n in (0, 40) else "layers=other")
        return [self.bytes_(32) for _ in range(n)]

    def merklepath(self):
        return Rec((self.i32(), self.layers()))

    def vbkmerklepath(self):
        return Rec((self.i32(), self.i32(), self.bytes_(32), self.layers()))

    def pubdata(self, nested=False):
        c = self.c
        h = self.blen(c["MAX_HEADER_SIZE_PUBLICATION_DATA"], 90)
        ci = self.blen(c["MAX_CONTEXT_SIZE_PUBLICATION_DATA"], 60)
        po = self.blen(c["MAX_PAYOUT_INFO_SIZE"], 40)
        if nested and not self.over and 9 + 3 * 3 + h + ci + po > c["MAX_PUBLICATIONDATA_SIZE"]:
            # the canonical encoding must fit the var-len wrapper of VbkTx (MAX_PUBLICATIONDATA_SIZE)
            po = max(0, c["MAX_PUBLICATIONDATA_SIZE"] - (9 + 9 + h + ci))
            self.hit("pubdata=at-nested-limit")
        return Rec((self.i64(), self.bytes_(h), self.bytes_(ci), self.bytes_(po)))

    def nbp(self, ty):
        r = self.r
        if r.chance(1, 3):
            return Rec((None, ty))
        n = r.choice([x for x in (0, 0xbb, 0xff, 3, 2, 1) if x != ty]) if r.chance(1, 2) else r.choice([x for x in range(256) if x != ty])
        return Rec((n, r.choice([ty, 0, 0xff, r.below(256)])))

    def vbktx(self):
        r = self.r
        n = r.choice([0, 1, 2, 254, 255]) if r.chance(1, 4) else r.below(4)
        if self.over and r.chance(1, 8):
            n = 256
        self.hit("outputs=%d" % n if n in (0, 255) else "outputs=other")
        return Rec((self.nbp(self.c["TX_TYPE_VBK_TX"]), self.address(), self.coin(), [self.output() for _ in range(n)],
                    self.i64(), self.pubdata(nested=True),
                    self.bytes_(self.blen(self.c["MAX_SIGNATURE_SIZE"])), self.bytes_(self.blen(self.c["MAX_PUBLIC_KEY_SIZE"]))))

    def vbkpoptx(self):
        r = self.r
        n = r.choice([0, 1, 2, 255, 256]) if r.chance(1, 5) else r.below(4)
        self.hit("btccontext=%d" % n if n in (0, 255, 256) else "btccontext=other")
        return Rec((self.nbp(self.c["TX_TYPE_VBK_POP_TX"]), self.address(), self.vbkblock(), self.btctx(), self.merklepath(),
                    self.btcblock(), [self.btcblock() for _ in range(n)],
                    self.bytes_(self.blen(self.c["MAX_SIGNATURE_SIZE"])), self.bytes_(self.blen(self.c["MAX_PUBLIC_KEY_SIZE"]))))

    def atv(self):
        return Rec((1, self.vbktx(), self.vbkmerklepath(), self.vbkblock(low=True)))

    def vtb(self):
        return Rec((1, self.vbkpoptx(), self.vbkmerklepath(), self.vbkblock(low=True)))

    def popdata(self):
        r = self.r
        k = 3 if not self.big else 12
        return Rec((1, [self.vbkblock(low=True) for _ in range(r.below(k))], [self.vtb() for _ in range(r.below(k))],
                    [self.atv() for _ in range(r.below(k))]))

    def value(self, t):
        return getattr(self, t)()


NO_ENC = ["storedbtc", "storedvbk", "storedalt"]   # built only from bytes (no public constructor path in the harness)
TYPES = ["vbkendorsement", "altendorsement", "storedbtc", "storedvbk", "storedalt", "address", "coin", "output", "btctx", "btcblock", "vbkblock", "altblock", "keystones", "ctxinfo", "authctx", "merklepath", "vbkmerklepath", "pubdata",
         "vbktx", "vbkpoptx", "atv", "vtb", "popdata"]
CHECKED = ["atv", "vtb", "popdata", "vbkblock", "btcblock", "vbktx", "vbkpoptx", "pubdata", "address"]


# --------------------------------------------------------------------------
# independent Python encoder; `plan` = {field_index: (value_override|None, form)}
#   form: None canonical, ("pad", n) n leading zero bytes, "empty" (zero bytes of data)
# --------------------------------------------------------------------------
class Enc:
    def __init__(self, c, plan=None):
        self.c = c
        self.plan = plan or {}
        self.nfields = 0
        self.fields = []

    def trimmed(self, v):
        if v < 0:
            return (v & ((1 << 64) - 1)).to_bytes(8, "big")
        n = max(1, (v.bit_length() + 7) // 8)
        return v.to_bytes(n, "big")

    def sbe(self, v, field=None):
        """writeSingleBEValue; when `field` is given it is a length/count field that the plan may override"""
        if field is not None:
            k = self.nfields
            self.nfields += 1
            self.fields.append((field, v))
            if k in self.plan:
                ov, form = self.plan[k]
                if ov is not None:
                    v = ov
                d = self.trimmed(v)
                if form == "empty":
                    d = b""
                elif isinstance(form, tuple):
                    d = b"\0" * form[1] + d
                return bytes([len(d) & 0xff]) + d
        d = self.trimmed(v)
        return bytes([len(d)]) + d

    def u8len(self, n, field):
        k = self.nfields
        self.nfields += 1
        self.fields.append((field, n))
        if k in self.plan and self.plan[k][0] is not None:
            n = self.plan[k][0]
        return bytes([n & 0xff])  # like the C++ (uint8_t) cast

    def sbl(self, b, field="sbl"):
        return self.u8len(len(b), field) + b

    def var(self, b, field="var"):
        return self.sbe(len(b), field) + b

    def fixed32(self, v, field=None):
        if field is not None:
            k = self.nfields
            self.nfields += 1
            self.fields.append((field, v))
            if k in self.plan:
                ov, form = self.plan[k]
                if ov is not None:
                    v = ov
                d = (v & 0xffffffff).to_bytes(4, "big")
                if form == "empty":
                    d = b""
                elif form == "trim":
                    d = self.trimmed(v & 0x7fffffff)
                return bytes([len(d)]) + d
        return b"\x04" + (v & 0xffffffff).to_bytes(4, "big")

    def address(self, a):
        return bytes([a[0]]) + self.sbl(a[1], "addr")

    def coin(self, v):
        return self.sbe(v)

    def output(self, o):
        return self.address(o[0]) + self.coin(o[1])

    def btctx(self, b):
        return self.var(b, "btctx")

    def btcblock_raw(self, b):
        return ((b[0] & 0xffffffff).to_bytes(4, "little") + b[1][::-1] + b[2][::-1] + b[3].to_bytes(4, "little") +
                b[4].to_bytes(4, "little") + b[5].to_bytes(4, "little"))

    def btcblock(self, b):
        return self.sbl(self.btcblock_raw(b), "hdr")

    def vbkblock_raw(self, b):
        return ((b[0] & 0xffffffff).to_bytes(4, "big") + (b[1] & 0xffff).to_bytes(2, "big") + b[2] + b[3] + b[4] + b[5] +
                b[6].to_bytes(4, "big") + (b[7] & 0xffffffff).to_bytes(4, "big") + b[8].to_bytes(5, "big"))

    def vbkblock(self, b):
        return self.sbl(self.vbkblock_raw(b), "hdr")

    def altblock(self, b):
        return self.sbl(b[0], "althash") + self.sbl(b[1], "althash") + (b[2] & 0xffffffff).to_bytes(4, "big") + b[3].to_bytes(4, "big")

    def keystones(self, k):
        return self.sbl(k[0], "keystone") + self.sbl(k[1], "keystone")

    def ctxinfo(self, c):
        return (c[0] & 0xffffffff).to_bytes(4, "big") + self.keystones(c[1])

    def authctx(self, c):
        return self.ctxinfo(c[0]) + c[1]

    def endorsement(self, e):
        return self.sbl(e[0], "eid") + self.sbl(e[1], "ehash") + self.sbl(e[2], "ehash") + self.sbl(e[3], "ehash")

    vbkendorsement = endorsement
    altendorsement = endorsement

    def idlist(self, l):
        return self.sbe(len(l), "count") + b"".join(self.sbl(x, "eid") for x in l)

    def popstate_(self, l):
        return self.sbe(len(l), "count") + b"".join(self.endorsement(e) for e in l)

    def storedbtc(self, s):
        a = s[3]
        return (s[0] & 0xffffffff).to_bytes(4, "big") + self.btcblock_raw(s[1]) + s[2].to_bytes(4, "big") + \
            self.idlist(a[0]) + self.sbe(len(a[1]), "count") + b"".join((x & 0xffffffff).to_bytes(4, "big") for x in a[1])

    def storedvbk(self, s):
        a = s[3]
        return (s[0] & 0xffffffff).to_bytes(4, "big") + self.vbkblock_raw(s[1]) + s[2].to_bytes(4, "big") + \
            self.idlist(a[0]) + self.idlist(a[1]) + a[2].to_bytes(4, "big") + self.idlist(a[3]) + self.popstate_(a[4])

    def storedalt(self, s):
        a = s[3]
        return (s[0] & 0xffffffff).to_bytes(4, "big") + self.altblock(s[1]) + s[2].to_bytes(4, "big") + \
            self.idlist(a[0]) + self.idlist(a[1]) + self.idlist(a[2]) + self.idlist(a[3]) + self.popstate_(a[4])

    def merklepath(self, m):
        raw = self.fixed32(m[0]) + self.fixed32(len(m[1]), "nlayers") + self.fixed32(4, "sizeofsize") + \
            (32).to_bytes(4, "big") + b"".join(self.sbl(l, "layer") for l in m[1])
        return self.var(raw, "nested")

    def vbkmerklepath(self, m):
        return self.fixed32(m[0]) + self.fixed32(m[1]) + self.sbl(m[2], "subject") + self.fixed32(len(m[3]), "nlayers") + \
            b"".join(self.sbl(l, "layer") for l in m[3])

    def pubdata(self, p):
        return self.sbe(p[0]) + self.var(p[1], "pub") + self.var(p[2], "pub") + self.var(p[3], "pub")

    def nbp(self, n):
        return (bytes([n[0]]) if n[0] is not None else b"") + bytes([n[1]])

    def vbktx(self, t):
        raw = self.nbp(t[0]) + self.address(t[1]) + self.coin(t[2]) + self.u8len(len(t[3]), "noutputs") + \
            b"".join(self.output(o) for o in t[3]) + self.sbe(t[4]) + self.var(self.pubdata(t[5]), "nested")
        return self.var(raw, "nested") + self.sbl(t[6], "sig") + self.sbl(t[7], "key")

    def vbkpoptx(self, t):
        raw = self.nbp(t[0]) + self.address(t[1]) + self.vbkblock(t[2]) + self.btctx(t[3]) + self.merklepath(t[4]) + \
            self.btcblock(t[5]) + self.sbe(len(t[6]), "count") + b"".join(self.btcblock(b) for b in t[6])
        return self.var(raw, "nested") + self.sbl(t[7], "sig") + self.sbl(t[8], "key")

    def atv(self, a):
        return a[0].to_bytes(4, "big") + self.vbktx(a[1]) + self.vbkmerklepath(a[2]) + self.vbkblock(a[3])

    def vtb(self, a):
        return a[0].to_bytes(4, "big") + self.vbkpoptx(a[1]) + self.vbkmerklepath(a[2]) + self.vbkblock(a[3])

    def popdata(self, p):
        return p[0].to_bytes(4, "big") + self.sbe(len(p[1]), "count") + b"".join(self.vbkblock(b) for b in p[1]) + \
            self.sbe(len(p[2]), "count") + b"".join(self.vtb(v) for v in p[2]) + \
            self.sbe(len(p[3]), "count") + b"".join(self.atv(v) for v in p[3])


def py_encode(c, t, v, plan=None):
    e = Enc(c, plan)
    return getattr(e, t)(v), e


FIELD_LIMITS = {"count": [50000, 65535], "nlayers": [40], "pub": [1024, 10000], "nested": [21036, 5500000],
                "btctx": [4000000], "sizeofsize": [4], "hdr": [80, 65], "layer": [32], "subject": [32], "sig": [72], "key": [88],
                "eid": [32, 12], "ehash": [24, 32, 255], "addr": [30], "althash": [32], "keystone": [255], "noutputs": [255], "sbl": [255], "var": [255]}


def hostile_variants(r, c, t, v, k):
    """k structure-aware mutations of the valid encoding of v: every mutation overrides ONE length/count field
    (boundary values, declared limit +-1, actual length +-1, negative) or changes its form (non-minimal, empty)"""
    base, e = py_encode(c, t, v)
    out = []
    if e.nfields == 0:
        return out
    for _ in range(k):
        i = r.below(e.nfields)
        kind, val = e.fields[i]
        lim = FIELD_LIMITS.get(kind, [255])
        cands = [0, 1, 255, 256, 65535, 65536, val + 1, max(0, val - 1), (1 << 31) - 1, (1 << 31), (1 << 32) - 1, -1]
        for L in lim:
            cands += [L - 1, L, L + 1]
        form = r.choice([None, None, None, ("pad", 1), ("pad", 2), ("pad", 3), ("pad", 4), "empty", "trim"])
        ov = r.choice(cands) if r.chance(3, 4) else None
        if ov is None and form is None:
            form = ("pad", 1)
        try:
            b, _ = py_encode(c, t, v, {i: (ov, form)})
        except (OverflowError, ValueError):
            continue
        out.append(("field:%s" % kind, b))
    return out


def byte_mutations(r, b, k):
    out = []
    n = len(b)
    for _ in range(k):
        m = r.below(6)
        x = bytearray(b)
        if n == 0:
            out.append(("random", r.bytes(r.below(8))))
            continue
        if m == 0:
            i = r.below(n)
            x[i] ^= 1 << r.below(8)
            out.append(("bitflip", bytes(x)))
        elif m == 1:
            i = r.below(n)
            x[i] = r.choice([0, 1, 2, 4, 5, 8, 9, 0x7f, 0x80, 0xfe, 0xff])
            out.append(("byteset", bytes(x)))
        elif m == 2:
            out.append(("truncate", bytes(x[:r.below(n)])))
        elif m == 3:
            i = r.below(n + 1)
            out.append(("insert", bytes(x[:i]) + r.bytes(r.range(1, 4)) + bytes(x[i:])))
        elif m == 4:
            i = r.below(n)
            j = min(n, i + r.range(1, 4))
            out.append(("delete", bytes(x[:i]) + bytes(x[j:])))
        else:
            out.append(("append", bytes(x) + r.bytes(r.range(1, 9))))
    return out


# --------------------------------------------------------------------------
# running cases
# --------------------------------------------------------------------------
def write_cases(path, cases):
    with open(path, "w") as f:
        for cid, op, args in cases:
            f.write("%s %s %s\n" % (cid, op, " ".join(args)))


def run_model(model, path):
    # the extracted functions recurse once per byte/element: give the driver a large stack
    return vlib.run_lines(["bash", "-c", "ulimit -s 4000000 2>/dev/null || ulimit -s unlimited 2>/dev/null; exec %s" % model],
                          path, timeout=3000)


def run_impl_bisect(ctx, harness, cases, timeout, env=None, tag="impl"):
    """run the harness over all cases; when the process dies (sanitizer report, abort, uncaught exception,
    timeout) the first case without an output line is the culprit: it is recorded and the run continues
    after it. Returns (results, oracle_failures, crashes[(case, rc, stderr_tail)])"""
    res, orc, crashes = {}, [], []
    todo = list(cases)
    rounds = 0
    while todo and rounds < 60:
        rounds += 1
        p = os.path.join(ctx.work, "%s-%d.txt" % (tag, rounds))
        write_cases(p, todo)
        rc, r, o, err = vlib.run_lines([harness], p, timeout=timeout, env=env)
        res.update(r)
        orc += o
        missing = [c for c in todo if c[0] not in r]
        if rc == 0 and not missing:
            break
        if not missing:
            # died after the last case (e.g. leak report at exit)
            crashes.append((None, rc, err[:2500] + "\n...\n" + err[-800:] if len(err) > 3300 else err))
            break
        crashes.append((missing[0], rc, err[:2500] + "\n...\n" + err[-800:] if len(err) > 3300 else err))
        todo = missing[1:]
        # a case that exceeds its time bound (per-case watchdog of the harness, or the batch timeout) costs its
        # whole bound: three such inputs are reported, the rest of the batch is not run (finish() then reports
        # the unexecuted cases next to the concrete violations)
        if sum(1 for c in crashes if c[1] == 124) >= 3:
            break
    return res, orc, crashes


def check_consts(ctx, ires):
    """cross-check tools/gen_consts.py against the values the compiler sees in the same headers"""
    line = ires.get("k0")
    if not line:
        ctx.broken.append("corr:consts: harness printed no constants")
        return
    have = consts()
    for kv in line.split():
        k, _, v = kv.partition("=")
        if k not in have:
            ctx.broken.append("gen:gen_consts.py: %s missing in Gen/Consts.v" % k)
        elif have[k] != int(v):
            ctx.broken.append("gen:gen_consts.py: %s=%d but the compiled headers say %s" % (k, have[k], v))


def crash_key(rc, err):
    """stable key of a sanitizer report / abort: kind + innermost library function (no addresses, no line numbers)"""
    kind = None
    m = re.search(r"runtime error: ([a-z][a-z \-]+?)(?::| of | by | for | on |$)", err)
    if m:
        kind = m.group(1).strip().replace(" ", "-")
    m2 = re.search(r"ERROR: AddressSanitizer: ([\w\-]+)", err)
    if m2:
        kind = m2.group(1)
    fn = None
    for f in re.finditer(r"#\d+ 0x[0-9a-f]+ in ([^\n(]+?)(?:\(| /| \()", err):
        name = f.group(1).strip()
        if name.startswith("__") or "sanitizer" in name or name.startswith("operator new") or name in ("malloc", "free", "memcpy"):
            continue
        fn = name.replace("altintegration::", "")
        break
    if rc == 124:
        return "timeout"
    ma = re.search(r"Assertion failed at [^\n]*?([\w.]+):\d+ inside (\w+)", err)
    if ma:
        return "abort:assert:%s:%s" % (ma.group(1), ma.group(2))
    if kind is None and fn is None:
        return "died:rc=%d" % rc
    return "san:%s:%s" % (kind or "abort", fn or "?")


# --------------------------------------------------------------------------
# known boundary findings of C11 (replayed on the implementation, reported under stable keys)
# --------------------------------------------------------------------------
KEY_PUBDATA = "C11:pubdata-max-size-6-short"
KEY_LIMIT = "C11:noncanonical-at-size-limit"


def pubdata_of_size(r, c, total):
    """a PublicationData with every field within its declared limit whose canonical encoding has `total` bytes
    (MAX_PUBLICATIONDATA_SIZE-6 .. MAX_PUBLICATIONDATA_SIZE+6 are reachable only with all three byte fields near max)"""
    hmax, cmax, pmax = c["MAX_HEADER_SIZE_PUBLICATION_DATA"], c["MAX_CONTEXT_SIZE_PUBLICATION_DATA"], c["MAX_PAYOUT_INFO_SIZE"]
    full = 9 + (3 + hmax) + (3 + cmax) + (3 + pmax)
    cut = full - total            # bytes to drop from the all-max, 8-byte-identifier value
    assert 0 <= cut
    idlen = 8
    take = min(cut, r.below(6))   # drop some from the identifier (down to 3 bytes), the rest from the payout info
    idlen -= take
    po = pmax - (cut - take)
    ident = (1 << (8 * idlen - 2)) | r.bits(8 * idlen - 3)
    return Rec((ident, r.bytes(hmax), r.bytes(cmax), r.bytes(po)))


def pubdata_limit_cases(r, c):
    """enc cases (vbktx and atv) whose PublicationData has canonical size MAX-2 .. MAX+6; returns [(id, op, args, size)]"""
    mx = c["MAX_PUBLICATIONDATA_SIZE"]
    out = []
    g = Gen(r)
    k = 0
    for total in range(mx - 2, mx + 7):
        for t in ("vbktx", "atv"):
            pub = pubdata_of_size(r, c, total)
            assert len(py_encode(c, "pubdata", pub)[0]) == total
            tx = Rec((g.nbp(c["TX_TYPE_VBK_TX"]), g.address(), g.coin(), [g.output() for _ in range(r.below(3))], g.i64(), pub,
                      r.bytes(r.below(73)), r.bytes(r.below(89))))
            v = tx if t == "vbktx" else Rec((1, tx, g.vbkmerklepath(), g.vbkblock(low=True)))
            out.append(("p%d" % k, "enc", [t, show(v)], total))
            k += 1
    return out


class ShortIndexEnc(Enc):
    """writes a MerklePath index 0 as the empty single-BE value "00" (accepted by readSingleBEValue) instead of the
    canonical writeSingleFixedBEValue form "04 00000000": 4 bytes shorter"""
    def fixed32(self, v, field=None):
        if field is None and v == 0:
            return b"\x00"
        return Enc.fixed32(self, v, field)


def size_limit_witness(c, entity):
    """bytes of a VbkPopTx (or a VTB / PopData around it) whose raw transaction buffer has exactly MAX_POPDATA_SIZE bytes
    and contains the short MerklePath index form; the canonical re-encoding needs MAX_POPDATA_SIZE + 4 bytes"""
    addr = Rec(address_from_pubkey(b"\x01\x02\x03"))
    blk = Rec((1, bytes(32), bytes(32), 2, 3, 4))
    vbk = Rec((5, 2, bytes(12), bytes(9), bytes(9), bytes(16), 7, 8, 9))
    n = 18600

    def poptx(L):
        return Rec((Rec((0xbb, c["TX_TYPE_VBK_POP_TX"])), addr, vbk, bytes(L), Rec((0, [])), blk, [blk] * n, b"", b""))

    def rawlen(t):
        return len(ShortIndexEnc(c).vbkpoptx(t)) - 4 - 2     # var-len prefix "03 xxxxxx", empty signature, empty key
    L0 = c["BTC_TX_MAX_RAW_SIZE"] - 10000
    L = L0 + (c["MAX_POPDATA_SIZE"] - rawlen(poptx(L0)))
    t = poptx(L)
    assert rawlen(t) == c["MAX_POPDATA_SIZE"] and L <= c["BTC_TX_MAX_RAW_SIZE"]
    e = ShortIndexEnc(c)
    if entity == "vbkpoptx":
        return e.vbkpoptx(t)
    vtb = Rec((1, t, Rec((0, 0, bytes(32), [])), vbk))
    if entity == "vtb":
        return e.vtb(vtb)
    return e.popdata(Rec((1, [], [vtb], [])))


# --------------------------------------------------------------------------
# memoised hashes / ids: API sequences  hash ; mutate one field ; hash   (harness op `memo`)
# --------------------------------------------------------------------------
MEMO_SETTERS = {"vbkblock": 9, "btcblock": 6, "atv": 11, "vtb": 16}


def memo_cases(r, quick=True):
    g = Gen(r)
    out = []
    k = 0
    for t, n in MEMO_SETTERS.items():
        mk = {"vbkblock": lambda: g.vbkblock(low=True), "btcblock": g.btcblock, "atv": g.atv, "vtb": g.vtb}[t]
        for s in range(n):                       # every setter on its own: hash, set, hash
            out.append(("m%d" % k, "memo", [t, show(mk()), "h,%d,h" % s]))
            k += 1
        for _ in range(4 if quick else 60):      # random interleavings, always ending with a read
            seq = ["h"] if r.chance(3, 4) else []
            for _ in range(r.range(1, 5)):
                seq.append(str(r.below(n)))
                if r.chance(1, 2):
                    seq.append("h")
            if seq[-1] != "h":
                seq.append("h")
            out.append(("m%d" % k, "memo", [t, show(mk()), ",".join(seq)]))
            k += 1
    return out


# --------------------------------------------------------------------------
# hostile split descriptors inside VbkPopTx.bitcoinTransaction.tx (containsSplit)
# --------------------------------------------------------------------------
def hostile_split_txs(r, count):
    """bitcoin transactions carrying the split magic 92 7a 59 with every descriptor shape (0..15 chunks, offset widths
    4/8/12/16, length widths 4..7) and chunk tables whose offsets/lengths sit at, just below and beyond the bytes that
    remain after the previous chunk; also truncated tables, several magics, magic close to the end"""
    from props import _c05gen as G
    out = []
    while len(out) < count:
        n = r.choice([0, 1, 2, 2, 2, 3, 3, 4, 8, 15]) if r.chance(2, 3) else r.below(16)
        o = r.choice([4, 8, 12, 16])
        sw = r.range(4, 7)
        bitlen = max(0, n * o + (n - 1) * sw) if n else 0
        nbytes = bitlen // 8 + 1
        lead = r.choice([0, 0, 1, 3, r.below(20)])
        tail = r.choice([0, 1, 2, 5, 6, 7, 12, 40, 79, 80, 81, 100, r.below(200)])
        size = lead + 3 + 1 + nbytes + tail
        pos = 0
        left = 80
        chunks = []
        for k in range(n):
            rem = size - pos
            cands = [0, 1, rem - 1, rem, rem + 1, size, size - 1, size + 1, rem // 2, (1 << o) - 1, r.below(max(1, rem + 3))]
            off = max(0, min((1 << o) - 1, r.choice(cands)))
            after = size - (pos + off)
            lc = [0, 1, after - 1, after, after + 1, left, left - 1, left + 1, (1 << sw) - 1, r.below(1 << sw)]
            ln = max(0, min((1 << sw) - 1, r.choice(lc)))
            chunks.append((off, ln))
            last = (k == n - 1)
            used = (left if last else ln)
            pos = pos + off + max(0, used)
            left -= ln
        if n:
            tab = G.encode_table(chunks, o, sw)
        else:
            tab = bytes([G.descriptor(0, o, sw)]) + r.bytes(1)
        tx = G.filler(r, lead) + G.MAGIC + tab + r.bytes(tail)
        m = r.below(8)
        if m == 0 and len(tx) > 4:
            tx = tx[:r.range(3, len(tx) - 1)]                  # truncated descriptor / table
        elif m == 1:
            tx = tx + G.MAGIC + tab + r.bytes(r.below(12))     # a second magic
        elif m == 2:
            tx = r.bytes(r.below(6)) + G.MAGIC[:r.range(1, 2)] + tx   # partial magic first
        out.append(tx)
    return out


def vtb_with_btctx(g, c, tx):
    """an otherwise valid VTB (regtest magic byte, empty BTC context) around the given bitcoin transaction bytes"""
    r = g.r
    pop = Rec((Rec((0xbb, c["TX_TYPE_VBK_POP_TX"])), g.address(), g.vbkblock(), tx, g.merklepath(), g.btcblock(),
               [g.btcblock() for _ in range(r.below(2))], r.bytes(r.below(73)), r.bytes(r.below(89))))
    return Rec((1, pop, g.vbkmerklepath(), g.vbkblock(low=True)))


# --------------------------------------------------------------------------
# C06 wave 2: checksum-correct adversarial address texts, plausible (check-passing) payloads, zero-length fields
# --------------------------------------------------------------------------
def _cs(data, n):
    return b_enc(hashlib.sha256(data.encode()).digest(), B58)[:n]


def adversarial_addresses(r, count):
    """(wire type byte, bytes) whose TEXT (as the deserializer rebuilds it with EncodeBase58/59) carries a CORRECT checksum
    but is unusual: base59-only character '0' inside a standard-looking text, multisig texts with '0' inside the data part,
    m/n at and beyond their limits, wrong first character, standard text sent with the multisig wire byte and vice versa"""
    out = []
    while len(out) < count:
        kind = r.below(6)
        if kind == 0:      # standard shape, '0' somewhere in the first 25 characters
            body = [B58[r.below(58)] for _ in range(24)]
            for _ in range(r.range(1, 3)):
                body[r.below(24)] = "0"
            data = "V" + "".join(body)
            out.append(("std-with-0", 3, b_dec(data + _cs(data, 5), B59)))
        elif kind == 1:    # plain standard text over both wire type bytes
            data = "V" + "".join(B58[r.below(58)] for _ in range(24))
            text = data + _cs(data, 5)
            out.append(("std-wire1", 1, b_dec(text, B58)))
            out.append(("std-wire3", 3, b_dec(text, B59)))
        elif kind == 2:    # multisig with m/n around their limits, correct 4-char checksum
            n = r.choice([1, 2, 3, 57, 58])
            m = r.choice([1, 2, n, n + 1 if n < 58 else 58, 58])
            data = "V" + B58[m - 1] + B58[n - 1] + "".join(B58[r.below(58)] for _ in range(22))
            out.append(("multisig-mn", 3, b_dec(data + _cs(data, 4) + "0", B59)))
        elif kind == 3:    # multisig with '0' inside the data part (first 29 characters must be base58)
            body = [B58[r.below(58)] for _ in range(24)]
            body[r.below(24)] = "0"
            data = "V" + "".join(body)
            out.append(("multisig-with-0", 3, b_dec(data + _cs(data, 4) + "0", B59)))
        elif kind == 4:    # wrong first character, otherwise consistent
            data = r.choice("U1Wv2z") + "".join(B58[r.below(58)] for _ in range(24))
            text = data + _cs(data, 5)
            out.append(("bad-first-char", 1, b_dec(text, B58)))
            out.append(("bad-first-char", 3, b_dec(text, B59)))
        else:              # '0' in the checksum region of a standard text (can never match a base58 checksum)
            data = "V" + "".join(B58[r.below(58)] for _ in range(24))
            cs = list(_cs(data, 5))
            cs[r.below(4)] = "0"
            out.append(("std-0-in-checksum", 3, b_dec(data + "".join(cs), B59)))
    return out[:count]


def address_pop_bytes(addr):
    text = b_enc(addr[1], B58 if addr[0] == 1 else B59)
    return (b_dec(text[1:], B58 if addr[0] == 1 else B59) + bytes(15))[:15]


def plausible_atv(g, c, src=None, outs=None, header=None, ctxinfo=None):
    """an ATV that passes the cheap stateless checks of checkVbkTx (magic byte, fee, altchain id, context info, endorsed
    header) so that the deeper ones (checkBlockHeader, signature) are reached"""
    r = g.r
    e = Enc(c)
    pk = r.bytes(r.choice([0, 3, 33, 65, 88]))
    src = src if src is not None else Rec(address_from_pubkey(pk))
    outs = outs if outs is not None else [Rec((g.address(), r.below(1000))) for _ in range(r.below(3))]
    alt = Rec((r.bytes(c["ALT_HASH_SIZE"]), r.bytes(c["ALT_HASH_SIZE"]), r.below(1000), r.below(1 << 31)))
    header = e.altblock(alt) if header is None else header
    ctx = Rec((Rec((r.below(1000), Rec((r.bytes(32), r.bytes(32))))), r.bytes(32)))
    ctxinfo = e.authctx(ctx) if ctxinfo is None else ctxinfo
    pub = Rec((0, header, ctxinfo, r.bytes(r.below(20))))
    tx = Rec((Rec((0xbb, c["TX_TYPE_VBK_TX"])), src, 1000000 + r.below(1000), outs, r.below(100), pub,
              r.bytes(r.choice([0, 70, 71, 72])), pk))
    return Rec((1, tx, Rec((r.below(4), r.below(4), r.bytes(32), [r.bytes(32) for _ in range(r.below(3))])), g.vbkblock(low=True)))


def plausible_vtb(g, c, addr=None):
    """a VTB that passes checkVbkPopTx up to the signature check: contiguous publication bytes in the bitcoin tx,
    empty merkle path whose root is the tx hash, no BTC context"""
    r = g.r
    e = Enc(c)
    pk = r.bytes(r.choice([0, 3, 33, 65]))
    addr = addr if addr is not None else Rec(address_from_pubkey(pk))
    pub = g.vbkblock(low=True)
    tx = r.bytes(r.below(30)) + e.vbkblock_raw(pub) + address_pop_bytes(addr) + r.bytes(r.below(30))
    h = hashlib.sha256(hashlib.sha256(tx).digest()).digest()
    bop = Rec((r.below(4), r.bytes(32), h[::-1], r.bits(32), 0x207fffff, r.bits(32)))
    pop = Rec((Rec((0xbb, c["TX_TYPE_VBK_POP_TX"])), addr, pub, tx, Rec((0, [])), bop, [], r.bytes(r.choice([0, 70, 72])), pk))
    return Rec((1, pop, Rec((r.below(4), r.below(4), r.bytes(32), [])), g.vbkblock(low=True)))


def emptied_variants(v):
    """every value obtained from v by making ONE variable-length part (byte string or list) empty"""
    out = []

    def walk(x, rebuild):
        if isinstance(x, (bytes, bytearray)):
            if len(x):
                out.append(rebuild(b""))
        elif isinstance(x, list):
            if x:
                out.append(rebuild([]))
            for i, y in enumerate(x):
                walk(y, lambda ny, i=i, x=x: rebuild(x[:i] + [ny] + x[i + 1:]))
        elif isinstance(x, Rec):
            for i, y in enumerate(x):
                walk(y, lambda ny, i=i, x=x: rebuild(Rec(x[:i] + (ny,) + x[i + 1:])))
    walk(v, lambda nv: nv)
    return out


# --------------------------------------------------------------------------
# CountingContext (the running PopData size used to enforce the limits) vs PopData::estimateSize
# --------------------------------------------------------------------------
def counting_sequences(r, quick=True):
    """token sequences in which ONE kind crosses the 255 -> 256 element boundary (its length prefix grows by one byte)
    while the two other kinds stay small or cross it too, followed by single-element steps of every kind"""
    seqs = []
    kinds = "avb"
    for k in kinds:
        others = [o for o in kinds if o != k]
        for variant in range(2 if quick else 8):
            pre = ["%s%d" % (o, r.range(0, 4)) for o in others]
            r.shuffle(pre)
            ex = r.choice([0, 1, 7, 200])
            big = "%s%dx%d" % (k, r.choice([253, 254]), ex) if k != "b" else "%s%d" % (k, r.choice([253, 254]))
            order = [big] + pre if variant % 2 == 0 else pre + [big]
            singles = [k + "1", k + "1", others[0] + "1", k + "1", others[1] + "1", k + "1", others[0] + "1x3", k + "1"]
            seqs.append(order + singles)
    if not quick:
        for _ in range(6):      # two kinds across the boundary
            a, b = r.choice(kinds), r.choice(kinds)
            seqs.append(["%s255" % a, "%s255" % b] + [r.choice(kinds) + "1" for _ in range(8)])
    return seqs


def counting_cases(r, run, quick=True):
    """run(cases) -> {id: result line}; two passes: learn the PopData size after every token with unbounded limits, then
    replay each sequence with maxsize set exactly at, one below and one above the size reached after a token, and with
    the per-kind count limit exactly at / one below the count reached"""
    big = 0x3b9aca00
    seqs = counting_sequences(r, quick)
    p1 = [("n%d" % i, "count", ["%x" % big, "c350", "c350", "c350", ",".join(sq)]) for i, sq in enumerate(seqs)]
    res1 = run(p1)
    out = []
    k = 0
    for (cid, _, args), sq in zip(p1, seqs):
        line = res1.get(cid, "")
        if not line.startswith("OK"):
            continue
        sizes = [int(x) for x in line.split()[3].split(",")]
        picks = list(range(max(0, len(sq) - 8), len(sq)))
        for j in picks:
            for d in (-1, 0, 1):
                out.append(("c%d" % k, "count", ["%x" % (sizes[j] + d), "c350", "c350", "c350", ",".join(sq)]))
                k += 1
        for lim in (255, 256, 257):
            for which in range(3):
                L = ["c350", "c350", "c350"]
                L[which] = "%x" % lim
                out.append(("c%d" % k, "count", ["%x" % big] + L + [",".join(sq)]))
                k += 1
    return p1, res1, out
